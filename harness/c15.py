"""C15 — stimulus spike trains honour their specification.

Correspondence: SpikeGenerator.spike_times_from_json on generated stimuli sets vs
Model/SpikeGenExec.v (PrimFloat instance, bit-exact; Poisson draws replayed from the same
seeded random.Random; set iteration order reported by the worker as oracle data).
Probe: the property text checked directly on the returned trains."""
import math
import random

from . import common as C

PROP = "C15"
PROPS_FILE = "theories/Props/C15.v"
THEOREMS = ["c15_regular", "c15_poisson", "c15_list", "c15_dispatch", "c15_regular_rational"]
GEN_FILES = []
TRUSTED = ["Coq 8.16.1 kernel + vm_compute; primitive floats (PrimFloat) used only in the executable correspondence instance, never in a theorem",
           "theorems closed under the global context",
           "correspondence harness harness/c15.py (renders stimuli, replays random.Random draws, computes -log(1-u) with Python's math.log, prints floats as hex literals); comparison computed in Coq by Model/SpikeGenExec.mism",
           "modelled not verified: np.loadtxt parsing (numbers supplied as data), np.sort (insertion sort in the model), Python set iteration order (reported by the worker), random.random, math.log"]
ASSUMPTIONS = ["theorems are over any totally ordered number type with monotone addition (instances Z, Qc): exact arithmetic; float rounding is covered by the bit-exact PrimFloat correspondence only",
               "the boundary spike k/rate = T of a regular train may be lost to rounding in floats (the property exempts it: 'no interior one missing')"]

NAMES = ["x", "x'", "y''", "I_in", "g_ex'", "V_m", "a'b", "z'''"]


def fhex(x):
    h = float(x).hex()
    return "(%s)%%float" % h


def gen_case(rng, k):
    T = rng.choice([0.1, 0.3, 1.0, 2.5, 0.75, 0.05, 3.0, 1e-3])
    nst = rng.choice([0, 1, 1, 2, 2, 3, 4])
    stimuli = []
    for _ in range(nst):
        ty = rng.choice(["poisson_generator", "regular", "regular", "list", "list", "list"])
        vs = [rng.choice(NAMES) for _ in range(rng.choice([1, 1, 2, 3]))]
        if rng.random() < 0.2:
            vs.append(vs[0])
        st = {"type": ty, "variables": vs}
        if ty == "poisson_generator":
            st["rate"] = rng.choice(["%r" % (rng.choice([3., 10., 25., 40.]) / T * 0.3), "%d" % max(1, int(8 / T))])
        elif ty == "regular":
            n = rng.choice([1, 2, 3, 7, 10, 33, 100, 250])
            st["rate"] = rng.choice(["%r" % (n / T), "%d." % max(1, round(n / T)), "%r" % (n / T * 1.37)])
        else:
            m = rng.choice([0, 1, 1, 2, 3, 5, 8])
            vals = []
            for _ in range(m):
                q = rng.random()
                if q < 0.2:
                    vals.append(T)
                elif q < 0.35:
                    vals.append(T * (1 + rng.random()))
                elif q < 0.45 and vals:
                    vals.append(vals[0])
                else:
                    vals.append(T * rng.random())
            fm = rng.choice(["%r", "%.3E", "%.6f"])
            st["list"] = " ".join(fm % v for v in vals)
        stimuli.append(st)
    if rng.random() < 0.03:
        stimuli.append({"type": "burst", "variables": ["x"], "rate": "1."})
    marker = rng.choice(["__d", "__d", "__d", "_D", "__deriv"])
    return {"stimuli": stimuli, "T": T, "seed": rng.randint(0, 10 ** 6), "marker": marker}


def gen_min_isi_case(rng):
    """Poisson trains whose rate is so high that the minimum interval (1E-6) binds for most draws"""
    T = rng.choice([1e-5, 2e-5, 1.5e-5, 4e-6])
    stimuli = [{"type": "poisson_generator", "rate": rng.choice(["2e6", "5000000.", "1e7", "3.3e5", "1e6"]), "variables": [rng.choice(NAMES) for _ in range(rng.choice([1, 2]))]}]
    if rng.random() < 0.4:
        stimuli.append({"type": "poisson_generator", "rate": rng.choice(["4e6", "250000"]), "variables": [stimuli[0]["variables"][0]]})
    return {"stimuli": stimuli, "T": T, "seed": rng.randint(0, 10 ** 6), "marker": "__d"}


def impl_run(task):
    import random as pyrandom
    from odetoolbox.config import Config
    from odetoolbox.spike_generator import SpikeGenerator
    from . import impl_worker
    outs = []
    for c in task["cases"]:
        old = Config.config["differential_order_symbol"]
        Config.config["differential_order_symbol"] = c["marker"]
        pyrandom.seed(c["seed"])
        order = [list(set(st["variables"])) for st in c["stimuli"]]
        try:
            r = SpikeGenerator.spike_times_from_json(c["stimuli"], c["T"])
            out = {"outcome": "Ok", "order": order, "result": [[k, [float(x).hex() for x in v]] for k, v in r.items()]}
        except BaseException as e:   # noqa
            out = {"outcome": impl_worker.classify_exception(e), "detail": str(e)[:200], "order": order}
        finally:
            Config.config["differential_order_symbol"] = old
        outs.append(out)
    return {"outcome": "Ok", "outs": outs}


def list_values(s):
    return [float(tok) for tok in s.split()]


def to_coq(c, out, nraw=260):
    rng = random.Random(c["seed"])
    has_p = any(st["type"] == "poisson_generator" for st in c["stimuli"])
    raw = [-math.log(1. - rng.random()) for _ in range(nraw)] if has_p else []
    stims = []
    for st, order in zip(c["stimuli"], out["order"]):
        if st["type"] == "poisson_generator":
            s = "SPoisson %s" % fhex(float(st["rate"]))
        elif st["type"] == "regular":
            fuel = int(c["T"] * float(st["rate"])) + 5
            s = "SRegular %s %s" % (fhex(float(st["rate"])), C.cnat(fuel))
        elif st["type"] == "list":
            s = "SList %s" % C.clist([fhex(v) for v in list_values(st["list"])])
        else:
            s = "SUnknown"
        stims.append("(%s, %s)" % (s, C.clist(['"%s"%%string' % v for v in order])))
    if out["outcome"] == "Ok":
        obs = "Some " + C.clist(["(\"%s\"%%string, %s)" % (k, C.clist(["(%s)%%float" % x for x in v])) for k, v in out["result"]])
    else:
        obs = "None"
    return "{| sMarker := \"%s\"%%string; sStims := %s; sT := %s; sRaw := %s; sObs := %s |}" % (
        c["marker"], C.clist(stims), fhex(c["T"]), C.clist([fhex(x) for x in raw]), obs)


def probe(c, out):
    """the property text, checked directly"""
    fails = []
    valid = all(st["type"] in ("poisson_generator", "regular", "list") for st in c["stimuli"])
    if out["outcome"] != "Ok":
        if valid:
            kinds = sorted(set((st["type"], len(list_values(st["list"])) if st["type"] == "list" else -1) for st in c["stimuli"]))
            one = any(st["type"] == "list" and len(list_values(st["list"])) == 1 for st in c["stimuli"])
            key = "list stimulus with exactly one entry raises" if one and "TypeError" in out["outcome"] else "valid stimuli raise %s" % out["outcome"]
            fails.append((key, "spike_times_from_json raised %s (%s) on valid stimuli %s" % (out["outcome"], out.get("detail"), c["stimuli"])))
        return fails
    T = c["T"]
    res = {k: [float.fromhex(x) for x in v] for k, v in out["result"]}
    want_keys = set(v.replace("'", c["marker"]) for st in c["stimuli"] for v in st["variables"])
    if set(res.keys()) != want_keys:
        fails.append(("keys", "keys %s, expected renamed targets %s" % (sorted(res), sorted(want_keys))))
        return fails
    for key in want_keys:
        parts = [st for st in c["stimuli"] if key in [v.replace("'", c["marker"]) for v in st["variables"]]]
        tr = res[key]
        if any(not (0 < t <= T) for t in tr):
            fails.append(("window", "target %s: spike outside (0, T]: %s" % (key, [t for t in tr if not (0 < t <= T)][:3])))
        if all(p["type"] != "poisson_generator" for p in parts):
            # fully predictable: concatenation in stimulus order.  The multiple of 1/rate that falls on T itself may or may not
            # be delivered (the property exempts it), so both readings are tried before a failure is reported.
            def account(pi, pos):
                """-> None if the parts from pi on account for tr[pos:], else the first complaint"""
                if pi == len(parts):
                    return None if pos == len(tr) else ("accumulate", "target %s: %d spikes delivered, %d accounted for by its stimuli" % (key, len(tr), pos))
                p = parts[pi]
                if p["type"] == "list":
                    exp = sorted(v for v in list_values(p["list"]) if v <= T)
                    got = tr[pos:pos + len(exp)]
                    if got != exp:
                        return ("list", "target %s: list stimulus %r delivered %s, expected %s" % (key, p["list"], got, exp))
                    return account(pi + 1, pos + len(exp))
                isi = 1 / float(p["rate"])
                nfull = int(math.floor(T / isi * (1 - 1e-9)))
                seg = tr[pos:pos + nfull]
                for k in range(1, nfull + 1):
                    if k - 1 >= len(seg) or abs(seg[k - 1] - k * isi) > 1e-9 * max(1.0, k) * isi * 8:
                        return ("regular", "target %s: regular rate %s T %s: interior multiple k=%d (%r) missing" % (key, p["rate"], T, k, k * isi))
                first = account(pi + 1, pos + nfull)
                if first is None:
                    return None
                boundary = len(tr) > pos + nfull and abs(tr[pos + nfull] - (nfull + 1) * isi) <= 1e-9 * (nfull + 1) * isi * 8 and (nfull + 1) * isi <= T * (1 + 1e-9)
                if boundary and account(pi + 1, pos + nfull + 1) is None:
                    return None
                return first
            complaint = account(0, 0)
            if complaint is not None:
                fails.append(complaint)
        elif len(parts) == 1:
            if any(b - a < 1e-6 * (1 - 1e-9) for a, b in zip(tr, tr[1:])) or (tr and tr[0] < 1e-6 * (1 - 1e-9)):
                fails.append(("poisson", "target %s: Poisson gaps below the minimum interval / not increasing" % key))
    return fails


HEADER = "From Coq Require Import List String PrimFloat.\nFrom OdeVerif Require Import Base.Corr Model.SpikeGen Model.SpikeGenExec.\nImport ListNotations.\n"


def run(ctx):
    rng = random.Random(ctx["seed"] * 101 + 15)
    quick = ctx["tier"] == "quick"
    n = 400 if quick else 5000
    cases = [gen_case(rng, k) for k in range(n)] + [gen_min_isi_case(rng) for _ in range(30 if quick else 400)]
    # fixed corpus: the boundary and single/empty list cases
    cases[:0] = [
        {"stimuli": [{"type": "list", "list": "5E-3", "variables": ["I'"]}], "T": 0.1, "seed": 1, "marker": "__d"},
        {"stimuli": [{"type": "list", "list": "", "variables": ["I'"]}], "T": 0.1, "seed": 1, "marker": "__d"},
        {"stimuli": [{"type": "regular", "rate": "10.", "variables": ["x", "y'"]}], "T": 0.3, "seed": 1, "marker": "__d"},
        {"stimuli": [{"type": "list", "list": "5E-3 10E-3 20E-3 15E-3 50E-3", "variables": ["I'"]},
                     {"type": "regular", "rate": "100", "variables": ["I'"]}], "T": 0.03, "seed": 1, "marker": "__d"},
    ]
    chunks = [cases[i::C.NPROC] for i in range(C.NPROC)]
    res = C.run_tasks([{"fn": "c15.impl_run", "cases": ch} for ch in chunks if ch], timeout=300)
    outs = [None] * len(cases)
    corr_errors = []
    for ci, r in enumerate(res):
        if r.get("outcome") != "Ok":
            corr_errors.append("worker failed: %s" % str(r)[:300])
            continue
        for j, o in enumerate(r["outs"]):
            outs[ci + j * C.NPROC] = o
    coq_cases, info, probe_failures = [], [], []
    dist = {"types": {}, "outcomes": {}, "n_stimuli": {}, "list_lengths": {}, "markers": {}}
    nontriv = set()
    for c, o in zip(cases, outs):
        if o is None:
            continue
        dist["outcomes"][o["outcome"]] = dist["outcomes"].get(o["outcome"], 0) + 1
        dist["n_stimuli"][str(len(c["stimuli"]))] = dist["n_stimuli"].get(str(len(c["stimuli"])), 0) + 1
        dist["markers"][c["marker"]] = dist["markers"].get(c["marker"], 0) + 1
        for st in c["stimuli"]:
            dist["types"][st["type"]] = dist["types"].get(st["type"], 0) + 1
            if st["type"] == "list":
                L = str(len(list_values(st["list"])))
                dist["list_lengths"][L] = dist["list_lengths"].get(L, 0) + 1
        coq_cases.append(to_coq(c, o))
        info.append({"case": c, "impl": {k: v for k, v in o.items() if k != "order"}})
        if c["stimuli"]:
            nontriv.add(C.stable_hash(c))
        for key, what in probe(c, o):
            probe_failures.append({"key": key if key.startswith("list stimulus") else "%s: %s" % (key, C.stable_hash(c)), "what": what, "replay": {"case": c}})
    mism, errs = C.coq_eval_shards(PROP, HEADER, coq_cases, per=60)
    corr_errors += errs
    corr_mismatches = [{"layer": "spike_times_from_json vs Model/SpikeGenExec (bit-exact floats)", "case": info[i]} for i in mism[:10]]
    return {"evaluations": len(coq_cases), "distinct_nontrivial": len(nontriv),
            "rule": "random stimuli sets (0-4 stimuli: poisson/regular/list/unknown type; lists empty, single, unsorted, duplicated, beyond T; primed target names, repeated targets, several stimuli per target; 3 markers; 8 simulation lengths) + fixed boundary corpus; non-trivial = at least one stimulus; distinct by hash of the case",
            "samples": info[:2] + info[4:6], "distribution": dist,
            "layers": {"L1 returned dict vs PrimFloat model (decided in Coq)": len(coq_cases), "probe: property text on returned trains": len(coq_cases)},
            "corr_mismatches": corr_mismatches, "corr_errors": corr_errors, "probe_failures": probe_failures}


def replay(payload):
    rp = payload.get("replay") or {}
    if "case" not in rp:
        return True, "replay file names a broken obligation (no concrete input): " + str(payload.get("no_longer_checks"))[:500]
    r = C.run_tasks([{"fn": "c15.impl_run", "cases": [rp["case"]]}])[0]
    if r.get("outcome") != "Ok":
        return False, "worker failed %s" % r
    f = probe(rp["case"], r["outs"][0])
    return (not f), "probe failures: %s" % f
