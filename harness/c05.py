"""C05 — function-of-time entries are reproduced exactly by the ODE that replaces them."""
import json
import random

from . import common as C

PROP = "C05"
PROPS_FILE = "theories/Props/C05.v"
THEOREMS = ["c05_shape", "c05_exact", "c05_exact_over_steps"]
GEN_FILES = []
TRUSTED = ["Coq 8.16.1 kernel + vm_compute",
           "c05_shape closed under the global context; c05_exact / c05_exact_over_steps (Coquelicot) depend on the standard library's axioms ClassicalDedekindReals.sig_not_dec, sig_forall_dec, FunctionalExtensionality.functional_extensionality_dep, Classical_Prop.classic",
           "ORACLES (not proved): SymPy's diff/subs/det/inv/simplify inside the order search (answers are data of the model); that a verified identity has constant coefficients is checked per instance (no t in the factors)",
           "correspondence harness (harness/c05.py): functions with minimal order known by construction; Shape.from_function outcome vs Model/FromFunction.from_function run with the ideal oracle (decided in Coq)",
           "probe oracle: mpmath evaluation of f and its derivatives at 30 digits"]
ASSUMPTIONS = ["ideal oracle: the sampled matrix is invertible exactly for orders up to the minimal order, and the identity verifies exactly at the minimal order",
               "functions whose analysis exceeds the per-case time limit are counted and excluded (SymPy's simplify can take minutes)"]

# (expression, minimal order m or None if outside the class, parameters)
FUNCS = [
    ("exp(-t/tau)", 1), ("3*exp(-t/2)", 1), ("exp(-t/tau)/tau", 1), ("exp(2*t)", 1),
    ("(e/tau)*t*exp(-t/tau)", 2), ("t*exp(-t)", 2), ("exp(-t/tau1) - exp(-t/tau2)", 2), ("exp(-t) + exp(-3*t)", 2),
    ("sin(t)", 2), ("cos(2*t)", 2), ("exp(-t)*sin(3*t)", 2), ("sin(t) + 2*cos(t)", 2), ("1 + t", 2), ("t", 2), ("cosh(t)", 2),
    ("t**2*exp(-t/tau)", 3), ("exp(-t) + exp(-2*t) + exp(-3*t)", 3), ("t**2", 3), ("1 + exp(-t)*cos(t)", 3), ("t*exp(-t) + exp(-2*t)", 3),
    ("t**3*exp(-t)", 4), ("t**3", 4), ("exp(-t) + exp(-2*t) + exp(-3*t) + exp(-4*t)", 4), ("sin(t) + sin(2*t)", 4),
    ("t**4*exp(-t)", 5), ("t**4", 5), ("exp(-t) + exp(-2*t) + exp(-3*t) + exp(-4*t) + exp(-5*t)", 5),
    # the sampled linear system is satisfied at the integer sample points although the identity does not hold
    ("(t**2 + t + 2)*exp(-t)", 3), ("t**4 - 6*t**3 + 12*t**2 + t + 1", 5), ("t**6/120 - t**5/10 + 11*t**4/24 - t**3 + t + 1", 7),
    ("(t**2 + t + 2)*exp(-t) + exp(-3*t)", 4),
    ("exp(-t**2)", None), ("1/(1 + t)", None), ("log(1 + t)", None), ("tanh(t)", None),
    ("t - t", "nozero"), ("0*exp(-t)", "nozero"),
    # decimal constants that are not short fractions: may be rejected (round-off in the order search), must not be approximated
    ("exp(-t/1.6667)", "float"), ("0.123456*exp(-t/2.5)", "float"), ("t*exp(-t/2.3717)", "float"), ("1.00731*exp(-0.31337*t)", "float"), ("exp(-t/0.7071067)*2.718281", "float"),
]
SLOW = [("t*sin(t)", 4), ("sin(t)*sin(2*t)", 4), ("t**2*exp(-t/tau1) + exp(-t/tau2)", 4)]


def impl_run(task):
    import signal
    import mpmath
    import sympy
    import odetoolbox
    from odetoolbox.config import Config
    from odetoolbox.shapes import Shape
    from . import impl_worker
    from .sysimpl import _Alarm
    Shape._sympy_globals.setdefault("pi", sympy.pi) if False else None
    expr = task["expr"]
    tsym = task.get("tsym", "t")
    out = {"outcome": "Ok"}

    def handler(signum, frame):
        raise _Alarm()
    old = signal.signal(signal.SIGALRM, handler)
    signal.alarm(int(task.get("limit", 60)))
    defaults = dict(Config.config)
    try:
        try:
            if tsym != "t":
                Config.config["input_time_symbol"] = tsym
            sh = Shape.from_function("g", expr)
            out["order"] = sh.order
            out["factors"] = [str(x) for x in sh.derivative_factors]
            out["t_in_factors"] = any(sympy.Symbol(tsym) in sympy.sympify(x).free_symbols for x in sh.derivative_factors)
            out["ivs"] = {k: str(v) for k, v in sh.initial_values.items()}
        except _Alarm:
            out["order"] = "Timeout"
        except BaseException as e:   # noqa
            if isinstance(e, KeyboardInterrupt):
                raise
            msg = str(e)
            out["order"] = "NoNonzeroTime" if "Cannot find t" in msg else ("NoOde" if "does not satisfy any ODE" in msg else "Error:" + impl_worker.classify_exception(e) + ":" + msg[:100])
        if isinstance(out.get("order"), int):
            try:
                ind = {"dynamics": [{"expression": "g = " + expr}]}
                if tsym != "t":
                    ind["options"] = {"input_time_symbol": tsym}
                if task.get("marker"):
                    ind.setdefault("options", {})["differential_order_symbol"] = task["marker"]
                if task.get("hsym"):
                    ind.setdefault("options", {})["output_timestep_symbol"] = task["hsym"]
                res = odetoolbox.analysis(ind, disable_stiffness_check=True)
                signal.alarm(0)
                out["probe"] = _probe(expr, res, task.get("pseed", 1), tsym, task.get("hsym") or "__h")
            except _Alarm:
                out["probe"] = {"skipped": "timeout"}
            except BaseException as e:   # noqa
                if isinstance(e, KeyboardInterrupt):
                    raise
                out["probe"] = {"error": "%s: %s" % (type(e).__name__, str(e)[:200])}
    finally:
        signal.alarm(0)
        signal.signal(signal.SIGALRM, old)
        Config.config.clear()
        Config.config.update(defaults)
    # nonzero table (independent of the toolbox): f(t) != 0 for t = 0..99
    try:
        ns = {"e": sympy.E, "pi": sympy.pi}
        f = sympy.sympify(expr, locals=ns)
        t = sympy.Symbol(tsym)
        tab = []
        for k in range(100):
            v = f.subs(t, k)
            z = sympy.simplify(v) == 0
            tab.append(not z)
        out["nonzero"] = tab
    except Exception as e:   # noqa
        out["nonzero"] = None
    return out


def impl_seq(task):
    """several from_function / analysis calls one after another in this process (the same text under different time symbols)"""
    return {"outcome": "Ok", "results": [impl_run(dict(sub, limit=task.get("limit", 60))) for sub in task["subs"]]}


def _probe(expr, res, seed, tsym="t", hsym="__h"):
    """step from the returned initial values over random steps totalling T; compare with f(T), f'(T), ..."""
    import random
    import mpmath
    import sympy
    mpmath.mp.dps = 30
    rng = random.Random(seed)
    ana = [s for s in res if s["solver"] == "analytical"]
    if not ana:
        return {"error": "no analytical solver for a function of time"}
    ana = ana[0]
    ns = {}
    exec("from sympy import *", ns)     # the printer's vocabulary (Symbol, Float, Function, tanh, ...)
    ns.update({"e": sympy.E, "E": sympy.E})
    t = sympy.Symbol(tsym)
    f = sympy.sympify(expr, locals={"e": sympy.E, "pi": sympy.pi})
    sv = ana["state_variables"]
    n = len(sv)
    props = {k: sympy.parsing.sympy_parser.parse_expr(v, global_dict=dict(ns)) for k, v in ana["propagators"].items()}
    upd = {k: sympy.parsing.sympy_parser.parse_expr(v, global_dict=dict(ns)) for k, v in ana["update_expressions"].items()}
    ivs = {k: sympy.parsing.sympy_parser.parse_expr(v, global_dict=dict(ns)) for k, v in ana["initial_values"].items()}
    params = sorted((f.free_symbols - {t}), key=str)
    worst, detail = 0.0, None
    hs = sympy.Symbol(hsym)
    derivs = [f]
    for k in range(1, n):
        derivs.append(sympy.diff(derivs[-1], t))
    for trial in range(2):
        pv = {p: sympy.Float(rng.uniform(0.7, 2.3), 30) for p in params}
        state = [ivs[v].evalf(30, subs=pv) for v in sv]
        # initial values are f^(k)(0)
        for k, v in enumerate(sv):
            want = derivs[k].subs(t, 0).evalf(30, subs=pv)
            err = abs(complex(state[k]) - complex(want)) / (1 + abs(complex(want)))
            if err > 1e-12:
                return {"worst": float(err), "detail": "initial value of %s is %s, f^(%d)(0) = %s" % (v, state[k], k, want)}
        T = 0.0
        steps = [rng.choice([0.1, 0.25, 0.5, 1.0, 0.05]) for _ in range(rng.randint(1, 5))]
        for h in steps:
            sub = dict(pv)
            sub[hs] = sympy.Float(h, 30)
            pnum = {sympy.Symbol(k): e.evalf(30, subs=sub) for k, e in props.items()}
            sub2 = dict(sub)
            sub2.update(pnum)
            sub2.update({sympy.Symbol(v): state[i] for i, v in enumerate(sv)})
            state = [upd[v].evalf(30, subs=sub2) for v in sv]
            T += h
        for k, v in enumerate(sv):
            want = derivs[k].subs(t, sympy.Float(T, 30)).evalf(30, subs=pv)
            err = abs(complex(state[k]) - complex(want)) / (1 + abs(complex(want)))
            if err > worst:
                worst = float(err)
                detail = "after steps %s (T=%s): %s = %s, but f^(%d)(T) = %s (parameters %s)" % (steps, T, v, state[k], k, want, {str(p): float(x) for p, x in pv.items()})
    return {"worst": worst, "detail": detail}


HEADER = """From Coq Require Import List Bool Arith.
From OdeVerif Require Import Base.Corr Model.FromFunction.
Import ListNotations.
(* case: nonzero table, minimal order (0 = outside the class), observed code: k>0 order; 0 NoOde; 100 NoNonzeroTime *)
Definition agree (c : (list bool * nat) * nat) : bool :=
  let tab := fst (fst c) in let m := snd (fst c) in
  let r := from_function 100 4 (fun t => nth t tab false) (Nat.eqb m 1) (fun o _ => andb (Nat.leb o m) (negb (Nat.eqb m 0))) (fun o => Nat.eqb o m) in
  match r with
  | FoundOrder n => Nat.eqb n (snd c)
  | NoOde => Nat.eqb (snd c) 0
  | NoNonzeroTime => Nat.eqb (snd c) 100
  end.
Definition mism (cases : list ((list bool * nat) * nat)) : list nat := mism_by agree cases.
"""


def run(ctx):
    rng = random.Random(ctx["seed"] * 5501 + 5)
    quick = ctx["tier"] == "quick"
    funcs = list(FUNCS) + ([] if quick else SLOW)
    limit = 70 if quick else 900
    tasks = [{"fn": "c05.impl_run", "expr": e, "limit": limit, "pseed": rng.randint(1, 10 ** 6), "timeout": limit * 2 + 60,
              "marker": rng.choice([None, None, "_D", "__deriv"]), "hsym": rng.choice([None, None, "dt"])} for e, _ in funcs]
    # the same text under different time symbols, one after another in ONE interpreter: the default symbol, a symbol the text
    # does not mention (every symbol of the text is then a parameter: the function is constant in time), the text rewritten
    # to the other symbol, and the default again
    import re
    cand = [(e, m) for e, m in FUNCS if m == "nozero" or m is None or (isinstance(m, int) and m <= 3)]
    twins = rng.sample(cand, 6 if quick else 14)
    seq_tasks = []
    for e, m in twins:
        other = rng.choice(["s", "x", "T_"])
        e_o = re.sub(r"\bt\b", other, e)
        m_const = "nozero" if m == "nozero" else 1
        subs = [(e, "t", m), (e, other, m_const), (e_o, other, m), (e_o, "t", m_const), (e, "t", m)]
        subs = subs[rng.randint(0, 2):]
        seq_tasks.append({"fn": "c05.impl_seq", "subs": [{"expr": a, "tsym": b, "pseed": rng.randint(1, 10 ** 6), "marker": rng.choice([None, None, "_D", "__deriv"]), "hsym": rng.choice([None, None, "dt"])} for a, b, _ in subs], "ms": [c for _, _, c in subs],
                          "limit": min(limit, 240), "timeout": (min(limit, 240) * 2 + 60) * len(subs), "fresh": True})
    res = C.run_tasks(tasks + seq_tasks, timeout=(limit * 2 + 60) * 5)
    coq, info, probe_failures, corr_errors = [], [], [], []
    dist = {"by_minimal_order": {}, "outcomes": {}, "timeouts": 0, "probed": 0, "probe_skipped": 0, "time_symbols": {}, "same_interpreter_sequences": len(seq_tasks)}
    nontriv = set()
    samples = []
    items = [(expr, "t", m, r, None) for (expr, m), r in zip(funcs, res[:len(funcs)])]
    subs_of = {}
    for (expr, m), t0 in zip(funcs, tasks):
        subs_of[(expr, "t", None)] = [{k_: t0.get(k_) for k_ in ("expr", "tsym", "marker", "hsym")}]
    for t_, r in zip(seq_tasks, res[len(funcs):]):
        if r.get("outcome") != "Ok":
            corr_errors.append("worker failed on sequence %s: %s" % (t_["subs"], str(r)[:200]))
            continue
        for i, (sub, m, rr) in enumerate(zip(t_["subs"], t_["ms"], r["results"])):
            seq_ = [[x["expr"], x["tsym"]] for x in t_["subs"][:i + 1]]
            items.append((sub["expr"], sub["tsym"], m, rr, seq_))
            subs_of[(sub["expr"], sub["tsym"], json.dumps(seq_))] = [{k_: x.get(k_) for k_ in ("expr", "tsym", "marker", "hsym")} for x in t_["subs"][:i + 1]]
    for expr0, tsym, m, r, seq in items:
        expr = expr0 if (tsym == "t" and seq is None) else "%s [time symbol %s%s]" % (expr0, tsym, ", after %d earlier conversions in the same interpreter" % (len(seq) - 1) if seq and len(seq) > 1 else "")
        rp_ = {"expr": expr0, "tsym": tsym, "sequence": seq, "m": m, "subs": subs_of.get((expr0, tsym, json.dumps(seq) if seq else None))}
        dist["time_symbols"][tsym] = dist["time_symbols"].get(tsym, 0) + 1
        if r.get("outcome") != "Ok":
            corr_errors.append("worker failed on %s: %s" % (expr, str(r)[:200]))
            continue
        o = r["order"]
        dist["by_minimal_order"][str(m)] = dist["by_minimal_order"].get(str(m), 0) + 1
        dist["outcomes"][str(o)] = dist["outcomes"].get(str(o), 0) + 1
        if o == "Timeout":
            dist["timeouts"] += 1
            continue
        # ---- probe: the property text
        if isinstance(o, int):
            if o > 4 or o < 1:
                probe_failures.append({"key": "order out of range: " + expr, "what": "from_function(%s) returned order %s (documented maximum 4)" % (expr, o), "replay": rp_})
            if r.get("t_in_factors"):
                probe_failures.append({"key": "time-dependent coefficients: " + expr, "what": "the replacing equation of %s has coefficients depending on t: %s" % (expr, r["factors"]), "replay": rp_})
            if m is None or (isinstance(m, int) and not isinstance(m, bool) and m > 4):
                probe_failures.append({"key": "function outside the class accepted: " + expr, "what": "%s satisfies no linear constant-coefficient ODE of order <= 4 but was accepted with order %s, factors %s" % (expr, o, r["factors"]), "replay": rp_})
            pr = r.get("probe", {})
            if "worst" in pr:
                dist["probed"] += 1
                if pr["worst"] > 1e-10:
                    probe_failures.append({"key": "function of time not reproduced: " + expr, "what": "%s: %s" % (expr, pr["detail"]), "replay": rp_})
            elif "error" in pr and "PropagatorGenerationException" in pr["error"]:
                dist["rejected_at_propagator_generation"] = dist.get("rejected_at_propagator_generation", 0) + 1
            elif "error" in pr:
                probe_failures.append({"key": "function of time: analysis fails: " + expr, "what": "%s accepted by from_function but analysis() gives %s" % (expr, pr["error"]), "replay": rp_})
            else:
                dist["probe_skipped"] += 1
        # ---- correspondence with the ideal-oracle model
        if r.get("nonzero") is None or m == "float":
            continue
        if isinstance(o, str) and o.startswith("Error"):
            dist["rejected_by_other_exception"] = dist.get("rejected_by_other_exception", 0) + 1
        mm = 0 if (m is None or m == "nozero") else m
        code = o if isinstance(o, int) else (100 if o == "NoNonzeroTime" else 0)
        coq.append("((%s, %d%%nat), %d%%nat)" % (C.clist([C.cbool(b) for b in r["nonzero"]]), mm, code))
        info.append({"function": expr, "minimal_order": m, "implementation": o, "factors": r.get("factors"), "replay": rp_})
        nontriv.add(expr)
        if len(samples) < 3 and isinstance(o, int) and o >= 2:
            samples.append({"function": expr, "order": o, "factors": r["factors"], "initial_values": r["ivs"]})
    mism, errs = C.coq_eval_shards(PROP, HEADER, coq, per=50)
    corr_errors += errs
    corr_mismatches = [{"layer": "Shape.from_function outcome vs Model/FromFunction with the ideal oracle for the known minimal order", "case": info[i]} for i in mism[:6]]
    return {"evaluations": len(items), "distinct_nontrivial": len(nontriv),
            "rule": "functions of time with minimal order known by construction (sums/products of polynomials, exponentials, sines/cosines with symbolic or numeric constants; orders 1..5), functions outside the class (exp(-t^2), 1/(1+t), log(1+t), tanh t, t^4), a function vanishing at every integer; plus sequences in ONE interpreter of the same text under the default time symbol, under a symbol the text does not mention (the function is then constant in time: order 1, or rejected if zero), rewritten to that symbol, and under the default again; per-case time limit %ss; distinct (function, time symbol, position in sequence)" % limit,
            "samples": samples, "distribution": dist,
            "layers": {"L1 accept/reject and order (in Coq)": len(coq), "probe: stepping reproduces f and its derivatives; initial values; no t in factors; order <= 4": dist["probed"]},
            "corr_mismatches": corr_mismatches, "corr_errors": corr_errors, "probe_failures": probe_failures}


def replay(payload):
    rp = payload.get("replay") or {}
    if "expr" not in rp:
        return True, "replay file names a broken obligation (no concrete input): " + str(payload.get("no_longer_checks"))[:500]
    m = rp["m"] if "m" in rp else dict((e, mm) for e, mm in FUNCS + SLOW).get(rp["expr"])
    seq = rp.get("sequence") or [[rp["expr"], rp.get("tsym", "t")]]
    subs = rp.get("subs") or [{"expr": a, "tsym": b} for a, b in seq]
    subs = [dict(x, tsym=x.get("tsym") or "t") for x in subs]
    r = C.run_tasks([{"fn": "c05.impl_seq", "subs": subs, "limit": 900, "timeout": 2000 * len(seq), "fresh": True}], timeout=2000 * len(seq))[0]
    if r.get("outcome") != "Ok":
        return True, "replay could not run: %s" % str(r)[:200]
    r = r["results"][-1]
    o = r.get("order")
    if isinstance(o, int):
        if o > 4 or r.get("t_in_factors") or m is None or (isinstance(m, int) and m > 4):
            return False, "accepted with order %s, factors %s" % (o, r.get("factors"))
        pr = r.get("probe", {})
        if "worst" in pr and pr["worst"] > 1e-10:
            return False, pr["detail"]
        if "error" in pr and "PropagatorGenerationException" not in pr["error"]:
            return False, "accepted by from_function but analysis() gives %s" % pr["error"]
    return True, "outcome %s" % o
