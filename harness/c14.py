"""C14 — solver recommendation: decision table (translator + theorem + grid), fairness of the
benchmark (same stimulus for both candidates, reproducible for a fixed seed), name suffix."""
import itertools
import random
from fractions import Fraction

from . import common as C

PROP = "C14"
PROPS_FILE = "theories/Props/C14.v"
THEOREMS = ["c14_only_explicit_below", "c14_only_implicit_below", "c14_both_below", "c14_neither_below_implicit",
            "c14_neither_below_explicit", "c14_signature", "c14_drawn_generators_are_seeded", "c14_fair", "c14_name", "c14_wiring"]
GEN_FILES = ["DecisionGen.v", "RngGen.v", "WiringGen.v"]
TRUSTED = ["Coq 8.16.1 kernel + vm_compute (no native_compute)",
           "translator harness/translate.py: gen_decision (ast of StiffnessTester._draw_decision -> Gallina, fail-closed), gen_rng (which generators are seeded before / drawn from during spike generation)",
           "theorems closed under the global context; c14_fair assumes (hypothesis) that spike generation reads only the generators the translator found in spike_generator.py",
           "grid correspondence on _draw_decision (model evaluated over Qc in Coq) and benchmark probe through the pygsl.odeiv stand-in harness/pygsl_stub (GSL itself is absent: nothing is claimed about GSL's step-size reports)"]
ASSUMPTIONS = ["comparison of step sizes is asymmetric (ltb a b -> not ltb b a); exact ties are left unspecified as in the property",
               "np.finfo(float).eps is a positive constant (a parameter of the generated function)",
               "pygsl.odeiv replaced by a scripted stand-in"]

EPS = Fraction(1, 2 ** 52)


def py_spec(mi, me, ai, ae, r, q):
    thr = r * EPS
    if mi > thr and me < thr:
        return "implicit"
    if mi < thr and me > thr:
        return "explicit"
    if mi < thr and me < thr:
        return "warning"
    if mi > thr and me > thr:
        if ai > q * ae:
            return "implicit"
        if ai < q * ae:
            return "explicit"
    return None     # tie: unspecified


def impl_grid(task):
    from odetoolbox.stiffness import StiffnessTester
    outs = []
    for c in task["cases"]:
        mi, me, ai, ae = [float(Fraction(x)) for x in c["args"]]
        kw = {}
        if c["r"] is not None:
            kw["machine_precision_dist_ratio"] = c["r"]
        if c["q"] is not None:
            kw["avg_step_size_ratio"] = c["q"]
        outs.append(StiffnessTester._draw_decision(None, mi, me, ai, ae, **kw))
    return {"outcome": "Ok", "outs": outs}


def impl_bench(task):
    """analysis() through the stand-in; records the spike trains each candidate receives, the
    decision drawn and the returned solver name.  Global RNG states are perturbed beforehand."""
    import random as pyrandom
    import numpy as np
    import pygsl.odeiv as odeiv
    import odetoolbox
    import odetoolbox.stiffness as S
    pyrandom.seed(task["perturb"])
    np.random.seed(task["perturb"] + 1)
    odeiv.SCRIPT["fracs"] = [1.0]
    odeiv.SCRIPT["hsug_by_stepper"] = task.get("hsug", {})
    odeiv.SCRIPT["check_jac"] = True
    trains = []
    orig = S.SpikeGenerator.spike_times_from_json
    def wrap(stimuli, sim_time):
        r = orig(stimuli, sim_time)
        trains.append({k: [float(x).hex() for x in v] for k, v in r.items()})
        return r
    S.SpikeGenerator.spike_times_from_json = wrap
    decisions = []
    origd = S.StiffnessTester._draw_decision
    def wrapd(self, *a, **k):
        d = origd(self, *a, **k)
        decisions.append({"args": [repr(x) for x in a], "ret": d})
        return d
    S.StiffnessTester._draw_decision = wrapd
    try:
        for pre in task.get("pre", []):     # other benchmarks made earlier in this interpreter (same variable names, other initial values)
            _, p_sys, p_shapes = odetoolbox._analysis(pre, disable_stiffness_check=True, disable_analytic_solver=True)
            S.StiffnessTester(p_sys, p_shapes, stimuli=pre.get("stimuli"), random_seed=task["seed"] + 1, sim_time=0.5, max_step_size=0.25).check_stiffness()
        del trains[:]
        del decisions[:]
        del odeiv.LOG[:]
        if task.get("mode") == "tester":
            _, sys_, shapes = odetoolbox._analysis(task["indict"], disable_stiffness_check=True, disable_analytic_solver=True)
            opts = task["indict"].get("options", {})
            tester = S.StiffnessTester(sys_, shapes, stimuli=task["indict"].get("stimuli"), random_seed=task["seed"],
                                       sim_time=float(opts.get("sim_time", 2.0)), max_step_size=float(opts.get("max_step_size", 0.25)))
            d = tester.check_stiffness()
            res = [{"solver": "numeric" if d is None else "numeric-" + d}]
        else:
            res = odetoolbox.analysis(task["indict"], disable_stiffness_check=False)
    finally:
        S.SpikeGenerator.spike_times_from_json = orig
        S.StiffnessTester._draw_decision = origd
    names = [s["solver"] for s in res]
    steppers = [e[1] for e in odeiv.LOG if e[0] == "apply"]
    jacdev = [e for e in odeiv.LOG if e[0] == "jacdev"]
    worst_jac = max(jacdev, key=lambda e: e[2]) if jacdev else None
    starts = {}
    for e in odeiv.LOG:
        if e[0] == "apply" and e[1] not in starts:
            starts[e[1]] = {"t": e[2], "y": e[7]}
    del odeiv.LOG[:]
    return {"outcome": "Ok", "trains": trains, "decisions": decisions, "names": names,
            "steppers": sorted(set(steppers)), "starts": starts, "jacobians_checked": len(jacdev),
            "worst_jacobian": None if worst_jac is None else {"t": worst_jac[1], "dev": worst_jac[2], "y": worst_jac[3]}}


HEADER = """From Coq Require Import ZArith QArith Qcanon List String.
From OdeVerif Require Import Base.Corr Gen.DecisionGen.
Import ListNotations.
Definition agree (c : (list Qc) * string) : bool :=
  match fst c with
  | [mi; me; ai; ae; r; q; eps] => string_eqb (draw_decision Qc qc_ltb qc_leb Qcmult mi me ai ae r q eps) (snd c)
  | _ => false
  end.
Definition mism (cases : list (list Qc * string)) : list nat := mism_by agree cases.
"""


def bench_indict(seed, rate, variant, ivs=("1", "2")):
    d = {"dynamics": [{"expression": "x' = -x**2 / 8 + y", "initial_value": ivs[0]},
                      {"expression": "y' = -y / 4", "initial_value": ivs[1]}],
         "options": {"sim_time": 2.0, "max_step_size": 0.25},
         "stimuli": [{"type": "poisson_generator", "rate": str(rate), "variables": ["x"]}]}
    if variant == 1:
        d["stimuli"].append({"type": "regular", "rate": "3.", "variables": ["x"]})
        d["stimuli"].append({"type": "poisson_generator", "rate": str(rate * 2), "variables": ["y"]})
    return d


def run(ctx):
    rng = random.Random(ctx["seed"] * 31 + 14)
    quick = ctx["tier"] == "quick"
    # ---------------- decision grid ----------------
    cases = []
    ratio_settings = [(None, None), (10, 6), (3, 2), (50, 1), (1, 13)] + ([] if quick else [(rng.randint(1, 99), rng.randint(1, 20)) for _ in range(20)])
    for (r, q) in ratio_settings:
        rr, qq = (r if r is not None else 10), (q if q is not None else 6)
        thr = rr * EPS
        for pm, pe, pa in itertools.product([-1, 0, 1], repeat=3):
            for rep in range(1 if quick else 4):
                f = lambda p: thr * Fraction([1, 2, 4][1 + p] if False else {-1: Fraction(1, rng.choice([2, 4, 64])), 0: 1, 1: rng.choice([2, 8, 1024])}[p])
                mi, me = f(pm), f(pe)
                ae = Fraction(rng.choice([1, 3, 5, 16]), rng.choice([8, 64, 1024]))
                ai = qq * ae * {-1: Fraction(1, rng.choice([2, 4])), 0: 1, 1: rng.choice([2, 3])}[pa]
                cases.append({"args": [str(mi), str(me), str(ai), str(ae)], "r": r, "q": q, "pattern": [pm, pe, pa]})
    res = C.run_tasks([{"fn": "c14.impl_grid", "cases": cases}], timeout=120, stub=True)[0]
    corr_errors, probe_failures, coq_cases = [], [], []
    dist = {"grid_cases": len(cases), "ratio_settings": len(ratio_settings), "patterns": 27, "outcomes": {}}
    if res.get("outcome") != "Ok":
        corr_errors.append("grid run failed: %s" % str(res)[:400])
        outs = []
    else:
        outs = res["outs"]
    for c, o in zip(cases, outs):
        mi, me, ai, ae = [Fraction(x) for x in c["args"]]
        rr, qq = (c["r"] if c["r"] is not None else 10), (c["q"] if c["q"] is not None else 6)
        dist["outcomes"][str(o)] = dist["outcomes"].get(str(o), 0) + 1
        exp = py_spec(mi, me, ai, ae, rr, qq)
        if exp is not None and o != exp:
            probe_failures.append({"key": "decision pattern %s ratios %s" % (c["pattern"], [c["r"], c["q"]]),
                                   "what": "_draw_decision(min_imp=%s, min_exp=%s, avg_imp=%s, avg_exp=%s, ratios=%s) returned %r, documented table says %r" % (float(mi), float(me), float(ai), float(ae), [c["r"], c["q"]], o, exp),
                                   "replay": {"kind": "grid", "case": c, "expected": exp, "got": o}})
        coq_cases.append("(%s, \"%s\"%%string)" % (C.clist([C.cq(x) for x in [mi, me, ai, ae, rr, qq, EPS]]), str(o).replace('"', "")))
    mism, errs = ([], [])
    import os
    if os.path.exists(os.path.join(C.COQ, "theories/Gen/DecisionGen.vo")):
        mism, errs = C.coq_eval_shards(PROP, HEADER, coq_cases, per=400)
    else:
        errs = ["Gen/DecisionGen.vo not built; model side of the grid not evaluated"]
    corr_errors += errs
    corr_mismatches = [{"layer": "_draw_decision vs regenerated Gallina function over Qc", "case": cases[i], "impl": outs[i]} for i in mism[:10]]

    # ---------------- benchmark fairness / reproducibility / name ----------------
    tasks = []
    nb = 5 if quick else 15
    hs = [{}, {"step_rk4": 1e-17}, {"step_bsimp": 1e-17}, {"step_rk4": 1e-17, "step_bsimp": 1e-17}, {"step_bsimp": 0.2, "step_rk4": 0.01}]
    for k in range(nb):
        seed = rng.randint(0, 10 ** 6)
        rate = rng.choice([5., 9., 14.])
        ivs = rng.choice([("1", "2"), ("1", "2"), ("0.5", "3"), ("2", "0.25")])
        ind = bench_indict(seed, rate, k % 2, ivs)
        h = hs[k % len(hs)]
        pre = [bench_indict(seed, rate, 0, rng.choice([("4", "1"), ("0.125", "8")]))] if k % 2 == 1 or k == 0 else []
        for rep in range(2):
            tasks.append({"fn": "c14.impl_bench", "indict": ind, "perturb": rng.randint(0, 10 ** 6), "hsug": h, "timeout": 600, "group": k,
                          "mode": "analysis" if k % 3 == 0 else "tester", "seed": seed, "pre": pre, "ivs": [float(v) for v in ivs], "fresh": bool(pre)})
    bres = C.run_tasks(tasks, timeout=600, stub=True)
    dist["bench_runs"] = len(tasks)
    dist["bench_decisions"] = {}
    samples = [{"grid": cases[0], "impl": outs[0] if outs else None}]
    for k in range(nb):
        r1, r2 = bres[2 * k], bres[2 * k + 1]
        ind = tasks[2 * k]["indict"]
        for r in (r1, r2):
            if r.get("outcome") != "Ok":
                corr_errors.append("benchmark run failed: %s" % str(r)[:500])
        if r1.get("outcome") != "Ok" or r2.get("outcome") != "Ok":
            continue
        key = "benchmark seed=%s stimuli=%d" % (tasks[2 * k]["seed"], len(ind["stimuli"]))
        if len(r1["trains"]) != 2:
            probe_failures.append({"key": "candidates " + key, "what": "%d candidate benchmark(s) were made (steppers %s), expected one explicit and one implicit; scripted step-size suggestions %s; returned solver names %s" % (
                len(r1["trains"]), r1["steppers"], tasks[2 * k].get("hsug"), r1["names"]), "replay": {"kind": "bench", "task": tasks[2 * k]}})
            continue
        if r1["steppers"] != ["step_bsimp", "step_rk4"]:
            probe_failures.append({"key": "candidates " + key, "what": "candidates benchmarked: %s (expected explicit rk4 and implicit bsimp)" % r1["steppers"], "replay": {"kind": "bench", "task": tasks[2 * k]}})
        for r in (r1, r2):
            for stp, st in sorted(r.get("starts", {}).items()):
                if st["t"] == 0.0 and st["y"] != tasks[2 * k]["ivs"][:len(st["y"])]:     # (through analysis() y is solved analytically: the numeric state is [x])
                    probe_failures.append({"key": "fairness: candidate not started from the system's initial values",
                                           "what": "candidate %s was benchmarked from the state %s; the initial values of the system are %s (%d benchmark(s) of other systems were made earlier in the same interpreter)" % (
                                               stp, st["y"], tasks[2 * k]["ivs"], len(tasks[2 * k]["pre"])),
                                           "replay": {"kind": "bench", "task": tasks[2 * k]}})
                    break
        dist["bench_after_other_benchmarks"] = dist.get("bench_after_other_benchmarks", 0) + int(bool(tasks[2 * k]["pre"]))
        dist["jacobians_checked_during_benchmarks"] = dist.get("jacobians_checked_during_benchmarks", 0) + r1.get("jacobians_checked", 0)
        wj = r1.get("worst_jacobian")
        if wj and wj["dev"] > 1e-5:
            probe_failures.append({"key": "fairness: the implicit candidate is not benchmarked on the system's own Jacobian",
                                   "what": "during the benchmark the Jacobian handed to the implicit stepper at t=%s, y=%s deviates from the derivative of the right-hand side it integrates by %.3g (relative); the explicit candidate integrates that right-hand side" % (wj["t"], wj["y"], wj["dev"]),
                                   "replay": {"kind": "bench", "task": tasks[2 * k]}})
        if r1["trains"][0] != r1["trains"][1]:
            probe_failures.append({"key": "fairness: candidates see different spike trains",
                                   "what": "check_stiffness with a Poisson stimulus, seed %s: explicit candidate got %d spikes, implicit got %d / different times" % (
                                       tasks[2 * k]["seed"], sum(len(v) for v in r1["trains"][0].values()), sum(len(v) for v in r1["trains"][1].values())),
                                   "replay": {"kind": "bench", "task": tasks[2 * k]}})
        if r1["trains"] != r2["trains"] or r1["names"] != r2["names"]:
            probe_failures.append({"key": "reproducibility: same seed, different outcome",
                                   "what": "two runs with random_seed=%s differ (spike trains or solver names %s vs %s)" % (tasks[2 * k]["seed"], r1["names"], r2["names"]),
                                   "replay": {"kind": "bench", "task": tasks[2 * k], "task2": tasks[2 * k + 1]}})
        for r in (r1, r2):
            num = [n for n in r["names"] if n.startswith("numeric")]
            dec = r["decisions"][-1]["ret"] if r["decisions"] else None
            dist["bench_decisions"][str(dec)] = dist["bench_decisions"].get(str(dec), 0) + 1
            want = "numeric" if dec is None else "numeric-" + dec
            if num != [want]:
                probe_failures.append({"key": "solver name does not carry the decision", "what": "decision %r but solver names %s" % (dec, r["names"]),
                                       "replay": {"kind": "bench", "task": tasks[2 * k]}})
        if len(samples) < 3:
            samples.append({"indict": ind, "names": r1["names"], "decision": r1["decisions"][-1] if r1["decisions"] else None,
                            "n_spikes_per_candidate": [sum(len(v) for v in t.values()) for t in r1["trains"]]})
    nontriv = len(set((tuple(c["pattern"]), c["r"], c["q"]) for c in cases)) + len([1 for k in range(nb)])
    return {"evaluations": len(cases) + len(tasks), "distinct_nontrivial": nontriv,
            "rule": "all 27 below/at/above patterns of the three comparisons x ratio settings (defaults, explicit, non-default) with dyadic values so that float and rational arithmetic agree exactly; plus analysis() runs through the pygsl stand-in with Poisson/regular stimuli, two runs per input with perturbed global RNG state; distinct = (pattern, ratios) / benchmark inputs",
            "samples": samples, "distribution": dist,
            "layers": {"L1 grid vs regenerated Gallina (Qc, in Coq)": len(coq_cases), "probe: documented table": len(cases), "probe: fairness/reproducibility/name via stand-in": len(tasks)},
            "corr_mismatches": corr_mismatches, "corr_errors": corr_errors, "probe_failures": probe_failures}


def replay(payload):
    rp = payload.get("replay") or {}
    if rp.get("kind") == "grid":
        res = C.run_tasks([{"fn": "c14.impl_grid", "cases": [rp["case"]]}], stub=True)[0]
        ok = res.get("outcome") == "Ok" and res["outs"][0] == rp["expected"]
        return ok, "grid case -> %s (documented: %s)" % (res.get("outs"), rp["expected"])
    if rp.get("kind") == "bench":
        res = C.run_tasks([dict(rp["task"], fresh=True)], timeout=900, stub=True)[0]
        if res.get("outcome") != "Ok":
            return False, "run failed %s" % res
        if len(res["trains"]) != 2:
            return False, "%d candidate benchmark(s) made (steppers %s)" % (len(res["trains"]), res.get("steppers"))
        ok = res["trains"][0] == res["trains"][1]
        ok = ok and not (res.get("worst_jacobian") and res["worst_jacobian"]["dev"] > 1e-5)
        ok = ok and all(st["t"] != 0.0 or st["y"] == rp["task"].get("ivs", st["y"])[:len(st["y"])] for st in res.get("starts", {}).values())
        if "task2" in rp:
            res2 = C.run_tasks([rp["task2"]], timeout=400, stub=True)[0]
            ok = ok and res2.get("trains") == res["trains"]
        return ok, "candidate trains equal / reproducible: %s" % ok
    return True, "replay file names a broken obligation (no concrete input): " + str(payload.get("no_longer_checks"))[:500]
