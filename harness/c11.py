"""C11 — reported propagator singularities are genuine and none is missed."""
import random
from fractions import Fraction

from . import common as C

PROP = "C11"
PROPS_FILE = "theories/Props/C11.v"
THEOREMS = ["c11_collect", "c11_dedup", "c11_report", "c11_sound", "c11_complete"]
GEN_FILES = []
TRUSTED = ["Coq 8.16.1 kernel + vm_compute", "theorems closed under the global context",
           "ORACLES (not proved): sympy.solve (law stated as hypothesis solve_law of c11_sound/c11_complete; validated per instance by substituting back) and the substitution-definedness test of the system matrix (answers supplied as data)",
           "correspondence harness (harness/c11.py): SymPy trees translated structurally into the model's binary expressions; SingularityDetection.find_singularities(P, A) vs Model/Singularity.find_singularities with the oracle answers as tables (decided in Coq, order of conditions included)",
           "probe oracle: closed-form singular sets of triangular chains/trees; SymPy substitution (zoo/nan detection)"]
ASSUMPTIONS = ["n-ary Add/Mul are nested to the right (pre-order of sub-trees preserved)",
               "matrices with non-integer numeric exponents (square roots) are excluded from the exact layer and covered by the probe only"]


def undefined_under(exprs, cond, seed=1):
    """does the substitution [cond] make at least one of [exprs] undefined (division by zero)?  First symbolically (zoo / nan /
    oo after substitution); expressions with radicals hide a vanishing denominator behind sqrt((a - b)**2), so the remaining
    symbols are then given exact rational values (several sign patterns and orderings) and the entries evaluated exactly."""
    import random
    import sympy
    bad = (sympy.zoo, sympy.nan, sympy.oo, -sympy.oo)
    subs = list(cond.items())
    es = [e.subs(subs) for e in exprs]
    for e in es:
        try:
            x = sympy.simplify(e)
        except Exception:   # noqa
            x = e
        if any(x.has(b) for b in bad):
            return True
    free = sorted(set().union(*[e.free_symbols for e in es]), key=str) if es else []
    rng = random.Random(seed)
    for trial in range(12):
        vals = {sym: sympy.Rational(rng.choice([1, 2, 3, 5, 7, -1, -2, -3]), rng.choice([1, 2, 3])) for sym in free}
        for e in es:
            try:
                v = e.subs(vals)
                v = sympy.nsimplify(v) if v.is_number else v
                if any(v.has(b) for b in bad) or v is sympy.zoo:
                    return True
            except ZeroDivisionError:
                return True
            except Exception:   # noqa
                continue
    return False


def impl_run(task):
    """builds A (symbolic) and P = simplify(exp(A h)); runs find_singularities; returns everything the
    model needs as text, plus the probe verdicts"""
    import sympy
    from odetoolbox.singularity_detection import SingularityDetection, SingularityDetectionException
    outs = []
    for spec in task["specs"]:
        n = spec["n"]
        syms = {}
        def S(nm):
            if nm not in syms:
                syms[nm] = sympy.Symbol(nm)
            return syms[nm]
        A = sympy.zeros(n, n)
        for (i, j, txt) in spec["entries"]:
            A[i, j] = sympy.parsing.sympy_parser.parse_expr(txt, local_dict={k: S(k) for k in spec["symbols"]})
        h = sympy.Symbol("__h")
        if spec.get("P_override"):
            P = sympy.Matrix(n, n, [sympy.parsing.sympy_parser.parse_expr(t, local_dict=dict({k: S(k) for k in spec["symbols"]}, __h=h)) for t in spec["P_override"]])
        else:
            P = sympy.simplify(sympy.exp(A * h))
        order = sorted(spec["symbols"]) + ["__h"]
        idx = {nm: k for k, nm in enumerate(order)}
        unsupported = [False]

        def q(r):
            r = sympy.Rational(r)
            return "(Q2Qc (%d # %d))" % (int(r.p), int(r.q))

        def tr(e):
            if e.is_Symbol:
                if str(e) not in idx:
                    idx[str(e)] = len(idx)
                return "(Sym %d)" % idx[str(e)]
            if e.is_Integer or e.is_Rational:
                return "(Num %s)" % q(e)
            if e.is_Float:
                return "(Num %s)" % q(sympy.Rational(*float(e).as_integer_ratio()))
            if e.is_Add or e.is_Mul:
                args = list(e.args)
                out = tr(args[-1])
                for a in reversed(args[:-1]):
                    out = "(%s %s %s)" % ("Add" if e.is_Add else "Mul", tr(a), out)
                return out
            if e.is_Pow:
                b, x = e.args
                if x.is_Integer:
                    return "(Pow %s (%d)%%Z)" % (tr(b), int(x))
                if x.is_number:
                    unsupported[0] = True
                    return "(Pow %s (%d)%%Z)" % (tr(b), -2 if x < 0 else 2)
                return "(PowSym %s %s)" % (tr(b), tr(x))
            if isinstance(e, sympy.exp):
                return "(Fn 1 %s)" % tr(e.args[0])
            if isinstance(e, sympy.Function) and len(e.args) == 1:
                return "(Fn %d %s)" % (2 + abs(hash(type(e).__name__)) % 50, tr(e.args[0]))
            if e.is_number:
                unsupported[0] = True
                try:
                    return "(Num %s)" % q(sympy.nsimplify(e))
                except Exception:   # noqa  (e.g. the imaginary unit in a condition of a coupled block: outside the exact layer)
                    return "(Sym 998)"
            unsupported[0] = True
            return "(Sym 999)"

        def trcond(c):
            items = sorted(((str(k), v) for k, v in c.items()), key=lambda kv: idx.get(kv[0], 10 ** 6))
            for k, _ in items:
                if k not in idx:
                    idx[k] = len(idx)
            return "[" + "; ".join("(%d%%nat, %s)" % (idx[k], tr(sympy.sympify(v))) for k, v in items) + "]"

        # the implementation
        try:
            obs = SingularityDetection.find_singularities(P, A)
            obs_txt = "Some [" + "; ".join(trcond(c) for c in obs) + "]"
            raised = False
        except SingularityDetectionException:
            obs, obs_txt, raised = None, "None", True
        # oracle tables: solve per collected denominator, A-definedness per condition
        solve_tab, def_tab, allconds = [], [], []
        seen_d = []
        try:
            for expr in sympy.flatten(P):
                for sub in sympy.preorder_traversal(expr):
                    if isinstance(sub, sympy.Pow) and sub.args[1].is_number and sub.args[1] < 0:
                        d = sub.args[0]
                        if any(d == x for x in seen_d):
                            continue
                        seen_d.append(d)
                        try:
                            sol = sympy.solve(d, d.free_symbols, dict=True)
                            solve_tab.append("(%s, Some [%s])" % (tr(d), "; ".join(trcond(c) for c in sol)))
                            allconds += sol
                        except Exception:
                            solve_tab.append("(%s, None)" % tr(d))
        except TypeError:
            pass
        seen_c = []
        for c in allconds:
            if any(c == x for x in seen_c):
                continue
            seen_c.append(c)
            try:
                dfd = SingularityDetection._is_matrix_defined_under_substitution(A, c)
            except Exception:
                dfd = False
            def_tab.append("(%s, %s)" % (trcond(c), "true" if dfd else "false"))
        case = "{| sP := [%s]; sSolve := [%s]; sDef := [%s]; sObs := %s |}" % ("; ".join(tr(e) for e in sympy.flatten(P)), "; ".join(solve_tab), "; ".join(def_tab), obs_txt)
        # ---- probe: genuineness of every reported condition, and completeness against the closed form
        fails = []
        if obs is not None:
            for c in obs:
                bad = undefined_under(list(sympy.flatten(P)), c)
                As = [sympy.simplify(e.subs(list(c.items()))) for e in sympy.flatten(A)]
                abad = any(x.has(sympy.zoo) or x.has(sympy.nan) or x.has(sympy.oo) for x in As)
                if not bad:
                    fails.append("reported condition %s does not make any propagator entry undefined" % c)
                if abad:
                    fails.append("reported condition %s makes the system matrix undefined" % c)
            for (a, b) in spec.get("expected_pairs", []):
                sa, sb = (sympy.Integer(int(a)) if a.isdigit() else S(a)), (sympy.Integer(int(b)) if b.isdigit() else S(b))
                found = any((set(c.keys()) == {sa} and sympy.simplify(c[sa] - sb) == 0) or (set(c.keys()) == {sb} and sympy.simplify(c[sb] - sa) == 0) for c in obs)
                if not found:
                    fails.append("the propagator is singular for %s = %s but this equality is not among the reported conditions %s" % (a, b, obs))
        outs.append({"case": case, "unsupported": unsupported[0], "raised": raised, "n_conditions": None if obs is None else len(obs),
                     "conditions": None if obs is None else [str(c) for c in obs], "fails": fails, "P": [str(e) for e in sympy.flatten(P)][:6]})
    return {"outcome": "Ok", "outs": outs}


def impl_e2e(task):
    """the conditions analysis() itself reports (warning log) for systems given as equations: each must be genuine with
    respect to the WHOLE system matrix, and the list must be the one find_singularities gives for the whole (P, A)"""
    import logging
    import sympy
    import odetoolbox
    from odetoolbox.config import Config
    from odetoolbox.singularity_detection import SingularityDetection
    outs = []
    for spec in task["specs"]:
        n = spec["n"]
        names = ["x%d" % i for i in range(n)]
        loc = {k: sympy.Symbol(k) for k in spec["symbols"]}
        A = sympy.zeros(n, n)
        rows = {i: [] for i in range(n)}
        for (i, j, txt) in spec["entries"]:
            A[i, j] = sympy.parsing.sympy_parser.parse_expr(txt, local_dict=dict(loc))
            rows[i].append("(%s)*%s" % (txt, names[j]))
        ind = {"dynamics": [{"expression": "%s' = %s" % (names[i], " + ".join(rows[i]) if rows[i] else "0*%s" % names[i]), "initial_value": "1"} for i in range(n)]}
        records = []

        class H(logging.Handler):
            def emit(self, rec):
                records.append(rec.getMessage())
        h = H(level=logging.WARNING)
        logging.getLogger().addHandler(h)
        prev_disable = logging.root.manager.disable
        logging.disable(logging.NOTSET)       # the workers silence logging; the conditions are reported through it
        defaults = dict(Config.config)
        try:
            try:
                res = odetoolbox.analysis(ind, disable_stiffness_check=True, log_level="WARNING")
            except BaseException as e:   # noqa
                if isinstance(e, KeyboardInterrupt):
                    raise
                outs.append({"skipped": "%s: %s" % (type(e).__name__, str(e)[:120])})
                continue
        finally:
            logging.getLogger().removeHandler(h)
            logging.disable(prev_disable)
            Config.config.clear()
            Config.config.update(defaults)
        ana = [s_ for s_ in res if s_["solver"] == "analytical"]
        if not ana or sorted(ana[0]["state_variables"]) != sorted(names):
            outs.append({"skipped": "not fully analytic"})
            continue
        could_not = any("Could not check" in m for m in records)
        reported = []
        for m in records:
            if m.startswith("\t"):
                c = {}
                for part in m.strip().split(" \u2227 "):
                    k, v = part.split(" = ", 1)
                    c[sympy.Symbol(k.strip())] = sympy.parsing.sympy_parser.parse_expr(v, local_dict=dict(loc))
                reported.append(c)
        hs = sympy.Symbol("__h")
        ns = dict(loc)
        ns["__h"] = hs
        P = sympy.zeros(n, n)
        for key, ex in ana[0]["propagators"].items():
            a, b = key[len("__P__"):].split("__")
            P[names.index(a), names.index(b)] = sympy.parsing.sympy_parser.parse_expr(ex, local_dict=dict(ns))
        fails = []
        for c in reported:
            As = [sympy.simplify(e.subs(list(c.items()))) for e in sympy.flatten(A)]
            if any(x.has(sympy.zoo) or x.has(sympy.nan) or x.has(sympy.oo) for x in As):
                fails.append("analysis() reports the condition %s, which makes the system matrix itself undefined" % {str(k): str(v) for k, v in c.items()})
            if not undefined_under(list(sympy.flatten(P)), c):
                fails.append("analysis() reports the condition %s, which makes no returned propagator undefined (symbolically, and at 12 exact rational valuations of the other symbols)" % {str(k): str(v) for k, v in c.items()})
        canon = lambda lst: sorted(sorted((str(k), str(sympy.simplify(v))) for k, v in c.items()) for c in lst)
        whole = None
        if not could_not:
            try:
                whole = SingularityDetection.find_singularities(P, A)
            except Exception:   # noqa
                whole = None
        if whole is not None and canon(whole) != canon(reported):
            fails.append("analysis() reports %s; find_singularities on the whole propagator and system matrix gives %s" % (canon(reported), canon(whole)))
        outs.append({"reported": canon(reported), "fails": fails, "indict": ind, "could_not": could_not})
    return {"outcome": "Ok", "outs": outs}


def gen_multiblock(rng):
    """two or three UNCOUPLED blocks sharing parameters: a cascade with symbolic rates, and blocks whose own entries have the
    cascade's critical combination (or a single rate) in a denominator"""
    syms = ["a0", "a1", "a2"][: rng.choice([2, 2, 3])]
    entries = []
    k = len(syms)
    for i in range(k):
        entries.append((i, i, "-%s" % syms[i]))
        if i > 0:
            entries.append((i, i - 1, rng.choice(["1", "2"])))
    n = k
    for _ in range(rng.choice([1, 1, 2])):
        q = rng.random()
        if q < 0.4:
            a, b = rng.sample(syms, 2)
            entries.append((n, n, "-1/(%s - %s)" % (a, b)))
        elif q < 0.6:
            entries.append((n, n, "-1/%s" % rng.choice(syms)))
        elif q < 0.8:
            a, b = rng.sample(syms, 2)
            entries.append((n, n, "-(%s + %s)" % (a, b)))
        else:
            entries.append((n, n, "-3"))
        n += 1
    return {"n": n, "entries": entries, "symbols": syms, "kind": "multiblock"}


def gen_spec(rng):
    kind = rng.choice(["chain", "chain", "tree", "chain_tau", "repeat", "numeric"])
    n = rng.randint(2, 4 if kind != "tree" else 4)
    entries, symbols, pairs = [], [], []
    if kind in ("chain", "tree", "repeat"):
        names = ["a%d" % i for i in range(n)]
        if kind == "repeat" and n >= 2:
            names[1] = names[0]
        if rng.random() < 0.4:      # one stage with a numeric decay constant (0: a pure integrator stage; its denominators are bare symbols)
            names[rng.randrange(n)] = rng.choice(["0", "0", "2"])
        symbols = sorted(set(nm for nm in names if not nm.isdigit()))
        parent = {}
        for i in range(n):
            entries.append((i, i, "-%s" % names[i]))
            if i > 0:
                p = i - 1 if kind != "tree" else rng.randrange(i)
                parent[i] = p
                entries.append((i, p, rng.choice(["1", "2", "1/2"])))
        for i in range(n):
            k = i
            while k in parent:
                k = parent[k]
                if names[i] != names[k]:
                    pairs.append((names[i], names[k]))
    elif kind == "chain_tau":
        names = ["tau%d" % i for i in range(n)]
        symbols = names
        for i in range(n):
            entries.append((i, i, "-1/%s" % names[i]))
            if i > 0:
                entries.append((i, i - 1, "1"))
                for k in range(i):
                    pairs.append((names[i], names[k]))
    else:
        symbols = ["a0"]
        for i in range(n):
            entries.append((i, i, "-%d" % (i + 1)))
            if i > 0:
                entries.append((i, i - 1, "a0"))
    return {"n": n, "entries": entries, "symbols": symbols, "expected_pairs": sorted(set(pairs)), "kind": kind}


FIXED = [
    {"n": 1, "entries": [(0, 0, "-a0")], "symbols": ["a0", "k"], "P_override": ["a0**k/(a0 - 1)"], "expected_pairs": [], "kind": "symbolic_exponent"},
    {"n": 2, "entries": [(0, 0, "-a0"), (1, 1, "-a1"), (1, 0, "1")], "symbols": ["a0", "a1"], "expected_pairs": [("a0", "a1")], "kind": "chain"},
    {"n": 2, "entries": [(0, 0, "-a0"), (1, 0, "1")], "symbols": ["a0"], "expected_pairs": [("a0", "0")], "kind": "chain"},
    # coupled (non-triangular) blocks: the propagator contains the square root of a symbolic discriminant (soundness only)
    {"n": 2, "entries": [(0, 1, "1"), (1, 0, "-k"), (1, 1, "-1/tau")], "symbols": ["k", "tau"], "expected_pairs": [], "kind": "coupled"},
    {"n": 2, "entries": [(0, 0, "-a0"), (0, 1, "b"), (1, 0, "b"), (1, 1, "-a1")], "symbols": ["a0", "a1", "b"], "expected_pairs": [], "kind": "coupled"},
    {"n": 2, "entries": [(0, 1, "1"), (1, 0, "-k"), (1, 1, "-2")], "symbols": ["k"], "expected_pairs": [], "kind": "coupled"},
    {"n": 3, "entries": [(0, 0, "-a0"), (1, 1, "-a1"), (1, 0, "1"), (2, 1, "2")], "symbols": ["a0", "a1"], "expected_pairs": [("a0", "a1"), ("a0", "0"), ("a1", "0")], "kind": "chain"},
]

HEADER = "From Coq Require Import List ZArith QArith Qcanon Bool.\nFrom OdeVerif Require Import Base.Corr Model.Singularity Model.SingularityExec.\nImport ListNotations.\n"


def run(ctx):
    rng = random.Random(ctx["seed"] * 11003 + 11)
    quick = ctx["tier"] == "quick"
    specs = list(FIXED) + [gen_spec(rng) for _ in range(28 if quick else 200)]
    chunks = [specs[i::C.NPROC] for i in range(C.NPROC)]
    e2e_specs = [gen_multiblock(rng) for _ in range(10 if quick else 80)] + [sp for sp in specs if sp["kind"] in ("chain", "tree", "chain_tau", "repeat", "coupled") and not sp.get("P_override")][: (9 if quick else 40)]
    e2e_chunks = [e2e_specs[i::C.NPROC] for i in range(C.NPROC)]
    main_tasks = [{"fn": "c11.impl_run", "specs": ch, "timeout": 900} for ch in chunks if ch]
    allres = C.run_tasks(main_tasks + [{"fn": "c11.impl_e2e", "specs": ch, "timeout": 900} for ch in e2e_chunks if ch], timeout=900)
    res, eres = allres[:len(main_tasks)], allres[len(main_tasks):]
    outs = [None] * len(specs)
    corr_errors = []
    for ci, r in enumerate(res):
        if r.get("outcome") != "Ok":
            corr_errors.append("worker failed: %s" % str(r)[:300])
            continue
        for k, o in enumerate(r["outs"]):
            outs[ci + C.NPROC * k] = o
    coq, info, probe_failures = [], [], []
    dist = {"kinds": {}, "sizes": {}, "raised": 0, "unsupported_exponent": 0, "conditions_reported": 0, "expected_pairs": 0}
    nontriv = set()
    samples = []
    for sp, o in zip(specs, outs):
        if o is None:
            continue
        dist["kinds"][sp["kind"]] = dist["kinds"].get(sp["kind"], 0) + 1
        dist["sizes"][str(sp["n"])] = dist["sizes"].get(str(sp["n"]), 0) + 1
        dist["raised"] += int(o["raised"])
        dist["expected_pairs"] += len(sp.get("expected_pairs", []))
        dist["conditions_reported"] += o["n_conditions"] or 0
        for f in o["fails"]:
            probe_failures.append({"key": "singularity report: " + C.stable_hash([sp, f[:60]]), "what": f + " | system matrix entries %s" % sp["entries"], "replay": {"spec": sp}})
        if o["unsupported"]:
            dist["unsupported_exponent"] += 1
            continue
        coq.append(o["case"])
        info.append({"spec": sp, "reported": o["conditions"]})
        if o["n_conditions"]:
            nontriv.add(C.stable_hash(sp))
        if len(samples) < 3 and o["n_conditions"]:
            samples.append({"A_entries": sp["entries"], "P_first_entries": o["P"], "reported": o["conditions"]})
    dist["end_to_end"] = {"systems": 0, "skipped": 0, "conditions_reported": 0, "multiblock": sum(1 for sp in e2e_specs if sp["kind"] == "multiblock")}
    for ci, r in enumerate(eres):
        if r.get("outcome") != "Ok":
            corr_errors.append("end-to-end worker failed: %s" % str(r)[:300])
            continue
        for k, o in enumerate(r["outs"]):
            sp = [ch for ch in e2e_chunks if ch][ci][k]
            if "skipped" in o:
                dist["end_to_end"]["skipped"] += 1
                continue
            dist["end_to_end"]["systems"] += 1
            dist["end_to_end"]["conditions_reported"] += len(o["reported"])
            nontriv.add(C.stable_hash(["e2e", sp]))
            for f in o["fails"][:2]:
                probe_failures.append({"key": "conditions reported by analysis(): " + C.stable_hash([sp, f[:60]]), "what": f + " | input %s" % o["indict"]["dynamics"], "replay": {"e2e_spec": sp}})
    mism, errs = C.coq_eval_shards(PROP, HEADER, coq, per=8)
    corr_errors += errs
    corr_mismatches = [{"layer": "find_singularities(P, A) vs Model/Singularity.find_singularities with the oracle tables", "case": info[i]} for i in mism[:6]]
    return {"evaluations": len(coq), "distinct_nontrivial": len(nontriv),
            "rule": "triangular chains and trees with symbolic decay constants (distinct, repeated, as 1/tau so that the parameters also sit in A's denominators), numeric diagonals with a symbolic coupling, a symbolic-exponent matrix (detection must raise); non-trivial = at least one condition reported; distinct by hash of the matrix",
            "samples": samples, "distribution": dist,
            "layers": {"L1 find_singularities (in Coq, order included)": len(coq), "probe: genuineness of each reported condition + closed-form completeness": len(specs),
                       "probe: conditions logged by analysis() on equations (incl. uncoupled blocks sharing parameters): genuine w.r.t. the whole system matrix, equal to find_singularities(whole P, whole A)": dist["end_to_end"]["systems"]},
            "corr_mismatches": corr_mismatches, "corr_errors": corr_errors, "probe_failures": probe_failures}


def replay(payload):
    rp = payload.get("replay") or {}
    if "spec" not in rp and "e2e_spec" not in rp:
        return True, "replay file names a broken obligation (no concrete input): " + str(payload.get("no_longer_checks"))[:500]
    if "e2e_spec" in rp:
        sp = rp["e2e_spec"]
        sp["entries"] = [tuple(e) for e in sp["entries"]]
        r = C.run_tasks([{"fn": "c11.impl_e2e", "specs": [sp]}], timeout=900)[0]
        f = r.get("outs", [{}])[0].get("fails", ["run failed"])
        return (not f), "probe failures: %s" % f
    sp = rp["spec"]
    sp["entries"] = [tuple(e) for e in sp["entries"]]
    r = C.run_tasks([{"fn": "c11.impl_run", "specs": [sp]}], timeout=900)[0]
    f = r.get("outs", [{}])[0].get("fails", ["run failed"])
    return (not f), "probe failures: %s" % f
