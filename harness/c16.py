"""C16 — the command-line tool and the Python API give the same answer."""
import itertools
import json
import os
import random
import shutil
import subprocess
import tempfile

from . import common as C

PROP = "C16"
PROPS_FILE = "theories/Props/C16.v"
THEOREMS = ["c16_argument_table", "c16_kwargs", "c16_output", "c16_name_with_extension", "c16_name_without_extension"]
GEN_FILES = ["CliGen.v"]
TRUSTED = ["Coq 8.16.1 kernel + vm_compute", "theorems closed under the global context",
           "translator harness/translate_more.gen_cli (fail-closed): add_argument table, keyword mapping of the analysis() call, bare --preserve-expressions handling, order of the error exits, result-file naming rule",
           "correspondence harness (harness/c16.py): real subprocess runs of ode_analyzer.py in scratch directories over the product of the flags and an input pool; parsed flags vs Model/Cli.parse_argv and file name vs Model/Cli.outname (decided in Coq); result file vs in-process analysis() with the mapped keywords",
           "modelled not verified: argparse (token-wise parser in the model, for the documented usage FILE [flags]), json, the operating system's file handling"]
ASSUMPTIONS = ["documented usage: the input file first, then flags; names and level values do not start with '-'",
               "'<basename>' = file name without directory and without its last extension"]

# (written differently from the way the toolbox prints expressions, so that preserved text is distinguishable)
VALID = {"dynamics": [{"expression": "x' = (0 - x)/tau + 1*y", "initial_value": "1"}, {"expression": "y' = (0 - y*y)/4", "initial_value": "1/2"}]}
ANALYTIC = {"dynamics": [{"expression": "g' = -g/2", "initial_value": "1"}]}
MALFORMED = {"dynamics": [{"expression": "x' = -x", "initial_values": {"x": "1", "x'": "0"}}]}
SYSEXIT = {"dynamics": [{"expression": "x'' = -x + 1", "initial_values": {"x": "1", "x'": "0"}}]}
# several numerically solved variables (their order in the result must not depend on the interpreter's hash seed)
LORENZ = {"dynamics": [{"expression": "x' = 10*(y - x)", "initial_value": "1"}, {"expression": "y' = x*(28 - z) - y", "initial_value": "1"}, {"expression": "z' = x*y - 8*z/3", "initial_value": "1"},
                       {"expression": "w' = -w*x**2", "initial_value": "2"}]}

API_KINDS = ("valid", "analytic", "malformed_system", "sysexit_system", "empty_system", "no_equations", "only_parameters", "lorenz")
PATHS = ["in.json", "in.v2.json", "sub/in.json", "some.dir/input", "some.dir/in.json", "noext", "a.b/c.d/e.f.json", "./x.json"]


def cli_run(job):
    """one subprocess run in a scratch directory; returns exit status, files written, parsed content"""
    d = tempfile.mkdtemp(prefix="c16_", dir="/tmp")
    try:
        work = os.path.join(d, "work")
        os.makedirs(work)
        path = job["path"]
        full = os.path.join(work, path)
        os.makedirs(os.path.dirname(full) or work, exist_ok=True)
        if job["content"] is not None:
            with open(full, "w") as f:
                f.write(job["content"])
        env = C.impl_env(hashseed=str(job.get("hashseed", "0")))
        p = subprocess.run([C.PY, os.path.join(C.REPO, "ode_analyzer.py"), path] + job["flags"], cwd=work, env=env,
                           stdout=subprocess.PIPE, stderr=subprocess.PIPE, text=True, timeout=180)
        written = []
        for root, _, files in os.walk(work):
            for fn in files:
                rel = os.path.relpath(os.path.join(root, fn), work)
                if rel != os.path.normpath(path):
                    written.append(rel)
        content = None
        if len(written) == 1:
            try:
                content = json.load(open(os.path.join(work, written[0])))
            except Exception as e:   # noqa
                content = "unparsable: %s" % e
        return {"status": p.returncode, "written": sorted(written), "content": content, "stderr": p.stderr[-300:]}
    except subprocess.TimeoutExpired:
        return {"status": "timeout", "written": [], "content": None}
    finally:
        shutil.rmtree(d, ignore_errors=True)


def api_run(task):
    import odetoolbox
    from odetoolbox.config import Config
    from . import impl_worker
    outs = []
    for c in task["cases"]:
        defaults = dict(Config.config)
        try:
            r = odetoolbox.analysis(json.loads(c["content"]), **c["kwargs"])
            outs.append({"outcome": "Ok", "result": json.loads(json.dumps(r))})
        except BaseException as e:   # noqa
            if isinstance(e, KeyboardInterrupt):
                raise
            outs.append({"outcome": impl_worker.classify_exception(e)})
        finally:
            Config.config.clear()
            Config.config.update(defaults)
    return {"outcome": "Ok", "outs": outs}


def expected_kwargs(spec):
    kw = {"disable_stiffness_check": spec["dsc"], "disable_analytic_solver": spec["das"], "log_level": spec["ll"] if spec["ll"] is not None else "WARN"}
    kw["preserve_expressions"] = False if spec["pe"] is None else (True if spec["pe"] == [] else list(spec["pe"]))
    return kw


def render_flags(spec, order):
    groups = {"dsc": ["--disable-stiffness-check"] if spec["dsc"] else [], "das": ["--disable-analytic-solver"] if spec["das"] else [],
              "pe": [] if spec["pe"] is None else ["--preserve-expressions"] + list(spec["pe"]), "ll": [] if spec["ll"] is None else ["--log-level", spec["ll"]]}
    out = []
    for k in order:
        out += groups[k]
    return out


def cs(s):
    return '"%s"%%string' % s


def stem_of(path):
    b = path.split("/")[-1]
    if "." in b.strip(".") and not b.startswith(".") or ("." in b[1:] and b.startswith(".")):
        i = b.rfind(".")
        if b[:i].strip(".") != "":
            return b[:i]
    return b


HEADER = """From Coq Require Import List String Ascii Bool.
From OdeVerif Require Import Base.Corr Model.InputCheck Model.Cli Gen.CliGen.
Import ListNotations.
Definition pe_eqb (a b : preserve) : bool :=
  match a, b with PAbsent, PAbsent => true | PBare, PBare => true | PNames x, PNames y => list_eqb String.eqb x y | _, _ => false end.
Definition args_eqb (a b : cli_args) : bool :=
  String.eqb (a_infile a) (a_infile b) && Bool.eqb (a_dsc a) (a_dsc b) && Bool.eqb (a_das a) (a_das b) && pe_eqb (a_pe a) (a_pe b)
  && option_eqb String.eqb (a_ll a) (a_ll b).
(* case: argv, observed (via the keywords the run must have used), path, observed result file name (None = nothing written) *)
Definition agree (c : (list string * option cli_args) * (list ascii * option (list ascii))) : bool :=
  option_eqb args_eqb (parse_argv (fst (fst c))) (snd (fst c))
  && match snd (snd c) with Some nm => list_eqb Ascii.eqb (outname cli_name_rule (fst (snd c))) nm | None => true end.
Definition mism (cases : list ((list string * option cli_args) * (list ascii * option (list ascii)))) : list nat := mism_by agree cases.
"""


def run(ctx):
    from concurrent.futures import ThreadPoolExecutor
    rng = random.Random(ctx["seed"] * 3001 + 16)
    quick = ctx["tier"] == "quick"
    specs = []
    for dsc, das in itertools.product([False, True], repeat=2):
        for pe in (None, [], ["x"], ["x", "y"]):
            for ll in (None, "DEBUG", "10", "WARN"):
                specs.append({"dsc": dsc, "das": das, "pe": pe, "ll": ll})
    pool = [("valid", json.dumps(VALID)), ("analytic", json.dumps(ANALYTIC))]
    jobs = []
    chosen = specs if not quick else rng.sample(specs, 26)
    for spec in chosen:
        kind, content = pool[rng.randrange(len(pool))] if quick else pool[0]
        if spec["pe"] == ["x", "y"] and kind == "analytic":
            kind, content = pool[0]
        if not spec["dsc"]:
            pass       # stiffness check requested but PyGSL absent -> analysis raises; an error exit, compared below
        order = ["dsc", "das", "pe", "ll"]
        rng.shuffle(order)
        jobs.append({"kind": kind, "spec": spec, "path": rng.choice(PATHS), "content": content, "flags": render_flags(spec, order)})
        if not quick:
            kind2, content2 = pool[1]
            if spec["pe"] != ["x", "y"] and spec["pe"] != ["x"]:
                jobs.append({"kind": kind2, "spec": spec, "path": rng.choice(PATHS), "content": content2, "flags": render_flags(spec, order)})
    base = {"dsc": True, "das": False, "pe": None, "ll": None}
    for path in PATHS:
        jobs.append({"kind": "valid", "spec": base, "path": path, "content": json.dumps(VALID), "flags": render_flags(base, ["dsc"])})
    for kind, content in (("missing_file", None), ("invalid_json", "{ not json"), ("malformed_system", json.dumps(MALFORMED)), ("sysexit_system", json.dumps(SYSEXIT)), ("empty_file", "")):
        for path in ("in.json", "some.dir/input"):
            jobs.append({"kind": kind, "spec": base, "path": path, "content": content, "flags": render_flags(base, ["dsc"])})
    # valid inputs whose answer is the empty list (no equations at all)
    for kind, content in (("empty_system", "{}"), ("no_equations", json.dumps({"dynamics": []})), ("only_parameters", json.dumps({"dynamics": [], "parameters": {"tau": "2"}}))):
        for spec in (base, {"dsc": True, "das": True, "pe": [], "ll": "DEBUG"}):
            jobs.append({"kind": kind, "spec": spec, "path": rng.choice(PATHS), "content": content, "flags": render_flags(spec, ["ll", "dsc", "pe", "das"])})
    # each command-line run is a fresh interpreter with its own hash randomisation, the API answer comes from another one:
    # the same runs under other hash seeds must give the same answer up to the spelling of expressions (same solvers, same
    # state variables in the same order, same keys)
    xjobs = []
    for j_ in [j for j in jobs if j["kind"] in ("valid", "analytic") and j["spec"]["dsc"]][:6] + [{"kind": "lorenz", "spec": sp_, "path": "in.json", "content": json.dumps(LORENZ), "flags": render_flags(sp_, ["dsc", "das", "pe", "ll"])}
                                                                              for sp_ in (base, {"dsc": True, "das": True, "pe": None, "ll": None})]:
        for hs_ in (1, 2, 3) if quick else (1, 2, 3, 4, 5, 6, 7):
            xjobs.append(dict(j_, hashseed=hs_))
        if j_["kind"] == "lorenz":
            jobs.append(j_)
    with ThreadPoolExecutor(max_workers=C.NPROC) as ex:
        cli = list(ex.map(cli_run, jobs))
        xcli = list(ex.map(cli_run, xjobs))
    api_cases = [{"content": j["content"], "kwargs": expected_kwargs(j["spec"])} for j in jobs if j["kind"] in API_KINDS]
    api_idx = [i for i, j in enumerate(jobs) if j["kind"] in API_KINDS]
    chunks = [api_cases[i::8] for i in range(8)]
    ares = C.run_tasks([{"fn": "c16.api_run", "cases": ch} for ch in chunks if ch], timeout=600)
    api = {}
    corr_errors = []
    for ci, r in enumerate(ares):
        if r.get("outcome") != "Ok":
            corr_errors.append("api worker failed: %s" % str(r)[:200])
            continue
        for k, o in enumerate(r["outs"]):
            api[api_idx[ci + 8 * k]] = o
    coq, info, probe_failures = [], [], []
    dist = {"kinds": {}, "exit_status": {}, "paths": {}, "flag_specs": len(chosen), "files_written": 0}
    nontriv = set()
    for i, (j, c) in enumerate(zip(jobs, cli)):
        dist["kinds"][j["kind"]] = dist["kinds"].get(j["kind"], 0) + 1
        dist["exit_status"][str(c["status"])] = dist["exit_status"].get(str(c["status"]), 0) + 1
        dist["paths"][j["path"]] = dist["paths"].get(j["path"], 0) + 1
        nontriv.add(C.stable_hash([j["kind"], j["path"], j["flags"]]))
        want_name = stem_of(j["path"]) + "_result.json"
        a = api.get(i)
        should_succeed = a is not None and a["outcome"] == "Ok"
        key = "cli %s path=%s flags=%s" % (j["kind"], j["path"], " ".join(j["flags"]))
        if should_succeed:
            if c["status"] != 0 or c["written"] != [want_name]:
                k2 = "result file name for an extension-less file in a dotted directory" if c["status"] == 0 and j["path"] == "some.dir/input" and c["written"] == ["some_result.json"] else key
                probe_failures.append({"key": k2, "what": "ode_analyzer.py %s %s: exit status %s, files written %s; expected exit 0 and exactly %s in the working directory (%s)" % (j["path"], " ".join(j["flags"]), c["status"], c["written"], want_name, c.get("stderr", "")[-150:]), "replay": {"job": j}})
            elif c["content"] != a["result"]:
                probe_failures.append({"key": key, "what": "result file differs from analysis(%s): %s vs %s" % (expected_kwargs(j["spec"]), json.dumps(c["content"])[:300], json.dumps(a["result"])[:300]), "replay": {"job": j}})
            else:
                dist["files_written"] += 1
        else:
            if c["status"] == 0 or c["written"]:
                probe_failures.append({"key": key, "what": "%s: exit status %s and files %s; expected a non-zero exit status and no result file (API outcome: %s)" % (j["kind"], c["status"], c["written"], a and a["outcome"]), "replay": {"job": j}})
        spec = j["spec"]
        pe = "PAbsent" if spec["pe"] is None else ("PBare" if spec["pe"] == [] else "PNames %s" % C.clist([cs(x) for x in spec["pe"]]))
        obs_args = "Some {| a_infile := %s; a_dsc := %s; a_das := %s; a_pe := %s; a_ll := %s |}" % (cs(j["path"]), C.cbool(spec["dsc"]), C.cbool(spec["das"]), pe, "Some %s" % cs(spec["ll"]) if spec["ll"] is not None else "None")
        nm = "Some (list_ascii_of_string %s)" % cs(c["written"][0]) if len(c["written"]) == 1 else "None"
        if should_succeed and c["status"] == 0 and c["content"] == a["result"] or not should_succeed:
            coq.append("((%s, %s), (list_ascii_of_string %s, %s))" % (C.clist([cs(j["path"])] + [cs(f) for f in j["flags"]]), obs_args, cs(j["path"]), nm))
            info.append({"job": {k: v for k, v in j.items() if k != "content"}, "cli": {k: v for k, v in c.items() if k != "content"}})
    # cross-hash-seed comparison (structure)
    def structure(res_):
        return [[s_.get("solver"), list(s_.get("state_variables", [])), sorted(s_.keys()), list(s_.get("update_expressions", {}).keys()), list(s_.get("initial_values", {}).keys())] for s_ in res_] if isinstance(res_, list) else res_
    ref = {}
    for j_, c_ in zip(jobs, cli):
        ref[(j_["kind"], j_["path"], tuple(j_["flags"]))] = c_
    dist["other_hash_seeds"] = {"runs": len(xjobs), "compared": 0}
    for j_, c_ in zip(xjobs, xcli):
        r_ = ref.get((j_["kind"], j_["path"], tuple(j_["flags"])))
        if r_ is None or r_["status"] != 0:
            continue
        dist["other_hash_seeds"]["compared"] += 1
        if c_["status"] != 0 or c_["written"] != r_["written"] or structure(c_["content"]) != structure(r_["content"]):
            probe_failures.append({"key": "cli result depends on the interpreter's hash seed: %s %s" % (j_["kind"], " ".join(j_["flags"])),
                                   "what": "ode_analyzer.py %s %s under PYTHONHASHSEED=%s: exit %s, files %s, structure %s; under PYTHONHASHSEED=0 (where it equals the API's answer): exit %s, files %s, structure %s" % (
                                       j_["path"], " ".join(j_["flags"]), j_["hashseed"], c_["status"], c_["written"], json.dumps(structure(c_["content"]))[:400], r_["status"], r_["written"], json.dumps(structure(r_["content"]))[:400]),
                                   "replay": {"job": j_}})
    mism, errs = ([], [])
    if os.path.exists(os.path.join(C.COQ, "theories/Gen/CliGen.vo")):
        mism, errs = C.coq_eval_shards(PROP, HEADER, coq, per=100)
    else:
        errs = ["Gen/CliGen.vo not built"]
    corr_errors += errs
    corr_mismatches = [{"layer": "argv -> flags (Model/Cli.parse_argv) and result file name (Model/Cli.outname with the regenerated rule)", "case": info[i]} for i in mism[:6]]
    return {"evaluations": len(jobs), "distinct_nontrivial": len(nontriv),
            "rule": "real runs of ode_analyzer.py: flag settings (2x2 switches x preserve {absent, bare, 1 name, 2 names} x log-level {absent, DEBUG, 10, WARN}; %s; flag groups in shuffled order) x input pool (numeric+analytic system, analytic system; missing file, invalid JSON, empty file, malformed system, system that exits) x paths (dots in file and directory names, sub-directories, no extension); distinct by (kind, path, flags)" % ("sampled" if quick else "full product"),
            "samples": [{"path": j["path"], "flags": j["flags"], "kind": j["kind"], "exit": c["status"], "written": c["written"]} for j, c in list(zip(jobs, cli))[:3]],
            "distribution": dist, "exhaustive": not quick,
            "layers": {"L1 parsed flags + file name (in Coq)": len(coq), "probe: result file == analysis(**kwargs) / exit status / no file on error": len(jobs)},
            "corr_mismatches": corr_mismatches, "corr_errors": corr_errors, "probe_failures": probe_failures}


def _structure(res_):
    return [[s_.get("solver"), list(s_.get("state_variables", [])), sorted(s_.keys()), list(s_.get("update_expressions", {}).keys()), list(s_.get("initial_values", {}).keys())] for s_ in res_] if isinstance(res_, list) else res_


def replay(payload):
    """the command-line run of the replay file against the API on the same dictionary and flags"""
    rp = payload.get("replay") or {}
    if "job" not in rp:
        return True, "replay file names a broken obligation (no concrete input): " + str(payload.get("no_longer_checks"))[:500]
    j = rp["job"]
    c = cli_run(j)
    want = stem_of(j["path"]) + "_result.json"
    a = None
    if j.get("content") is not None and j["kind"] in API_KINDS:
        r = C.run_tasks([{"fn": "c16.api_run", "cases": [{"content": j["content"], "kwargs": expected_kwargs(j["spec"])}]}], timeout=600)[0]
        a = r["outs"][0] if r.get("outcome") == "Ok" else None
    if a is not None and a["outcome"] == "Ok":
        if c["status"] != 0 or c["written"] != [want]:
            return False, "exit %s, written %s; the API succeeds, expected exit 0 and %s" % (c["status"], c["written"], want)
        if str(j.get("hashseed", "0")) == "0":
            return c["content"] == a["result"], "result file %s the API's answer" % ("equals" if c["content"] == a["result"] else "differs from")
        return _structure(c["content"]) == _structure(a["result"]), "structure under PYTHONHASHSEED=%s: %s; API: %s" % (j.get("hashseed"), json.dumps(_structure(c["content"]))[:300], json.dumps(_structure(a["result"]))[:300])
    return (c["status"] != 0 and not c["written"]), "exit %s, written %s (the API outcome is %s: a non-zero exit status and no file are required)" % (c["status"], c["written"], a and a["outcome"])
