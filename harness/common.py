"""Shared plumbing of the verification harness: paths, environment for running the
implementation, a killable worker pool, the Coq build / evaluation helpers, evidence and
known-findings handling.  Everything runs offline with /venv/bin/python."""
import fcntl
import hashlib
import json
import os
import re
import select
import subprocess
import sys
import time

VERIF = os.path.dirname(os.path.dirname(os.path.abspath(__file__)))
REPO = os.environ.get("VERIF_REPO", "/repo")
COQ = os.path.join(VERIF, "coq")
PY = "/venv/bin/python"
GUARD = "ODETOOLBOX_VERIF"
NPROC = min(16, os.cpu_count() or 4)


def impl_env(extra=None, hashseed="0", stub=False):
    env = dict(os.environ)
    pp = [REPO]
    if stub:
        pp.insert(0, os.path.join(VERIF, "harness", "pygsl_stub"))
    pp.append(VERIF)
    env["PYTHONPATH"] = os.pathsep.join(pp)
    env["PYTHONHASHSEED"] = str(hashseed)
    env[GUARD] = "1"
    env["PYTHONDONTWRITEBYTECODE"] = "1"
    env["OMP_NUM_THREADS"] = "1"
    env["OPENBLAS_NUM_THREADS"] = "1"
    env["MKL_NUM_THREADS"] = "1"
    if extra:
        env.update(extra)
    return env


# ----------------------------------------------------------------------------------------
# worker pool: N python subprocesses running harness/impl_worker.py; one JSON task per line
# ----------------------------------------------------------------------------------------

class _Worker:
    def __init__(self, env):
        self.env = env
        self.start()

    def start(self):
        self.p = subprocess.Popen([PY, "-u", os.path.join(VERIF, "harness", "impl_worker.py")],
                                  stdin=subprocess.PIPE, stdout=subprocess.PIPE, stderr=subprocess.DEVNULL,
                                  env=self.env, cwd=VERIF, text=True, bufsize=1)
        self.task = None
        self.t0 = None
        self.buf = ""

    def kill(self):
        try:
            self.p.kill()
            self.p.wait(timeout=5)
        except Exception:
            pass

    def send(self, idx, task):
        self.task = idx
        self.t0 = time.time()
        self.p.stdin.write(json.dumps(task) + "\n")
        self.p.stdin.flush()


def _limit(task, default):
    """wall-clock limit of one worker task.  A task that carries a whole chunk of cases (a list of more than one case, spec,
    run, history or sub-task) is bookkeeping of the harness, not a per-case cut-off: its limit is tripled (x VERIF_TIMEOUT_FACTOR)
    so that a busy machine does not turn into 'worker failed'."""
    lim = float(task.get("timeout", default))
    if any(isinstance(task.get(k), list) and len(task[k]) > 1 for k in ("cases", "specs", "runs", "histories", "subs", "calls")):
        lim *= 3.0 * float(os.environ.get("VERIF_TIMEOUT_FACTOR", "1"))
    return lim


def run_tasks(tasks, timeout=60, nworkers=None, stub=False, hashseed="0", extra_env=None, progress=None):
    """Run tasks (JSON-serialisable dicts with a 'fn' key naming a function of impl_worker)
    on the implementation; returns a list of results in order.  A task exceeding `timeout`
    seconds gets {'outcome': 'Timeout'} and its worker is restarted; a crashed worker gives
    {'outcome': 'Crash'}."""
    n = len(tasks)
    results = [None] * n
    if n == 0:
        return results
    nworkers = min(nworkers or NPROC, n)
    env = impl_env(extra=extra_env, hashseed=hashseed, stub=stub)
    workers = [_Worker(env) for _ in range(nworkers)]
    nxt = 0
    done = 0
    try:
        while done < n:
            for w in workers:
                if w.task is None and nxt < n:
                    try:
                        w.send(nxt, tasks[nxt])
                    except Exception:
                        w.kill(); w.start(); w.send(nxt, tasks[nxt])
                    nxt += 1
            busy = [w for w in workers if w.task is not None]
            fds = [w.p.stdout for w in busy]
            ready, _, _ = select.select(fds, [], [], 0.5)
            now = time.time()
            for w in busy:
                if w.p.stdout in ready:
                    line = w.p.stdout.readline()
                    if not line:
                        results[w.task] = {"outcome": "Crash"}
                        done += 1
                        w.kill(); w.start()
                        continue
                    if not line.startswith("@@R "):
                        continue
                    try:
                        results[w.task] = json.loads(line[4:])
                    except Exception as e:
                        results[w.task] = {"outcome": "Crash", "detail": "bad json " + str(e)}
                    done += 1
                    fresh = bool(tasks[w.task].get("fresh"))
                    w.task = None
                    if fresh:
                        w.kill(); w.start()
                    if progress and done % progress == 0:
                        print("  ... %d/%d implementation runs" % (done, n), flush=True)
                elif now - w.t0 > _limit(tasks[w.task], timeout):
                    results[w.task] = {"outcome": "Timeout"}
                    done += 1
                    w.kill(); w.start()
    finally:
        for w in workers:
            w.kill()
    return results


# ----------------------------------------------------------------------------------------
# Coq side
# ----------------------------------------------------------------------------------------

class _Lock:
    def __enter__(self):
        self.f = open(os.path.join(COQ, ".lock"), "w")
        fcntl.flock(self.f, fcntl.LOCK_EX)
        return self

    def __exit__(self, *a):
        fcntl.flock(self.f, fcntl.LOCK_UN)
        self.f.close()


def sh(cmd, timeout=600, cwd=None, env=None):
    try:
        r = subprocess.run(cmd, shell=isinstance(cmd, str), cwd=cwd, env=env, timeout=timeout,
                           stdout=subprocess.PIPE, stderr=subprocess.STDOUT, text=True)
        return r.returncode, r.stdout
    except subprocess.TimeoutExpired as e:
        out = e.stdout if isinstance(e.stdout, str) else (e.stdout or b"").decode("utf8", "replace")
        return 124, out + "\n[timeout after %ss]" % timeout


def project_files():
    """Files listed in _CoqProject, in order."""
    out = []
    for line in open(os.path.join(COQ, "_CoqProject")):
        line = line.strip()
        if line.endswith(".v"):
            out.append(line)
    return out


def _requires(vfile):
    txt = open(os.path.join(COQ, vfile)).read()
    txt = re.sub(r"\(\*.*?\*\)", "", txt, flags=re.S)
    mods = []
    for m in re.finditer(r"From\s+OdeVerif\s+Require\s+(?:Import|Export)\s+([A-Za-z_0-9.\s]+?)\.(?=\s)", txt):
        for name in m.group(1).split():
            mods.append(name)
    for m in re.finditer(r"(?<!OdeVerif\s)Require\s+(?:Import|Export)\s+((?:OdeVerif\.[A-Za-z_.0-9]+\s*)+)\.(?=\s)", txt):
        for name in m.group(1).split():
            mods.append(name[len("OdeVerif."):])
    return mods


def cone(vfile):
    """Transitive dependency cone (project files only) of a project file."""
    files = {f[len("theories/"):-2].replace("/", "."): f for f in project_files()}
    seen = []
    todo = [vfile]
    while todo:
        f = todo.pop()
        if f in seen:
            continue
        seen.append(f)
        if not os.path.exists(os.path.join(COQ, f)):
            continue
        for m in _requires(f):
            if m in files:
                todo.append(files[m])
    return seen


_OBL = re.compile(r"^\s*(?:Local\s+|Global\s+|#\[[^\]]*\]\s*)*(Theorem|Lemma|Corollary|Example|Fact|Remark|Proposition)\s+([A-Za-z_][A-Za-z_0-9']*)", re.M)


def obligations(vfiles):
    obl = []
    for f in vfiles:
        p = os.path.join(COQ, f)
        if os.path.exists(p):
            for m in _OBL.finditer(open(p).read()):
                obl.append((f, m.group(2)))
    return obl


FORBIDDEN = re.compile(r"\b(Admitted|admit|Axiom|Axioms|Parameter|Parameters|Conjecture|Abort All|bypass_check|Unset\s+Guard\s+Checking|Unset\s+Positivity\s+Checking|Unset\s+Universe\s+Checking|Admit\s+Obligations|native_compute)\b")


def forbidden_scan(vfiles):
    hits = []
    for f in vfiles:
        p = os.path.join(COQ, f)
        if not os.path.exists(p):
            continue
        txt = re.sub(r"\(\*.*?\*\)", "", open(p).read(), flags=re.S)
        for i, line in enumerate(txt.split("\n")):
            if FORBIDDEN.search(line):
                hits.append("%s:%d: %s" % (f, i + 1, line.strip()))
    return hits


def coq_build(clean=False, timeout=1500):
    """Regenerate Gen/*.v from /repo, then make (full .vo build).  Returns dict:
       ok(bool), failed(list of project files whose .vo is missing/stale), log(str), translate_errors."""
    from . import translate
    t0 = time.time()
    with _Lock():
        terrs = translate.regenerate()
        if clean:
            sh("rm -f Makefile Makefile.conf .Makefile.d; find theories -name '*.vo' -o -name '*.glob' -o -name '*.vok' -o -name '*.vos' -o -name '.*.aux' | xargs rm -f", cwd=COQ)
        if not os.path.exists(os.path.join(COQ, "Makefile")) or \
                os.path.getmtime(os.path.join(COQ, "Makefile")) < os.path.getmtime(os.path.join(COQ, "_CoqProject")):
            sh("coq_makefile -f _CoqProject -o Makefile", cwd=COQ)
        rc, log = sh("timeout %d make -k -j%d 2>&1 | tail -n 200" % (timeout, NPROC), cwd=COQ, timeout=timeout + 30)
        failed = []
        # targets that are still out of date after the build (compile errors, or a dependency that failed)
        _, dry = sh("make -k -n 2>/dev/null", cwd=COQ, timeout=120)
        stale = set(re.findall(r"theories/[A-Za-z0-9_/]+\.v", dry))
        failed += sorted(f for f in project_files() if f in stale)
        for f in project_files():
            if f in failed:
                continue
            v = os.path.join(COQ, f)
            vo = v + "o"
            if not os.path.exists(v):
                failed.append(f)
            elif not os.path.exists(vo) or os.path.getmtime(vo) < os.path.getmtime(v):
                failed.append(f)
    return {"ok": not failed, "failed": failed, "log": log, "translate_errors": terrs, "wall_s": time.time() - t0}


def coqc_text(text, name, timeout=600):
    """Compile a scratch .v file under coq/cases/ against the built project; returns (rc, output)."""
    d = os.path.join(COQ, "cases")
    os.makedirs(d, exist_ok=True)
    path = os.path.join(d, name + ".v")
    with open(path, "w") as f:
        f.write(text)
    rc, out = sh("ulimit -s unlimited 2>/dev/null; timeout %d coqc -Q ../theories OdeVerif %s.v" % (timeout, name), cwd=d, timeout=timeout + 20)
    for ext in (".vo", ".vok", ".vos", ".glob"):
        try:
            os.remove(os.path.join(d, name + ext))
        except OSError:
            pass
    try:
        os.remove(os.path.join(d, "." + name + ".aux"))
    except OSError:
        pass
    return rc, out


def coq_eval_shards(prop, header, case_defs, per=200, footer_fn=None, timeout=600):
    """case_defs: list of Coq terms (strings), each of the case type expected by `mism`.
    Writes shards  cases_<prop>_<k>.v :
        <header>
        Definition cases := [ ... ].
        Eval vm_compute in (mism cases).
    `mism` must be defined by header and return a list of nat (indices, 0-based within shard)
    of the cases on which model and implementation differ.
    Returns (mismatch_indices(global), errors(list of str))."""
    shards = [case_defs[i:i + per] for i in range(0, len(case_defs), per)]
    procs = []
    d = os.path.join(COQ, "cases")
    os.makedirs(d, exist_ok=True)
    results = [None] * len(shards)

    def launch(k):
        name = "cases_%s_%d" % (prop, k)
        body = header + "\nDefinition cases := [\n" + ";\n".join(shards[k]) + "\n].\n" + \
            "Eval vm_compute in (mism cases).\n"
        path = os.path.join(d, name + ".v")
        with open(path, "w") as f:
            f.write(body)
        p = subprocess.Popen("ulimit -s unlimited 2>/dev/null; timeout %d coqc -Q ../theories OdeVerif %s.v" % (timeout, name),
                             shell=True, cwd=d, stdout=subprocess.PIPE, stderr=subprocess.STDOUT, text=True)
        return p

    pending = list(range(len(shards)))
    running = {}
    while pending or running:
        while pending and len(running) < NPROC:
            k = pending.pop(0)
            running[k] = launch(k)
        for k, p in list(running.items()):
            if p.poll() is not None:
                results[k] = (p.returncode, p.stdout.read())
                del running[k]
        time.sleep(0.05)
    mism = []
    errors = []
    for k, (rc, out) in enumerate(results):
        name = "cases_%s_%d" % (prop, k)
        for ext in (".vo", ".vok", ".vos", ".glob"):
            try:
                os.remove(os.path.join(d, name + ext))
            except OSError:
                pass
        try:
            os.remove(os.path.join(d, "." + name + ".aux"))
        except OSError:
            pass
        if rc != 0:
            errors.append("shard %d: coqc rc=%d: %s" % (k, rc, out[-1500:]))
            continue
        m = re.search(r"=\s*\[(.*?)\]\s*:\s*list nat", out, re.S)
        if not m:
            m2 = re.search(r"=\s*nil\s*:\s*list nat", out)
            if m2:
                continue
            errors.append("shard %d: unparsable output: %s" % (k, out[-800:]))
            continue
        body = m.group(1).strip()
        if body:
            for tok in body.split(";"):
                tok = tok.strip().replace("%nat", "")
                if tok:
                    mism.append(k * per + int(tok))
    return mism, errors


def print_assumptions(prop, theorems, module):
    """Returns {theorem: text} from `Print Assumptions`."""
    txt = "From OdeVerif Require Import %s.\n" % module
    for th in theorems:
        txt += 'Goal True. idtac "@@BEGIN %s". Abort.\nPrint Assumptions %s.\nGoal True. idtac "@@END". Abort.\n' % (th, th)
    rc, out = coqc_text(txt, "assump_%s" % prop, timeout=300)
    res = {}
    if rc != 0:
        return {"__error__": out[-1500:]}
    for m in re.finditer(r"@@BEGIN (\S+)\n(.*?)@@END", out, re.S):
        res[m.group(1)] = m.group(2).strip()
    return res


# ----------------------------------------------------------------------------------------
# Coq literal printers
# ----------------------------------------------------------------------------------------

def cz(n):
    n = int(n)
    return "(%d)%%Z" % n


def cnat(n):
    return "%d%%nat" % int(n)


def cq(fr):
    """Fraction -> Qc literal."""
    from fractions import Fraction
    fr = Fraction(fr)
    return "(Q2Qc (%d # %d))" % (fr.numerator, fr.denominator)


def cbool(b):
    return "true" if b else "false"


def clist(items):
    return "[" + "; ".join(items) + "]"


def copt(x):
    return "None" if x is None else "(Some %s)" % x


# ----------------------------------------------------------------------------------------
# evidence, findings, replays
# ----------------------------------------------------------------------------------------

def load_findings():
    p = os.path.join(VERIF, "known_findings.json")
    if not os.path.exists(p):
        return []
    return json.load(open(p))["findings"]


def write_replay(prop, payload):
    d = os.path.join(VERIF, "replays", prop)
    os.makedirs(d, exist_ok=True)
    h = hashlib.sha1(json.dumps(payload, sort_keys=True, default=str).encode()).hexdigest()[:10]
    p = os.path.join(d, "%s.json" % h)
    with open(p, "w") as f:
        json.dump(payload, f, indent=1, default=str)      # key order preserved: the order of keys inside an input can be what matters
    return p


def write_evidence(prop, ev):
    d = os.path.join(VERIF, "evidence")
    os.makedirs(d, exist_ok=True)
    with open(os.path.join(d, "%s.json" % prop), "w") as f:
        json.dump(ev, f, indent=1, sort_keys=True, default=str)


def stable_hash(obj):
    return hashlib.sha1(json.dumps(obj, sort_keys=True, default=str).encode()).hexdigest()[:12]
