"""C01 — the analytical solver is the exact flow of the input ODEs for every step size."""
import itertools
import random
import re
from fractions import Fraction

from . import common as C
from . import sysutil as U
from . import c02, c03

PROP = "C01"
PROPS_FILE = "theories/Props/C01.v"
THEOREMS = ["c01_identity_at_zero", "c01_derivative", "c01_blockwise", "c01_unique", "c01_exact_flow", "c01_semigroup", "c01_flags_leave_analytic_untouched"]
GEN_FILES = ["PreserveGen.v"]
ALLOWED_AXIOMS = []
TRUSTED = ["Coq 8.16.1 kernel + vm_compute",
           "algebraic theorems (c01_identity_at_zero, c01_derivative, c01_blockwise) closed under the global context; the real-analysis bridge (c01_unique, c01_exact_flow, c01_semigroup; Coquelicot) depends on the standard library's axioms ClassicalDedekindReals.sig_not_dec, sig_forall_dec, FunctionalExtensionality.functional_extensionality_dep, Classical_Prop.classic",
           "ORACLE (not proved): SymPy's matrix exponential + simplify, per connected component: hypotheses Pk_at_0 / Pk_ode; validated per instance by the 40-digit flow probe",
           "oracle law of scipy connected_components: coupled indices share a label (labels_ok)",
           "correspondence harness (harness/c01.py, sysimpl.run_c01): update expressions evaluated exactly with every propagator symbol bound to an independent rational, vs Model/Propagator.update on the model's own A, b of the analytic sub-system; error outcomes vs the model's acceptance with the predicted propagator pattern; decided in Coq"]
ASSUMPTIONS = ["division -b_r/A_rr defined (ps_law): 'every parameter value at which the expressions are defined'",
               "zero tests are sound in the direction used (an entry skipped as zero is zero)",
               "function-of-time entries are covered by C05; symbolic cyclic couplings that make SymPy return complex forms raise an error (not a wrong answer) and are excluded"]

HEADER = "From Coq Require Import List ZArith QArith Qcanon Bool.\nFrom OdeVerif Require Import Base.Corr Model.Term Model.Split Model.System Model.Graph Model.Propagator Model.SystemExec.\nImport ListNotations.\nDefinition mism := mism_c01.\n"


def T(c, pows):
    return {"c": str(Fraction(c)), "pows": pows}


def corpus():
    """hand-written systems: oscillators (antisymmetric couplings), non-adjacent coupling, repeated
    eigenvalues, nilpotent chain, offsets"""
    out = []
    V = lambda g, e=1: [["v", g], e]
    P = lambda k, e=1: [["p", k], e]
    def mk(entries, params):
        s = {"entries": [], "params": params, "funs": []}
        for nm, order, rhs, ivs in entries:
            s["entries"].append({"name": nm, "order": order, "kind": "ode", "rhs": rhs, "ivs": ivs, "single_iv": True, "gen_kind": "corpus"})
        return s
    out.append(mk([("x", 2, [T(-1, [V(0)])], ["1", "0"])], []))                                   # x'' = -x
    out.append(mk([("x", 1, [T(1, [V(1)])], ["1"]), ("y", 1, [T(-1, [V(0)])], ["0"])], []))       # x'=y, y'=-x
    out.append(mk([("x", 1, [T(-1, [V(0)]), T(2, [V(1)])], ["1"]), ("y", 1, [T(-1, [V(1)]), T(-2, [V(0)])], ["0"])], []))   # damped rotation
    out.append(mk([("x", 1, [T(-1, [V(0)]), T(1, [V(2)])], ["1"]), ("y", 1, [T(-1, [V(1)])], ["2"]), ("z", 1, [T(-1, [V(2)])], ["3"])], []))  # non-adjacent
    out.append(mk([("x", 1, [T(-1, [V(0), P(0, -1)]), T(1, [V(2)])], ["1"]), ("y", 1, [T(-1, [V(1), P(1, -1)])], ["2"]), ("z", 1, [T(-1, [V(2), P(0, -1)])], ["3"])], ["tau", "tau_s"]))
    out.append(mk([("g", 2, [T(-1, [V(0), P(0, -2)]), T(-2, [V(1), P(0, -1)])], ["0", "1"])], ["tau"]))    # alpha kernel
    out.append(mk([("x", 1, [T(1, [V(1)])], ["0"]), ("y", 1, [T(2, [V(2)])], ["1"]), ("z", 1, [], ["1"])], []))       # nilpotent
    out.append(mk([("x", 1, [T(3, [])], ["0"])], []))                                                  # x' = b
    out.append(mk([("x", 1, [T(1, [P(0)]), T(1, [P(1)])], ["0"])], ["a", "b0"]))                       # x' = a + b0  (offset is a sum)
    out.append(mk([("x", 1, [T(2, [P(0)]), T(Fraction(-1, 2), [P(1)]), T(3, [])], ["1"])], ["a", "b0"]))   # x' = 2a - b0/2 + 3
    out.append(mk([("x", 1, [T(-1, [V(0), P(0, -1)]), T(1, [P(1)]), T(1, [P(2)])], ["0"])], ["tau", "E_L", "I_e"]))   # x' = -x/tau + E_L + I_e
    out.append(mk([("x", 1, [T(-1, [V(0), P(0, -1)]), T(1, [P(1)])], ["0"])], ["tau", "E_L"]))        # x' = a x + b
    out.append(mk([("x", 1, [T(-1, [V(0), P(0, -1)]), T(1, [V(1)])], ["0"]), ("y", 1, [T(-2, [V(1)]), T(1, [])], ["0"])], ["tau"]))  # depends on offset eq
    out.append(mk([("x", 1, [T(-1, [V(0), P(0, -1)]), T(1, [P(1)]), T(1, [V(1)])], ["0"]), ("y", 1, [T(-2, [V(1)])], ["1"])], ["tau", "E_L"]))   # offset equation that reads another variable
    out.append(mk([("x", 1, [T(-1, [V(0)]), T(1, []), T(1, [V(2)])], ["0"]), ("y", 1, [T(-1, [V(1)])], ["1"]), ("z", 1, [T(Fraction(-1, 2), [V(2)]), T(1, [V(1)])], ["2"])], []))   # offset + chain z <- y
    out.append(mk([("x", 1, [T(-2, [V(0)]), T(3, [P(0)]), T(1, [V(1)]), T(Fraction(1, 2), [V(2)])], ["0"]), ("y", 1, [T(-1, [V(1)])], ["1"]), ("z", 1, [T(-3, [V(2)])], ["1"])], ["a"]))   # offset + two inputs
    return out


def gen_linear(rng):
    kind = rng.choice(["rand", "rand", "chain", "chain", "fan"])
    if kind == "rand":
        while True:
            s = U.gen_system(rng, max_entries=rng.choice([1, 2, 2, 3]), allow_order=(1, 1, 1, 2), kinds=("lin", "coupled", "off", "lin"), nparams=rng.choice([0, 0, 1, 2]))
            if U.offsets(s)[1] <= 4 and not any(e["order"] > 1 and any(not any(a[0] == "v" for a, _ in t["pows"]) for t in e["rhs"]) for e in s["entries"]):
                return s
    m = rng.randint(2, 4)
    nparams = rng.choice([0, 1, 2, m])
    names = U.pick_names(rng, m)
    params = rng.sample(U.PAR_NAMES, nparams)
    entries = []
    for i in range(m):
        if nparams and rng.random() < 0.7:
            k = rng.randrange(nparams) if rng.random() < 0.6 else min(i, nparams - 1)
            terms = [T(-1, [[["v", i], 1], [["p", k], -1]])]
        else:
            terms = [T(rng.choice([-1, -2, Fraction(-1, 2), -4]), [[["v", i], 1]])]
        if i > 0:
            src = i - 1 if kind == "chain" else 0
            terms.append(T(rng.choice([1, 2, Fraction(1, 2)]), [[["v", src], 1]]))
        if (i == 0 and rng.random() < 0.3) or (i > 0 and rng.random() < 0.25):     # constant offsets, also on equations that read other variables
            terms.append(T(rng.choice([1, 2]), ([[["p", rng.randrange(nparams)], 1]] if nparams and rng.random() < 0.5 else [])))
            if rng.random() < 0.5:
                terms.append(T(rng.choice([3, Fraction(1, 2), -1]), ([[["p", rng.randrange(nparams)], 2]] if nparams and rng.random() < 0.6 else [])))
        entries.append({"name": names[i], "order": 1, "kind": "ode", "rhs": U.merge_terms(terms), "ivs": [U.coef_str(rng.choice(U.DYADIC))], "single_iv": True, "gen_kind": kind})
    return {"entries": entries, "params": params, "funs": []}


def run(ctx):
    rng = random.Random(ctx["seed"] * 9001 + 1)
    quick = ctx["tier"] == "quick"
    systems = corpus()
    for s in list(systems):
        if 2 <= len(s["entries"]) <= 3:
            for p in list(itertools.permutations(range(len(s["entries"]))))[1:]:
                systems.append(c03.permute_system(s, p))
    for _ in range(60 if quick else 600):
        s = gen_linear(rng)
        systems.append(s)
        if len(s["entries"]) in (2, 3) and rng.random() < 0.5:
            allp = list(itertools.permutations(range(len(s["entries"]))))[1:]
            systems.append(c03.permute_system(s, rng.choice(allp)))
    # mixed systems: a nonlinear (numerically solved) variable that READS the linear part is appended (or put in front by a
    # permutation); the analytical solver of the linear part must be unaffected, whatever the flags
    import copy as _copy
    for s in list(systems):
        if rng.random() < (0.3 if quick else 0.25):
            s2 = _copy.deepcopy(s)
            offs_, n_ = U.offsets(s2)
            used = [e["name"] for e in s2["entries"]]
            nm_ = rng.choice([v for v in U.VAR_NAMES + ["V", "V_d", "g_"] if v not in used])
            terms_ = [T(rng.choice([-1, Fraction(-1, 2)]), [[["v", n_], rng.choice([2, 3])]]), T(rng.choice([1, 2]), [[["v", rng.randrange(n_)], 1]])]
            s2["entries"].append({"name": nm_, "order": 1, "kind": "ode", "rhs": U.merge_terms(terms_), "ivs": ["1"], "single_iv": True, "gen_kind": "numeric_reader"})
            if rng.random() < 0.5:
                m_ = len(s2["entries"])
                s2 = c03.permute_system(s2, tuple([m_ - 1] + list(range(m_ - 1))))
            s2["mixed"] = True
            systems.append(s2)
    tasks, meta = [], []
    for k, s in enumerate(systems):
        pt = U.gen_point(s, rng)
        ind = U.render(s, style=rng.choice([0, 1, 2]), rng=random.Random(k))
        flags_ = {}
        q_ = rng.random()
        if q_ < 0.2 or (s.get("mixed") and q_ < 0.6):
            flags_["preserve_expressions"] = True if rng.random() < 0.5 else [e["name"] for e in s["entries"] if e["order"] == 1 and rng.random() < 0.7]
        if rng.random() < 0.15:
            flags_["simplify_expression"] = rng.choice(["sympy.simplify(expr)", "sympy.factor(expr)", "expr"])
        if rng.random() < 0.3:      # a non-default name for the step size (the workers analyse many systems per interpreter, under different names)
            ind.setdefault("options", {})["output_timestep_symbol"] = rng.choice(["dt", "Delta", "h_", "__dt"])
        tasks.append({"fn": "sysimpl.run_c01", "indict": ind, "flags": flags_, "point": c02.point_names(s, pt), "pseed": rng.randint(1, 10 ** 6), "api_timeout": 30, "timeout": 150})
        meta.append((s, pt))
    # the same system analysed several times in ONE interpreter under different names for the step size (and once more
    # under the first name): deterministic counterpart of the workers' sharing
    seq_tasks, seq_meta = [], []
    import copy
    for k in rng.sample(range(len(systems)), min(len(systems), 10 if quick else 60)):
        s, pt = meta[k]
        names_ = rng.sample(["__h", "dt", "Delta", "h_"], 3)
        subs_ = []
        for nm_ in names_ + [names_[0]]:
            ind_ = copy.deepcopy(tasks[k]["indict"])
            ind_.setdefault("options", {})["output_timestep_symbol"] = nm_
            subs_.append(dict(tasks[k], indict=ind_))
        seq_tasks.append({"fn": "sysimpl.run_c01_seq", "subs": subs_, "timeout": 600, "fresh": True})
        seq_meta.append((s, pt))
    allres = C.run_tasks(tasks + seq_tasks, timeout=600)
    res = allres[:len(tasks)]
    for (s, pt), t_, r_ in zip(seq_meta, seq_tasks, allres[len(tasks):]):
        if r_.get("outcome") != "Ok":
            continue
        for pos_, (sub_, rr_) in enumerate(zip(t_["subs"], r_["results"])):
            meta.append((s, pt))
            tasks.append(dict(sub_, sequence=[x_["indict"]["options"]["output_timestep_symbol"] for x_ in t_["subs"][:pos_]]))
            res.append(rr_)
    coq, info, probe_failures, corr_errors = [], [], [], []
    dist = {"api": {}, "n_analytic": {}, "with_offset": 0, "same_interpreter_sequences": len(seq_tasks), "blocks_gt1": 0, "propgen_cases": 0, "probe": {"ok": 0, "skipped": 0, "error": 0}, "kinds": {}}
    nontriv = set()
    samples = []
    for (s, pt), t, r in zip(meta, tasks, res):
        if r.get("outcome") != "Ok":
            dist["api"][str(r.get("outcome"))] = dist["api"].get(str(r.get("outcome")), 0) + 1
            continue
        api = r.get("api")
        dist["api"][api] = dist["api"].get(api, 0) + 1
        for fk_ in (t.get("flags") or {}):
            dist.setdefault("flags", {})[fk_] = dist.setdefault("flags", {}).get(fk_, 0) + 1
        dist["mixed_systems"] = dist.get("mixed_systems", 0) + int(bool(s.get("mixed")))
        for e in s["entries"]:
            dist["kinds"][e.get("gen_kind", "?")] = dist["kinds"].get(e.get("gen_kind", "?"), 0) + 1
        offs, n = U.offsets(s)
        names = [U.var_name(s, gi, "__d") for gi in range(n)]
        if api == "Ok" and "analytic_vars" in r:
            av = r["analytic_vars"]
            keep = [nm in av for nm in names]
            if [nm for nm in names if nm in av] != av:
                corr_errors.append("analytic state_variables not in x order: %s" % av)
                continue
            if any(v is None for v in r["upd"]):
                continue
            if r.get("inexact_floats"):
                dist["inexact_float_constants"] = dist.get("inexact_float_constants", 0) + 1
                pr = r.get("probe", {})
                if "worst" in pr and pr["worst"] > 1e-12:
                    probe_failures.append({"key": "update is not the exact flow: " + C.stable_hash(t["indict"]), "what": "%s | input %s options %s flags %s%s" % (pr["detail"], t["indict"]["dynamics"], t["indict"].get("options"), t.get("flags"), " after analyses of the same input under step-size names %s in the same interpreter" % t["sequence"] if t.get("sequence") else ""), "replay": {"task": t}})
                continue
            qP = []
            okk = True
            for key, val in r["pvals"].items():
                m_ = re.match(r"^__P__(.+)__(.+)$", key)
                rc = None
                for a in av:
                    for b_ in av:
                        if key == "__P__%s__%s" % (a, b_):
                            rc = (av.index(a), av.index(b_))
                if rc is None:
                    okk = False
                else:
                    qP.append("((%d%%nat, %d%%nat), %s)" % (rc[0], rc[1], U.cq(Fraction(val))))
            if not okk:
                probe_failures.append({"key": "propagator key does not name a pair of analytic variables: " + C.stable_hash(t["indict"]), "what": "keys %s, analytic variables %s" % (sorted(r["pvals"]), av), "replay": {"task": t}})
                continue
            coq.append("{| q_n := %d; q_shapes := %s; q_rho := %s; q_keep := %s; q_h := %s; q_P := %s; q_ok := true; q_obs := %s |}" % (
                n, U.cshapes(s), U.crho(s, pt), C.clist([C.cbool(b) for b in keep]), U.cq(Fraction(r["h"])), C.clist(qP), C.clist([U.cq(Fraction(v)) for v in r["upd"]])))
            info.append({"indict": t["indict"], "analytic": av, "update_expressions": r["update_expressions"]})
            dist["n_analytic"][str(len(av))] = dist["n_analytic"].get(str(len(av)), 0) + 1
            hsym_ = (t["indict"].get("options") or {}).get("output_timestep_symbol", "__h")
            dist["step_symbols"] = dist.get("step_symbols", {})
            dist["step_symbols"][hsym_] = dist["step_symbols"].get(hsym_, 0) + 1
            if any(hsym_ + " *" in e or hsym_ + "*" in e for e in r["update_expressions"].values()) or any(not any(a[0] == "v" for a, _ in tm["pows"]) for e in s["entries"] for tm in e["rhs"]):
                dist["with_offset"] += 1
            nontriv.add(C.stable_hash(t["indict"]))
            pr = r.get("probe", {})
            if "worst" in pr:
                dist["probe"]["ok"] += 1
                if pr["worst"] > 1e-12:
                    probe_failures.append({"key": "update is not the exact flow: " + C.stable_hash(t["indict"]),
                                           "what": "%s | input %s options %s flags %s%s" % (pr["detail"], t["indict"]["dynamics"], t["indict"].get("options"), t.get("flags"), " after analyses of the same input under step-size names %s in the same interpreter" % t["sequence"] if t.get("sequence") else ""), "replay": {"task": t}})
            elif "skipped" in pr:
                dist["probe"]["skipped"] += 1
            else:
                dist["probe"]["error"] += 1
            if len(samples) < 3 and len(av) > 1:
                samples.append(info[-1])
        elif api in ("PropGen", "Assert") and "trace" in r and "imaginary" not in r.get("detail", ""):
            keep = [bool(r["trace"]["verdict"].get(nm)) for nm in names]
            if api == "Assert":
                probe_failures.append({"key": "analysis raises AssertionError on a valid linear system: " + C.stable_hash(t["indict"]),
                                       "what": "AssertionError (%s) for %s" % (r.get("detail"), t["indict"]["dynamics"]), "replay": {"task": t}})
                continue
            dist["propgen_cases"] += 1
            coq.append("{| q_n := %d; q_shapes := %s; q_rho := %s; q_keep := %s; q_h := %s; q_P := []; q_ok := false; q_obs := [] |}" % (
                n, U.cshapes(s), U.crho(s, pt), C.clist([C.cbool(b) for b in keep]), U.cq(1)))
            info.append({"indict": t["indict"], "outcome": api, "detail": r.get("detail")})
    # ---- function-of-time and mixed-form inputs (probe only): the expected flow is that of the equivalent equations;
    #      default and non-default time symbol (the function text rewritten accordingly), both step-size names
    import copy as _copy2
    from . import c06 as _c06
    fot_tasks = []
    for F in _c06.FORMULATIONS:
        for tsym in ("t", rng.choice(["T", "s", "time_"])):
            ind_ = _copy2.deepcopy(F["fot"])
            for d_ in ind_["dynamics"]:
                d_["expression"] = re.sub(r"\bt\b", tsym, d_["expression"])
            opts_ = {}
            if tsym != "t":
                opts_["input_time_symbol"] = tsym
            if rng.random() < 0.5:
                opts_["output_timestep_symbol"] = rng.choice(["dt", "h_"])
            if opts_:
                ind_["options"] = opts_
            fot_tasks.append({"fn": "sysimpl.run_c01", "indict": ind_, "reference_indict": F["ode"], "point": {}, "pseed": rng.randint(1, 10 ** 6), "api_timeout": 120, "timeout": 400, "formulation": F["name"]})
    dist["function_of_time_inputs"] = {"tasks": len(fot_tasks), "probed": 0, "rejected": 0}
    for t_, r_ in zip(fot_tasks, C.run_tasks(fot_tasks, timeout=400)):
        if r_.get("outcome") != "Ok" or r_.get("api") != "Ok":
            dist["function_of_time_inputs"]["rejected"] += 1
            if r_.get("api") not in ("PropGen", "Timeout"):
                probe_failures.append({"key": "function-of-time input not analysed: " + C.stable_hash(t_["indict"]), "what": "analysis() gives %s (%s) for %s" % (r_.get("api", r_.get("outcome")), r_.get("detail"), t_["indict"]), "replay": {"task": t_}})
            continue
        pr_ = r_.get("probe", {})
        if "worst" in pr_:
            dist["function_of_time_inputs"]["probed"] += 1
            nontriv.add(C.stable_hash(t_["indict"]))
            if pr_["worst"] > 1e-12:
                probe_failures.append({"key": "update is not the exact flow: " + C.stable_hash(t_["indict"]),
                                       "what": "%s | function-of-time input %s (expected flow: that of %s)" % (pr_["detail"], t_["indict"], t_["reference_indict"]["dynamics"]), "replay": {"task": t_}})
        elif "error" in pr_ or "skipped" in pr_:
            probe_failures.append({"key": "function-of-time input: variables differ from the equivalent equations: " + C.stable_hash(t_["indict"]),
                                   "what": "analytic variables %s returned for %s cannot be matched with %s (%s)" % (r_.get("analytic_vars"), t_["indict"], t_["reference_indict"]["dynamics"], pr_), "replay": {"task": t_}})
    mism, errs = C.coq_eval_shards(PROP, HEADER, coq, per=30)
    corr_errors += errs
    corr_mismatches = [{"layer": "analytic update expressions (propagator symbols bound to independent rationals) vs Model/Propagator.update", "case": info[i]} for i in mism[:8]]
    # failures found in the deterministic same-interpreter sequences first: they replay on their own (a failure of an
    # isolated task that was caused by what its worker had analysed before does not)
    probe_failures.sort(key=lambda pf_: 0 if ((pf_.get("replay") or {}).get("task") or {}).get("sequence") else 1)
    return {"evaluations": len(coq), "distinct_nontrivial": len(nontriv),
            "rule": "hand-written corpus (oscillators, antisymmetric/damped couplings, non-adjacent coupling, repeated eigenvalues, nilpotent chain, both offset forms, dependence on an offset equation) with all entry permutations + random linear systems (random couplings, chains, fans, symbolic/numeric decay constants, offsets); distinct by hash of the input; non-trivial = an analytical solver was returned and compared",
            "samples": samples, "distribution": dist,
            "layers": {"L1 update expressions / error outcome (exact, in Coq)": len(coq), "probe: 40-digit flow, identity at 0, two-step law": dist["probe"]["ok"]},
            "corr_mismatches": corr_mismatches, "corr_errors": corr_errors, "probe_failures": probe_failures}


def replay(payload):
    rp = payload.get("replay") or {}
    if "task" not in rp:
        return True, "replay file names a broken obligation (no concrete input): " + str(payload.get("no_longer_checks"))[:500]
    task = dict(rp["task"], api_timeout=120, timeout=300)
    if task.get("sequence"):
        import copy
        subs = []
        for nm in task["sequence"]:
            ind = copy.deepcopy(task["indict"])
            ind.setdefault("options", {})["output_timestep_symbol"] = nm
            subs.append(dict(task, indict=ind))
        r = C.run_tasks([{"fn": "sysimpl.run_c01_seq", "subs": subs + [task], "timeout": 900, "fresh": True}], timeout=900)[0]
        r = r["results"][-1] if r.get("outcome") == "Ok" else r
    else:
        r = C.run_tasks([task], timeout=300)[0]
    if r.get("api") == "Assert":
        return False, "AssertionError: %s" % r.get("detail")
    pr = r.get("probe", {})
    if "worst" in pr:
        return pr["worst"] <= 1e-12, "worst relative deviation from the exact flow: %s (%s)" % (pr["worst"], pr.get("detail"))
    return True, "no analytical solver returned (%s)" % r.get("api")
