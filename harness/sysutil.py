"""Abstract ODE systems shared by C01-C04, C06, C08, C10: random generation, rendering into
toolbox input (several spellings), exact evaluation, printing as Coq terms.

Abstract system:
  {"entries": [{"name": str, "order": int, "kind": "ode"|"fot", "rhs": [term], "ivs": [str], ...}],
   "params": [str], "funs": [{"expr": str, "deps": [atom]}]}
  term = {"c": "p/q" (Fraction string), "pows": [[atom, e], ...]};  atom = ["v", gi] | ["p", k] | ["t"] | ["f", id]
  gi = global state index (entry offset + derivative order)."""
import random
from fractions import Fraction

VAR_NAMES = ["x", "y", "z", "w", "V_m", "g_ex", "I_syn", "u1", "h", "r_2"]
# names related as strings: one a prefix of another, names ending in the characters of the derivative marker ("_", "d")
NAME_FAMILIES = [["V", "V_syn", "V_d", "V_"], ["g", "g_nmda", "g_d", "gd"], ["w", "w_ad", "w_", "wd_d"], ["I", "I_aux", "I_d"]]


def pick_names(rng, m):
    """m distinct variable names; in about a third of the draws two or more of them come from one family of related names"""
    if m >= 2 and rng.random() < 0.35:
        fam = rng.choice(NAME_FAMILIES)
        k = rng.randint(2, min(m, len(fam)))
        names = rng.sample(fam, k)
        names += rng.sample([v for v in VAR_NAMES if v not in names], m - k)
        rng.shuffle(names)
        return names
    if rng.random() < 0.15:
        return rng.sample(VAR_NAMES + [f[i] for f in NAME_FAMILIES for i in (1, 2) if f[i] not in VAR_NAMES], m)
    return rng.sample(VAR_NAMES, m)
PAR_NAMES = ["tau", "a", "b0", "C_m", "k_1", "E_L", "tau_s", "q"]
DYADIC = [1, -1, 2, -2, 3, -3, Fraction(1, 2), Fraction(-1, 2), Fraction(1, 4), Fraction(-3, 2), Fraction(5, 8), Fraction(-3, 4), 5, -7, 10, 100, -10, 20, 1000, 11]


def offsets(system):
    offs, o = [], 0
    for e in system["entries"]:
        offs.append(o)
        o += e["order"]
    return offs, o


def var_name(system, gi, marker="'"):
    offs, n = offsets(system)
    for e, o in zip(system["entries"], offs):
        if o <= gi < o + e["order"]:
            return e["name"] + marker * (gi - o)
    raise KeyError(gi)


def atom_str(system, a, marker="'"):
    if a[0] == "v":
        return var_name(system, a[1], marker)
    if a[0] == "p":
        return system["params"][a[1]]
    if a[0] == "t":
        return system.get("time_symbol", "t")
    if a[0] == "f":
        x = system["funs"][a[1]]["expr"]
        return "(%s)" % x if any(ch in x for ch in "+-/* ") and not (x.endswith(")") and x.count("(") == 1 and x.index("(") > 0 and "/" not in x and "*" not in x.replace("**", "")) else x
    raise ValueError(a)


def coef_str(c):
    c = Fraction(c)
    if c != 0 and abs(c) < Fraction(1, 10 ** 9):
        return repr(float(c))            # very small coefficients are written as float literals in scientific notation (SI units)
    if c.denominator == 1:
        return str(c.numerator)
    return "%d/%d" % (c.numerator, c.denominator)


def term_str(system, t, style=0):
    c = Fraction(t["c"])
    num, den = [], []
    for a, e in t["pows"]:
        s = atom_str(system, a)
        if a[0] == "f":
            s = "(" + s + ")" if not s.endswith(")") else s
        if e > 0:
            num.append(s if e == 1 else "%s**%d" % (s, e))
        elif style == 1:
            num.append("%s**(%d)" % (s, e))
        else:
            den.append(s if e == -1 else "%s**%d" % (s, -e))
    body = "*".join(num) if num else ""
    cs = coef_str(abs(c))
    if style == 2 and abs(c).denominator != 1:
        # coefficient split into numerator and denominator
        body = (("%d*" % abs(c).numerator if abs(c).numerator != 1 else "") + body) if body else "%d" % abs(c).numerator
        den = ["%d" % abs(c).denominator] + den
        cs = None
    if cs is not None:
        if body:
            body = body if cs == "1" else cs + "*" + body
        else:
            body = cs
    if den:
        body = body + "/" + ("(" + "*".join(den) + ")" if len(den) > 1 else den[0])
    return ("-" if c < 0 else "+"), body


def rhs_str(system, terms, style=0, rng=None):
    if not terms:
        return "0"
    ts = list(terms)
    if rng is not None:
        rng.shuffle(ts)
    out = ""
    for k, t in enumerate(ts):
        sg, body = term_str(system, t, style)
        if k == 0:
            out += ("-" if sg == "-" else "") + body
        else:
            out += " %s %s" % (sg, body)
    return out


def iv_dict(e, rng=None):
    """the initial_values dictionary of an entry; for order >= 2 the keys are listed in a random order half of the time
    (the input format does not prescribe one)"""
    ks = list(range(e["order"]))
    if rng is not None and e["order"] >= 2 and random.Random(rng.random()).random() < 0.5:
        random.Random(rng.random()).shuffle(ks)
        if ks == sorted(ks):
            ks.reverse()
    return {e["name"] + "'" * k: e["ivs"][k] for k in ks}


def render(system, style=0, rng=None, options=None, parameters=None):
    """-> toolbox input dictionary"""
    dyn = []
    for e in system["entries"]:
        lhs = e["name"] + "'" * (e["order"] if e["kind"] == "ode" else 0)
        if e["kind"] == "ode":
            d = {"expression": "%s = %s" % (lhs, rhs_str(system, e["rhs"], style, rng))}
            if e["order"] == 1 and e.get("single_iv", True):
                d["initial_value"] = e["ivs"][0]
            else:
                d["initial_values"] = iv_dict(e, rng)
        else:
            d = {"expression": "%s = %s" % (e["name"], e["fexpr"])}
        for b in ("upper_bound", "lower_bound"):
            if b in e:
                d[b] = e[b]
        dyn.append(d)
    ind = {"dynamics": dyn}
    if options:
        ind["options"] = dict(options)
    if system.get("time_symbol", "t") != "t":
        ind.setdefault("options", {})["input_time_symbol"] = system["time_symbol"]
    if parameters is not None:
        ind["parameters"] = parameters
    return ind


# ---------------------------------------------------------------------------------------
# exact evaluation
# ---------------------------------------------------------------------------------------

def gen_point(system, rng):
    """random rational valuation: name -> Fraction (variables incl. derivatives, parameters, t, __h)"""
    offs, n = offsets(system)
    pt = {}
    for gi in range(n):
        pt[("v", gi)] = Fraction(rng.randint(-9, 9) or 2, rng.choice([1, 2, 3, 5, 7]))
    for k in range(len(system["params"])):
        pt[("p", k)] = Fraction(rng.randint(1, 9), rng.choice([1, 2, 3, 5, 7])) * rng.choice([1, 1, -1])
    pt[("t",)] = Fraction(rng.randint(1, 9), rng.choice([2, 3, 5]))
    return pt


def eval_term(t, pt, fvals=None):
    v = Fraction(t["c"])
    for a, e in t["pows"]:
        base = fvals[a[1]] if a[0] == "f" else pt[tuple(a)]
        v *= Fraction(base) ** e
    return v


def eval_poly(terms, pt, fvals=None):
    return sum((eval_term(t, pt, fvals) for t in terms), Fraction(0))


def sympy_point(system, pt, marker="__d", extra=None):
    """{sympy.Symbol: sympy.Rational} for evaluating implementation output"""
    import sympy
    offs, n = offsets(system)
    d = {}
    for gi in range(n):
        d[sympy.Symbol(var_name(system, gi, marker))] = sympy.Rational(pt[("v", gi)].numerator, pt[("v", gi)].denominator)
    for k, nm in enumerate(system["params"]):
        d[sympy.Symbol(nm)] = sympy.Rational(pt[("p", k)].numerator, pt[("p", k)].denominator)
    d[sympy.Symbol(system.get("time_symbol", "t"))] = sympy.Rational(pt[("t",)].numerator, pt[("t",)].denominator)
    if extra:
        d.update(extra)
    return d


def exact_eval(expr, subs):
    """Evaluate a sympy expression exactly: Float atoms are replaced by their exact binary value
    first.  Returns a Fraction or None if the result is not a rational number."""
    import sympy
    expr = sympy.sympify(expr)
    fl = {f: sympy.Rational(*f.as_integer_ratio()) if hasattr(f, "as_integer_ratio") else sympy.Rational(str(f)) for f in expr.atoms(sympy.Float)}
    if fl:
        fl = {f: sympy.Rational(*float(f).as_integer_ratio()) for f in fl}
        expr = expr.xreplace(fl)
    v = expr.xreplace(subs)
    v = sympy.nsimplify(v) if v.atoms(sympy.Float) else v
    try:
        v = sympy.simplify(v) if not v.is_Rational else v
    except Exception:
        pass
    if getattr(v, "is_Rational", False):
        return Fraction(int(v.p), int(v.q))
    return None


# ---------------------------------------------------------------------------------------
# Coq printing
# ---------------------------------------------------------------------------------------

def cq(fr):
    fr = Fraction(fr)
    return "(Q2Qc (%d # %d))" % (fr.numerator, fr.denominator)


def catom(a):
    if a[0] == "v":
        return "(AVar %d)" % a[1]
    if a[0] == "p":
        return "(APar %d)" % a[1]
    if a[0] == "t":
        return "ATime"
    return "(AFun %d)" % a[1]


def cterm(t):
    return "(mkTerm %s [%s])" % (cq(t["c"]), "; ".join("(%s, (%d)%%Z)" % (catom(a), e) for a, e in t["pows"]))


def cpoly(terms):
    return "[" + "; ".join(cterm(t) for t in terms) + "]"


def cshapes(system):
    offs, n = offsets(system)
    out = []
    for e, o in zip(system["entries"], offs):
        if e["kind"] == "ode":
            d = "(ODE %s)" % cpoly(e["rhs"])
        else:
            d = "(FOT [%s])" % "; ".join(cpoly(f) for f in e["factors"])
        out.append("(mkShape %d %d %s)" % (o, e["order"], d))
    return "[" + "; ".join(out) + "]"


def crho(system, pt, fvals=None):
    items = ["(%s, %s)" % (catom(list(k)), cq(v)) for k, v in pt.items()]
    for i, v in enumerate(fvals or []):
        items.append("(AFun %d, %s)" % (i, cq(v)))
    return "[" + "; ".join(items) + "]"


def cfdeps(system):
    return "[" + "; ".join("(%d%%nat, [%s])" % (i, "; ".join(catom(a) for a in f["deps"])) for i, f in enumerate(system.get("funs", []))) + "]"


# ---------------------------------------------------------------------------------------
# random generation
# ---------------------------------------------------------------------------------------

CONST_FUNS = ["e", "log(2)", "sqrt(2)", "exp(-1)", "sqrt(3)/2", "E**2"]      # symbol-free constants that are not number literals


def rand_coef(rng, nparams, allow_par=True, nfuns=0, tiny=False):
    c = Fraction(rng.choice(DYADIC))
    if tiny and rng.random() < 0.12:
        c *= Fraction(1, 10 ** rng.choice([16, 18, 21]))
    pows = []
    if nfuns and rng.random() < 0.4:
        pows.append([["f", rng.randrange(nfuns)], 1])
    if allow_par and nparams and rng.random() < 0.6:
        k = rng.randrange(nparams)
        pows.append([["p", k], rng.choice([-1, -1, 1, -2, 2])])
        if nparams > 1 and rng.random() < 0.25:
            k2 = rng.choice([j for j in range(nparams) if j != k])
            pows.append([["p", k2], rng.choice([-1, 1])])
    return c, pows


def merge_terms(terms):
    """canonical: distinct monomials, no zero coefficients; atoms sorted inside each monomial"""
    acc = {}
    for t in terms:
        pw = {}
        for a, e in t["pows"]:
            pw[tuple(a)] = pw.get(tuple(a), 0) + e
        key = tuple(sorted((k, e) for k, e in pw.items() if e != 0))
        acc[key] = acc.get(key, Fraction(0)) + Fraction(t["c"])
    return [{"c": str(c), "pows": [[list(a), e] for a, e in key]} for key, c in acc.items() if c != 0]


def gen_system(rng, max_entries=4, kinds=("lin", "lin", "off", "nonlin", "time", "coupled"), allow_order=(1, 1, 1, 2, 2, 3),
               nparams=None, iv_params=True, const_funs=False):
    m = rng.randint(1, max_entries)
    names = pick_names(rng, m)
    nparams = rng.randint(0, 3) if nparams is None else nparams
    params = rng.sample(PAR_NAMES, nparams)
    entries = []
    for i in range(m):
        entries.append({"name": names[i], "order": rng.choice(allow_order), "kind": "ode"})
    system = {"entries": entries, "params": params, "funs": []}
    if const_funs and rng.random() < 0.25:
        # coefficients and offsets that are symbol-free constants but not number literals (e, log(2), sqrt(2), ...)
        system["funs"] = [{"expr": x, "deps": []} for x in rng.sample(CONST_FUNS, rng.randint(1, 2))]
    _nf = len(system["funs"])
    if "time" in kinds and rng.random() < 0.3:
        system["time_symbol"] = rng.choice(["T", "time_", "s"])
    offs, n = offsets(system)
    for i, e in enumerate(entries):
        kind = rng.choice(kinds)
        e["gen_kind"] = kind
        terms = []
        # own linear part
        for d in range(e["order"]):
            if rng.random() < 0.8:
                c, pw = rand_coef(rng, nparams, nfuns=_nf, tiny=const_funs)
                terms.append({"c": str(c), "pows": pw + [[["v", offs[i] + d], 1]]})
        # couplings (linear in other variables)
        if m > 1 and (kind == "coupled" or rng.random() < 0.45):
            for _ in range(rng.randint(1, 2)):
                j = rng.choice([k for k in range(m) if k != i])
                gj = offs[j] + rng.randrange(entries[j]["order"])
                c, pw = rand_coef(rng, nparams, nfuns=_nf, tiny=const_funs)
                terms.append({"c": str(c), "pows": pw + [[["v", gj], 1]]})
        if kind == "off" and e["order"] == 1 or rng.random() < 0.12:
            c, pw = rand_coef(rng, nparams, nfuns=_nf, tiny=const_funs)
            terms.append({"c": str(c), "pows": pw})
        if kind == "nonlin":
            for _ in range(rng.randint(1, 2)):
                g1 = rng.randrange(n)
                g2 = rng.randrange(n)
                c, pw = rand_coef(rng, nparams, nfuns=_nf, tiny=const_funs)
                q = rng.random()
                if q < 0.4:
                    vp = [[["v", g1], 2]] if g1 == g2 else [[["v", g1], 1], [["v", g2], 1]]
                elif q < 0.6:
                    vp = [[["v", g1], rng.choice([2, 3])]]
                elif q < 0.8:
                    vp = [[["v", g1], -1]]
                else:
                    vp = [[["v", g1], 2], [["v", g2], -1]] if g1 != g2 else [[["v", g1], 3]]
                terms.append({"c": str(c), "pows": pw + vp})
        if kind == "time":
            c, pw = rand_coef(rng, nparams, nfuns=_nf, tiny=const_funs)
            q = rng.random()
            if q < 0.4:
                terms.append({"c": str(c), "pows": pw + [[["t"], 1], [["v", offs[i]], 1]]})
            elif q < 0.7:
                terms.append({"c": str(c), "pows": pw + [[["t"], rng.choice([1, 2])]]})
            else:
                terms.append({"c": str(c), "pows": pw + [[["t"], -1], [["v", rng.randrange(n)], 1]]})
        e["rhs"] = merge_terms(terms)
        if const_funs:
            # a tiny coefficient that only ADDS to a much larger coefficient of the same state-variable monomial is below the
            # resolution of double precision (SymPy's simplify drops it, as evaluating the sum in doubles would): keep tiny
            # coefficients on monomials of their own only
            def vsig(t_):
                return tuple(sorted((tuple(a), ex) for a, ex in t_["pows"] if a[0] == "v"))
            for t_ in e["rhs"]:
                if Fraction(t_["c"]) != 0 and abs(Fraction(t_["c"])) < Fraction(1, 10 ** 9) and any(o_ is not t_ and vsig(o_) == vsig(t_) for o_ in e["rhs"]):
                    c_ = Fraction(t_["c"])
                    while abs(c_) < Fraction(1, 10 ** 3):
                        c_ *= 1000
                    t_["c"] = str(c_)
        ivs = []
        for d in range(e["order"]):
            if iv_params and nparams and rng.random() < 0.25:
                ivs.append("%s*%s" % (coef_str(rng.choice(DYADIC)), params[rng.randrange(nparams)]))
            else:
                ivs.append(coef_str(rng.choice(DYADIC + [0, 0])))
        e["ivs"] = ivs
        e["single_iv"] = rng.random() < 0.7
    return system


# ---------------------------------------------------------------------------------------
# algebraically equivalent spellings of one canonical right-hand side (C04, C06)
# ---------------------------------------------------------------------------------------

def _mul_term(t, pows):
    acc = {}
    for a, e in t["pows"] + pows:
        acc[tuple(a) if isinstance(a, list) else a] = acc.get(tuple(a) if isinstance(a, list) else a, 0) + e
    return {"c": t["c"], "pows": [[list(a), e] for a, e in acc.items() if e != 0]}


def float_coef_term_str(system, t, rng):
    c = Fraction(t["c"])
    sg, body = term_str(system, {"c": "1", "pows": t["pows"]}, 0)
    f = float(abs(c))
    fs = rng.choice(["%r" % f, "%.4f" % f, "%.3e" % f]) if Fraction(float("%.4f" % f)) == abs(c) and Fraction(float("%.3e" % f)) == abs(c) else "%r" % f
    if body == "1":
        body = fs
    else:
        body = fs + "*" + body
    return ("-" if c < 0 else "+"), body


def join_signed(parts):
    out = ""
    for k, (sg, body) in enumerate(parts):
        if k == 0:
            out += ("-" if sg == "-" else "") + body
        else:
            out += " %s %s" % (sg, body)
    return out or "0"


def spell(system, terms, style, rng):
    """style 0..6 ; all mathematically equal to the canonical polynomial `terms`"""
    terms = list(terms)
    rng.shuffle(terms)
    if not terms:
        return "0"
    if style in (0, 1, 2):
        return rhs_str(system, terms, style)
    if style == 3:      # common denominator over the parameters with negative exponents
        mins = {}
        for t in terms:
            for a, e in t["pows"]:
                if a[0] == "p" and e < 0:
                    mins[tuple(a)] = min(mins.get(tuple(a), 0), e)
        if not mins:
            return "(" + rhs_str(system, terms, 0) + ")"
        D = [[list(a), -e] for a, e in mins.items()]
        num = [_mul_term(t, D) for t in terms]
        den = "*".join(("%s**%d" % (atom_str(system, a), e)) if e != 1 else atom_str(system, a) for a, e in D)
        return "(" + rhs_str(system, num, 0) + ")/(" + den + ")"
    if style == 4:      # nested parentheses with a leading minus
        if len(terms) < 2:
            return "(((" + rhs_str(system, terms, 0) + ")))"
        k = len(terms) // 2
        neg = [{"c": str(-Fraction(t["c"])), "pows": t["pows"]} for t in terms[:k]]
        return "-(" + rhs_str(system, neg, 0) + ") + ((" + rhs_str(system, terms[k:], 0) + "))"
    if style == 5:      # float literals
        return join_signed([float_coef_term_str(system, t, rng) for t in terms])
    if style == 6:      # collect the terms linear in one state variable: x*(c1 + c2) + rest
        groups, rest = {}, []
        for t in terms:
            vs = [(a, e) for a, e in t["pows"] if a[0] == "v"]
            others = [(a, e) for a, e in t["pows"] if a[0] in ("t", "f")]
            if len(vs) == 1 and vs[0][1] == 1 and not others:
                groups.setdefault(vs[0][0][1], []).append({"c": t["c"], "pows": [[a, e] for a, e in t["pows"] if a[0] != "v"]})
            else:
                rest.append(t)
        parts = []
        for gi, cof in groups.items():
            parts.append(("+", "%s*(%s)" % (var_name(system, gi), rhs_str(system, cof, 0))))
        for t in rest:
            parts.append(term_str(system, t, 0))
        return join_signed(parts)
    raise ValueError(style)


def render_spelled(system, style, rng, entry_perm=None):
    dyn = []
    order = list(range(len(system["entries"]))) if entry_perm is None else list(entry_perm)
    for i in order:
        e = system["entries"][i]
        if e["kind"] == "ode":
            d = {"expression": "%s%s = %s" % (e["name"], "'" * e["order"], spell(system, e["rhs"], style, rng))}
            if e["order"] == 1 and e.get("single_iv", True):
                d["initial_value"] = e["ivs"][0]
            else:
                d["initial_values"] = iv_dict(e, rng)
        else:
            d = {"expression": "%s = %s" % (e["name"], e["fexpr"])}
        dyn.append(d)
    ind = {"dynamics": dyn}
    if system.get("time_symbol", "t") != "t":
        ind["options"] = {"input_time_symbol": system["time_symbol"]}
    return ind
