"""C03 — solver partition is an exact cover; analytic membership is sound and closed."""
import itertools
import random
from fractions import Fraction

from . import common as C
from . import sysutil as U

PROP = "C03"
PROPS_FILE = "theories/Props/C03.v"
THEOREMS = ["c03_worklist_is_gfp", "c03_propagate_judgements", "c03_closed", "c03_exact_cover", "c03_sound", "c03_worklist_total", "c03_analytic_updates_read_analytic_only"]
GEN_FILES = []
TRUSTED = ["Coq 8.16.1 kernel + vm_compute",
           "theorems closed under the global context",
           "correspondence harness (harness/c03.py, sysutil.py, sysimpl.py): per-variable verdict of the implementation (public API partition; hook H1 / internal pipeline when exponentiation raises or times out) vs Model/Graph.verdicts, and SystemOfShapes.propagate_lin_cc_judgements called directly vs Model/Graph.propagate_judgements; both decided in Coq",
           "modelled not verified: SymPy expand/_is_zero on canonical Laurent polynomials (model: term lists with distinct monomials, zero = empty list); scipy strongly-connected components (model: own reachability closure)"]
ASSUMPTIONS = ["inputs are canonical Laurent polynomials (distinct monomials), so 'is zero' is 'has no terms'",
               "worklist: partial correctness (gfp characterisation) and termination within the fuel 2n+1 are both proved"]

HEADER_V = "From Coq Require Import List ZArith QArith Qcanon Bool.\nFrom OdeVerif Require Import Base.Corr Model.Term Model.Split Model.System Model.Graph Model.SystemExec.\nImport ListNotations.\nDefinition mism := mism_verdict.\n"
HEADER_P = HEADER_V.replace("mism_verdict", "mism_prop")


def term_free_vars(system, t):
    vs, tm = set(), False
    for a, e in t["pows"]:
        if a[0] == "v":
            vs.add(a[1])
        elif a[0] == "t":
            tm = True
        elif a[0] == "f":
            for d in system["funs"][a[1]]["deps"]:
                if d[0] == "v":
                    vs.add(d[1])
                elif d[0] == "t":
                    tm = True
    return vs, tm


def affine_cc(system, terms):
    """independent criterion on the abstract right-hand side"""
    for t in terms:
        vs, tm = term_free_vars(system, t)
        if tm:
            return False
        if not vs:
            continue
        lin = [a for a, e in t["pows"] if a[0] == "v"]
        if len(lin) == 1 and dict((tuple(a), e) for a, e in t["pows"])[("v", lin[0][1])] == 1 and len(vs) == 1:
            continue
        return False
    return True


def deps_of(system, gi):
    """state variables the defining equation of x_gi refers to"""
    offs, n = U.offsets(system)
    for e, o in zip(system["entries"], offs):
        if o <= gi < o + e["order"]:
            if gi < o + e["order"] - 1:
                return {gi + 1}
            if e["kind"] == "fot":
                return set(range(o, o + e["order"]))
            s = set()
            for t in e["rhs"]:
                s |= term_free_vars(system, t)[0]
            return s
    return set()


def probe_partition(system, api, names):
    """cover, soundness, closure, no numeric symbol in analytic updates; returns list of (key, what)"""
    fails = []
    offs, n = U.offsets(system)
    allv = []
    for s in api["solvers"]:
        allv += s["state_variables"]
        if set(s["update_expressions"]) != set(s["state_variables"]) or set(s["initial_values"]) != set(s["state_variables"]):
            fails.append(("cover", "solver %s: keys of update_expressions/initial_values differ from state_variables" % s["solver"]))
    if sorted(allv) != sorted(names):
        fails.append(("cover", "state variables across solvers %s != expected %s" % (sorted(allv), sorted(names))))
        return fails
    analytic = set()
    for s in api["solvers"]:
        if s["solver"] == "analytical":
            analytic |= set(names.index(v) for v in s["state_variables"])
    for gi in sorted(analytic):
        for e, o in zip(system["entries"], offs):
            if gi == o + e["order"] - 1 and e["kind"] == "ode" and not affine_cc(system, e["rhs"]):
                fails.append(("sound", "%s is solved analytically but its equation is not linear with constant (state- and time-free) coefficients: %s" % (names[gi], U.rhs_str(system, e["rhs"]))))
        for w in deps_of(system, gi):
            if w not in analytic:
                fails.append(("closed", "%s is solved analytically but depends on %s which is not" % (names[gi], names[w])))
    import re
    for s in api["solvers"]:
        if s["solver"] == "analytical":
            for v, ex in s["update_expressions"].items():
                toks = set(re.findall(r"[A-Za-z_][A-Za-z_0-9]*", ex))
                for gi in range(n):
                    if gi not in analytic and names[gi] in toks:
                        fails.append(("closed", "analytic update of %s mentions numerically solved %s" % (v, names[gi])))
    return fails


def probe_verdict(system, verdict, names):
    """soundness and closure of the analytic set the toolbox chose (hook H1 / internal pipeline), for runs in which
    analysis() then failed to return a partition"""
    fails = []
    offs, n = U.offsets(system)
    analytic = set(gi for gi in range(n) if verdict[gi])
    for gi in sorted(analytic):
        for e, o in zip(system["entries"], offs):
            if gi == o + e["order"] - 1 and e["kind"] == "ode" and not affine_cc(system, e["rhs"]):
                fails.append(("sound", "%s is chosen for the analytical solver but its equation is not linear with constant coefficients: %s" % (names[gi], U.rhs_str(system, e["rhs"]))))
        for w in deps_of(system, gi):
            if w not in analytic:
                fails.append(("closed", "%s is chosen for the analytical solver but depends on %s which is not" % (names[gi], names[w])))
    return fails


def gen_graph_case(rng, n):
    m = [rng.random() < 0.7 for _ in range(n)]
    E = []
    shape = rng.choice(["random", "chain", "cycle", "fan", "dense"])
    if shape == "chain":
        E = [(i + 1, i) for i in range(n - 1)]
    elif shape == "cycle":
        E = [((i + 1) % n, i) for i in range(n)]
    elif shape == "fan":
        E = [(i, 0) for i in range(1, n)] + [(0, n - 1)] * int(rng.random() < 0.3)
    p = {"random": 0.2, "dense": 0.5}.get(shape, 0.08)
    for a in range(n):
        for b in range(n):
            if rng.random() < p:
                E.append((a, b))
    rng.shuffle(E)
    return {"m": m, "E": E}


def run(ctx):
    rng = random.Random(ctx["seed"] * 2003 + 3)
    quick = ctx["tier"] == "quick"
    nsys = 150 if quick else 2500
    systems = []
    for k in range(nsys):
        s = U.gen_system(rng, max_entries=rng.choice([1, 2, 3, 3, 4]), allow_order=(1, 1, 1, 2, 2, 3), const_funs=True)
        if U.offsets(s)[1] <= 7:
            systems.append(s)
    # every entry order for small systems
    perms = []
    for s in systems[: (12 if quick else 150)]:
        if 2 <= len(s["entries"]) <= 3:
            for p in list(itertools.permutations(range(len(s["entries"]))))[1:]:
                perms.append(permute_system(s, p))
    systems += perms
    tasks = []
    for k, s in enumerate(systems):
        q = rng.random()
        pars = None
        if s["params"] and q < 0.5:
            keep = list(s["params"]) if q < 0.2 else [p for p in s["params"] if rng.random() < 0.5]
            pars = {p: repr(rng.choice([0.5, 1.5, 2.0])) for p in keep}
        tasks.append({"fn": "sysimpl.run_verdict", "indict": U.render(s, style=rng.choice([0, 1, 2]), rng=random.Random(k), parameters=pars), "api_timeout": 12, "timeout": 40})
    gcases = [gen_graph_case(rng, rng.randint(1, 12)) for _ in range(600 if quick else 6000)]
    # small scope, exhaustively: every judgement vector x every edge set (self-loops included) on up to 2 (quick) / 3 (thorough) nodes
    exhaustive = []
    for n_ in range(1, 3 if quick else 4):
        pairs_ = [(a, b) for a in range(n_) for b in range(n_)]
        for mbits in range(2 ** n_):
            for ebits in range(2 ** len(pairs_)):
                exhaustive.append({"m": [bool(mbits >> i & 1) for i in range(n_)], "E": [pr for j, pr in enumerate(pairs_) if ebits >> j & 1]})
    gcases += exhaustive
    gchunks = [gcases[i::8] for i in range(8)]
    gtasks = [{"fn": "sysimpl.run_propagate", "cases": ch} for ch in gchunks]
    allres = C.run_tasks(tasks + gtasks, timeout=40)
    results, gres = allres[:len(tasks)], allres[len(tasks):]
    coq_v, info_v, probe_failures, corr_errors = [], [], [], []
    dist = {"api_outcomes": {}, "verdict_source": {"api": 0, "trace": 0, "internal": 0}, "n_vars": {}, "analytic_sizes": {}, "kinds": {}, "mixed_partitions": 0,
            "permuted_twins": len(perms)}
    nontriv = set()
    samples = []
    for s, t, r in zip(systems, tasks, results):
        if r.get("outcome") != "Ok":
            dist["api_outcomes"][str(r.get("outcome"))] = dist["api_outcomes"].get(str(r.get("outcome")), 0) + 1
            continue
        offs, n = U.offsets(s)
        names = [U.var_name(s, gi, "__d") for gi in range(n)]
        api = r.get("api", {})
        dist["api_outcomes"][api.get("outcome")] = dist["api_outcomes"].get(api.get("outcome"), 0) + 1
        dist["n_vars"][str(n)] = dist["n_vars"].get(str(n), 0) + 1
        for e in s["entries"]:
            dist["kinds"][e.get("gen_kind", "?")] = dist["kinds"].get(e.get("gen_kind", "?"), 0) + 1
        verdict = None
        if api.get("outcome") == "Ok":
            an = set()
            for so in api["solvers"]:
                if so["solver"] == "analytical":
                    an |= set(so["state_variables"])
            verdict = [nm in an for nm in names]
            dist["verdict_source"]["api"] += 1
            for key, what in probe_partition(s, api, names):
                kk = "analytic although time-dependent" if (key == "sound" and "t" in what.split(": ")[-1].replace("tau", "")) else key
                probe_failures.append({"key": "%s: %s" % (key, C.stable_hash(t["indict"])), "what": what + " | input %s" % t["indict"]["dynamics"], "replay": {"indict": t["indict"], "system": s}})
            iv = r.get("internal", {})
            if "verdict" in iv and iv["x"] == names and iv["verdict"] != verdict:
                corr_errors.append("API partition %s differs from the internal verdict %s for %s" % (verdict, iv["verdict"], t["indict"]))
        elif "trace" in r and r["trace"]["x"] == names:
            verdict = [bool(r["trace"]["verdict"][nm]) for nm in names]
            dist["verdict_source"]["trace"] += 1
            for key, what in probe_verdict(s, verdict, names):
                probe_failures.append({"key": "%s (no partition returned: %s): %s" % (key, api.get("outcome"), C.stable_hash(t["indict"])),
                                       "what": what + "; analysis() then fails with %s | input %s" % (api.get("outcome"), t["indict"]["dynamics"]), "replay": {"indict": t["indict"], "system": s, "source": "trace"}})
        elif "verdict" in r.get("internal", {}) and r["internal"]["x"] == names and not r["internal"].get("inhomogeneous_higher_order"):
            verdict = r["internal"]["verdict"]
            dist["verdict_source"]["internal"] += 1
        if verdict is None:
            continue
        k = sum(verdict)
        dist["analytic_sizes"][str(k)] = dist["analytic_sizes"].get(str(k), 0) + 1
        if 0 < k < n:
            dist["mixed_partitions"] += 1
        coq_v.append("{| v_n := %d; v_fdeps := %s; v_shapes := %s; v_obs := %s |}" % (n, U.cfdeps(s), U.cshapes(s), C.clist([C.cbool(b) for b in verdict])))
        info_v.append({"indict": t["indict"], "verdict": dict(zip(names, verdict))})
        if n > 1:
            nontriv.add(C.stable_hash(t["indict"]))
        if len(samples) < 3 and 0 < k < n:
            samples.append(info_v[-1])
    coq_p, info_p = [], []
    for ci, r in enumerate(gres):
        if r.get("outcome") != "Ok":
            corr_errors.append("propagate worker failed: %s" % str(r)[:300])
            continue
        for c, o in zip(gchunks[ci], r["outs"]):
            coq_p.append("{| p_m := %s; p_E := %s; p_obs := %s |}" % (C.clist([C.cbool(b) for b in c["m"]]),
                         C.clist(["(%d%%nat, %d%%nat)" % (a, b) for a, b in c["E"]]), C.clist([C.cbool(b) for b in o])))
            info_p.append({"m": c["m"], "E": c["E"], "impl": o})
            # probe: brute-force greatest closed subset
            exp = brute_gfp(c["m"], c["E"])
            if exp != o:
                probe_failures.append({"key": "propagate graph " + C.stable_hash(c), "what": "propagate_lin_cc_judgements(%s, %s) = %s, greatest dependency-closed subset is %s" % (c["m"], c["E"], o, exp), "replay": {"graph": c}})
    m1, e1 = C.coq_eval_shards(PROP + "v", HEADER_V, coq_v, per=40)
    m2, e2 = C.coq_eval_shards(PROP + "p", HEADER_P, coq_p, per=300)
    corr_errors += e1 + e2
    corr_mismatches = [{"layer": "L1 per-variable verdict vs Model/Graph.verdicts", "case": info_v[i]} for i in m1[:6]] + \
                      [{"layer": "L2 propagate_lin_cc_judgements vs Model/Graph.propagate_judgements", "case": info_p[i]} for i in m2[:4]]
    samples.append({"graph_case": info_p[0] if info_p else None})
    return {"evaluations": len(coq_v) + len(coq_p), "distinct_nontrivial": len(nontriv) + len(set(C.stable_hash(x) for x in gcases)),
            "rule": "random systems (chains/fans/cycles/self-loops by random coupling; linear, offset, nonlinear, time-dependent, higher-order nodes; 3 spellings) and every entry permutation of small ones: verdict compared per variable; random dependency graphs up to 12 nodes (chain/cycle/fan/dense/random) for the worklist; non-trivial = more than one state variable / distinct graph",
            "samples": samples, "distribution": dist,
            "layers": {"L1 verdict (in Coq)": len(coq_v), "L2 worklist on random graphs + all graphs on <= %d nodes (in Coq)" % (2 if quick else 3): len(coq_p), "probe: cover/sound/closed on API results": dist["verdict_source"]["api"], "probe: brute-force gfp on graphs": len(coq_p)},
            "corr_mismatches": corr_mismatches, "corr_errors": corr_errors, "probe_failures": probe_failures}


def brute_gfp(m, E):
    cur = list(m)
    changed = True
    while changed:
        changed = False
        for a, b in E:
            if cur[a] and not cur[b]:
                cur[a] = False
                changed = True
    return cur


def permute_system(s, p):
    """reorder the entries (global indices remapped)"""
    import copy
    offs, n = U.offsets(s)
    new_entries = [copy.deepcopy(s["entries"][i]) for i in p]
    new_offs, o = {}, 0
    for i in p:
        new_offs[i] = o
        o += s["entries"][i]["order"]
    remap = {}
    for i, e in enumerate(s["entries"]):
        for d in range(e["order"]):
            remap[offs[i] + d] = new_offs[i] + d
    t = {"entries": new_entries, "params": list(s["params"]), "funs": copy.deepcopy(s.get("funs", []))}
    if "time_symbol" in s:
        t["time_symbol"] = s["time_symbol"]
    for e in t["entries"]:
        for term in e.get("rhs", []):
            for ap in term["pows"]:
                if ap[0][0] == "v":
                    ap[0][1] = remap[ap[0][1]]
    return t


def replay(payload):
    rp = payload.get("replay") or {}
    if "indict" in rp:
        r = C.run_tasks([{"fn": "sysimpl.run_verdict", "indict": rp["indict"], "api_timeout": 60, "timeout": 90}], timeout=90)[0]
        api = r.get("api", {})
        if api.get("outcome") != "Ok":
            s = rp["system"]
            names = [U.var_name(s, gi, "__d") for gi in range(U.offsets(s)[1])]
            if "trace" in r and r["trace"]["x"] == names:
                f = probe_verdict(s, [bool(r["trace"]["verdict"][nm]) for nm in names], names)
                return (not f), "analysis fails with %s; chosen analytic set: %s" % (api.get("outcome"), f or "sound and closed")
            return True, "analysis no longer returns a result (%s)" % api.get("outcome")
        s = rp["system"]
        names = [U.var_name(s, gi, "__d") for gi in range(U.offsets(s)[1])]
        f = probe_partition(s, api, names)
        return (not f), "probe failures: %s" % f
    if "graph" in rp:
        r = C.run_tasks([{"fn": "sysimpl.run_propagate", "cases": [rp["graph"]]}])[0]
        ok = r.get("outcome") == "Ok" and r["outs"][0] == brute_gfp(rp["graph"]["m"], rp["graph"]["E"])
        return ok, "worklist result %s" % r.get("outs")
    return True, "replay file names a broken obligation (no concrete input): " + str(payload.get("no_longer_checks"))[:500]
