"""Worker process: runs the implementation (odetoolbox from /repo, PYTHONPATH set by the
parent) on tasks read from stdin, one JSON object per line; answers '@@R <json>' lines.
Task: {"fn": "<module>.<function>", ...}; the function lives in harness/<module>.py and
receives the task dict.  All exceptions (incl. SystemExit) are mapped to an outcome enum."""
import importlib
import io
import json
import os
import sys
import traceback

_real_stdout = sys.stdout
sys.stdout = open(os.devnull, "w")
sys.path.insert(0, os.path.dirname(os.path.dirname(os.path.abspath(__file__))))

import logging
logging.disable(logging.CRITICAL)


def classify_exception(e):
    name = type(e).__name__
    if name == "MalformedInputException":
        return "Malformed"
    if isinstance(e, AssertionError):
        return "Assert"
    if isinstance(e, SystemExit):
        return "SysExit"
    if name == "PropagatorGenerationException":
        return "PropGen"
    return "Other:" + name


def main():
    mods = {}
    for line in sys.stdin:
        line = line.strip()
        if not line:
            continue
        task = json.loads(line)
        try:
            modname, fn = task["fn"].split(".")
            if modname not in mods:
                mods[modname] = importlib.import_module("harness." + modname)
            res = getattr(mods[modname], fn)(task)
        except BaseException as e:   # noqa
            if isinstance(e, KeyboardInterrupt):
                raise
            res = {"outcome": classify_exception(e), "detail": (str(e) or "")[:300],
                   "tb": traceback.format_exc()[-600:]}
        _real_stdout.write("@@R " + json.dumps(res, default=str) + "\n")
        _real_stdout.flush()


if __name__ == "__main__":
    main()
