"""C09 — inconsistent dynamics entries are rejected, consistent ones are not."""
import copy
import itertools
import random

from . import common as C

PROP = "C09"
PROPS_FILE = "theories/Props/C09.v"
THEOREMS = ["c09_parse_wellformed", "c09_accepted_iff", "c09_accepts", "c09_rejects", "c09_system"]
GEN_FILES = ["ReservedGen.v"]
TRUSTED = ["Coq 8.16.1 kernel + vm_compute", "theorems closed under the global context",
           "translator harness/translate_more.gen_reserved: keys of Shape._sympy_globals, regenerated from /repo on every run",
           "correspondence harness (harness/c09.py): exhaustive enumeration of corruption kinds x entry positions x initial-value slots x orders 0..3 plus whitespace/naming variants; implementation outcome enum vs Model/InputCheck.check_entry (first failing entry), decided in Coq",
           "modelled not verified: Python's str.count/split/re (folds over characters in the model), SymPy parsing of the right-hand sides (outside the structural checks)"]
ASSUMPTIONS = ["right-hand sides and initial values of the enumerated entries are parseable, so that the structural checks decide the outcome",
               "'predefined symbol' = a key of Shape._sympy_globals (regenerated); name clashes and marker clashes must raise some error, the '=' and initial-value cases the malformed-input error (as the property states)"]

NAMES = ["x", "V_m", "g_ex", "a1"]


def base_entry(name, order, ws=0):
    lhs = name + "'" * order
    if ws == 1:
        lhs = "  " + lhs + " "
    elif ws == 2:
        lhs = "\t" + lhs
    if order == 0:
        return {"expression": "%s = exp(-t/2)" % lhs}
    rhs = " - ".join(["0"] + ["%s%s/%d" % (name, "'" * k, k + 2) for k in range(order)])
    e = {"expression": "%s = %s" % (lhs, rhs)}
    if order == 1 and ws != 2:
        e["initial_value"] = "1"
    else:
        e["initial_values"] = {name + "'" * k: str(k + 1) for k in range(order)}
    return e


def corruptions(e, name, order):
    """-> list of (kind, entry, expected) ; expected in {'Malformed', 'Error'}"""
    out = []
    c = copy.deepcopy(e); del c["expression"]; out.append(("no_expression", c, "Malformed"))
    c = copy.deepcopy(e); c["expression"] = c["expression"].replace("=", " "); out.append(("no_equals", c, "Malformed"))
    c = copy.deepcopy(e); c["expression"] = c["expression"].replace("=", "= =", 1); out.append(("two_equals_adjacent", c, "Malformed"))
    c = copy.deepcopy(e); c["expression"] = c["expression"] + " = 3"; out.append(("two_equals_trailing", c, "Malformed"))
    if order > 0:
        c = copy.deepcopy(e); c.pop("initial_value", None); c.pop("initial_values", None); out.append(("missing_all_ivs", c, "Malformed"))
    if "initial_values" in e:
        for k in list(e["initial_values"].keys()):
            c = copy.deepcopy(e); del c["initial_values"][k]; out.append(("missing_iv_slot_%d" % k.count("'"), c, "Malformed"))
        for k in list(e["initial_values"].keys()):
            c = copy.deepcopy(e); d = c["initial_values"]; v = d.pop(k); d["y_other" + "'" * k.count("'")] = v; out.append(("iv_other_variable_slot_%d" % k.count("'"), c, "Malformed"))
        for k in list(e["initial_values"].keys()):
            for other, tag in ((name + "_in", "suffix"), (name + "2", "digit"), (name[:-1] if len(name) > 1 else "q", "truncated"), ("_" + name, "underscore")):
                c = copy.deepcopy(e); d = c["initial_values"]; v = d.pop(k); d[other + "'" * k.count("'")] = v
                out.append(("iv_other_variable_%s_slot_%d" % (tag, k.count("'")), c, "Malformed"))
        for k in list(e["initial_values"].keys()):
            c = copy.deepcopy(e); d = c["initial_values"]; v = d.pop(k); d[name + "'" * order] = v; out.append(("iv_order_too_high_slot_%d" % k.count("'"), c, "Malformed"))
        if order >= 2:
            for k in list(e["initial_values"].keys())[1:]:
                c = copy.deepcopy(e); d = c["initial_values"]; v = d.pop(k); d[name + " "] = v; out.append(("iv_duplicated_slot_%d" % k.count("'"), c, "Malformed"))
        c = copy.deepcopy(e); c["initial_values"][name + "'" * order] = "7"; out.append(("superfluous_iv", c, "Malformed"))
        c = copy.deepcopy(e); c["initial_value"] = "1"; out.append(("both_spellings", c, "Malformed"))
    if "initial_value" in e:
        c = copy.deepcopy(e); c["initial_values"] = {name: "1"}; out.append(("both_spellings", c, "Malformed"))
        c = copy.deepcopy(e); c["initial_values"] = {}; out.append(("both_spellings_second_empty", c, "Malformed"))
    if order > 0:
        c = copy.deepcopy(e); c.pop("initial_value", None); c["initial_values"] = {}; out.append(("missing_all_ivs_empty_dict", c, "Malformed"))
    if order != 1:
        c = copy.deepcopy(e); c.pop("initial_values", None); c["initial_value"] = "1"; out.append(("single_iv_on_order_%d" % order, c, "Malformed"))
    if order == 0:
        c = copy.deepcopy(e); c["initial_values"] = {name: "1"}; out.append(("iv_on_function_of_time", c, "Malformed"))
    for bad in ["exp", "t", "E", "max", "Symbol", "Heaviside"]:
        c = rename_entry(e, name, bad); out.append(("reserved_name_%s" % bad, c, "Error"))
    c = rename_entry(e, name, name + "__d"); out.append(("name_contains_marker", c, "Error"))
    c = rename_entry(e, name, "q__dz"); out.append(("name_contains_marker_inside", c, "Error"))
    c = copy.deepcopy(e); c["expression"] = "zz " + c["expression"]; out.append(("two_tokens_lhs", c, "Malformed"))
    return out


def rename_entry(e, old, new):
    import re
    c = copy.deepcopy(e)
    rx = re.compile(r"\b%s\b" % re.escape(old))
    c["expression"] = rx.sub(new, c["expression"])
    if "initial_values" in c:
        c["initial_values"] = {rx.sub(new, k): v for k, v in c["initial_values"].items()}
    return c


def impl_run(task):
    import odetoolbox
    from odetoolbox.config import Config
    from . import impl_worker
    outs = []
    for ind in task["cases"]:
        defaults = dict(Config.config)
        try:
            odetoolbox.analysis(copy.deepcopy(ind), disable_stiffness_check=True, disable_analytic_solver=True)
            outs.append("Ok")
        except BaseException as e:   # noqa
            if isinstance(e, KeyboardInterrupt):
                raise
            outs.append(impl_worker.classify_exception(e))
        finally:
            Config.config.clear()
            Config.config.update(defaults)
    return {"outcome": "Ok", "outs": outs}


def cstr(s):
    out = []
    for ch in s:
        if ch == '"':
            out.append('""')
        elif ch == "\t":
            out.append("\t")
        else:
            out.append(ch)
    return '(list_ascii_of_string "%s"%%string)' % "".join(out)


def centry(e):
    return "{| e_expr := %s; e_has_iv := %s; e_ivs := %s |}" % (
        "Some %s" % cstr(e["expression"]) if "expression" in e else "None",
        C.cbool("initial_value" in e),
        "Some %s" % C.clist([cstr(k) for k in e["initial_values"].keys()]) if "initial_values" in e else "None")


HEADER = """From Coq Require Import List String Ascii Bool.
From OdeVerif Require Import Base.Corr Model.InputCheck Gen.ReservedGen.
Import ListNotations.
Definition outcome_of (marker : str) (l : list entry) : nat :=      (* 0 = accepted, 1 = malformed-input error, 2 = some error *)
  fold_left (fun acc e => if Nat.eqb acc 0 then match check_entry reserved_names marker e with Malformed => 1 | NameError => 2 | Accepted _ _ => 0 end else acc) l 0.
(* case: (configured derivative marker, entries), observed: 0 Ok, 1 Malformed, 2 any other error *)
Definition agree (c : (str * list entry) * nat) : bool :=
  match outcome_of (fst (fst c)) (snd (fst c)), snd c with
  | 0, 0 => true | 1, 1 => true | 2, 1 => true | 2, 2 => true | _, _ => false
  end.
Definition mism (cases : list ((str * list entry) * nat)) : list nat := mism_by agree cases.
"""


def run(ctx):
    import os
    rng = random.Random(ctx["seed"] * 5003 + 9)
    quick = ctx["tier"] == "quick"
    cases = []     # (kind, position, system(list of entries), expected)
    orders = [0, 1, 2, 3] if quick else [0, 1, 2, 3, 4, 5]
    for order in orders:
        for ws in (0, 1, 2):
            name = NAMES[(order + ws) % len(NAMES)]
            e = base_entry(name, order, ws)
            cases.append(("wellformed_order_%d_ws%d" % (order, ws), 0, [e], "Ok"))
            others = [base_entry("u_a", 1), base_entry("w2", 2)]
            if ws == 0:
                for kind, ce, exp in corruptions(e, name, order):
                    for nsys in (1, 2, 3):
                        for pos in range(nsys):
                            sysl = [copy.deepcopy(o) for o in others[:nsys - 1]]
                            sysl.insert(pos, ce)
                            cases.append((kind + "_order_%d" % order, pos, sysl, exp))
                for nsys in (2, 3):
                    for pos in range(nsys):
                        sysl = [copy.deepcopy(o) for o in others[:nsys - 1]]
                        sysl.insert(pos, copy.deepcopy(e))
                        cases.append(("wellformed_in_system_order_%d" % order, pos, sysl, "Ok"))
    # random well-formed entries with whitespace / naming variation
    for _ in range(40 if quick else 400):
        order = rng.choice([0, 1, 1, 2, 3])
        name = rng.choice(["x", "V_m", "_y", "g_ex1", "Ab_9", "tt", "ee", "d__x"[:1] + "q"])
        e = base_entry(name, order, rng.choice([0, 1, 2]))
        if "initial_values" in e and rng.random() < 0.5:
            items = list(e["initial_values"].items()); rng.shuffle(items)
            e["initial_values"] = {(" " + k if rng.random() < 0.3 else k): v for k, v in items}
        cases.append(("wellformed_random", 0, [e], "Ok"))
    inds = [{"dynamics": sysl} for _, _, sysl, _ in cases]
    # a configured derivative marker other than the default: names containing the DEFAULT marker are then ordinary names,
    # names containing the configured one are not
    for mk in ("__D", "_dot", "__prime", "_d"):
        for order in (0, 1, 2, 3):
            for nm, exp in (("g__delayed", "Ok"), ("x__dy", "Ok"), ("q__d", "Ok"), ("a" + mk + "b", "Error"), ("z" + mk, "Error")):
                if mk in nm and exp == "Ok":
                    continue
                if mk == "_d" and "_d" in nm:
                    exp = "Error"
                cases.append(("marker_%s_name_%s_order_%d" % (mk, nm, order), 0, [base_entry(nm, order)], exp))
                inds.append({"dynamics": [base_entry(nm, order)], "options": {"differential_order_symbol": mk}})
    # unknown option key
    cases.append(("unknown_option_key", 0, [base_entry("x", 1)], "Error"))
    inds.append({"dynamics": [base_entry("x", 1)], "options": {"no_such_option": 1}})
    chunks = [list(range(i, len(inds), C.NPROC)) for i in range(C.NPROC)]
    res = C.run_tasks([{"fn": "c09.impl_run", "cases": [inds[j] for j in ch], "timeout": 600} for ch in chunks if ch], timeout=600)
    outs = [None] * len(inds)
    corr_errors = []
    for ch, r in zip([c for c in chunks if c], res):
        if r.get("outcome") != "Ok":
            corr_errors.append("worker failed: %s" % str(r)[:300])
            continue
        for j, o in zip(ch, r["outs"]):
            outs[j] = o
    coq, info, probe_failures = [], [], []
    dist = {"kinds": {}, "outcomes": {}, "orders": orders, "positions": {}}
    nontriv = set()
    for (kind, pos, sysl, exp), ind, o in zip(cases, inds, outs):
        if o is None:
            continue
        base_kind = kind.split("_order_")[0]
        dist["kinds"][base_kind] = dist["kinds"].get(base_kind, 0) + 1
        dist["outcomes"][o] = dist["outcomes"].get(o, 0) + 1
        dist["positions"][str(pos)] = dist["positions"].get(str(pos), 0) + 1
        nontriv.add(C.stable_hash(ind))
        ok = (exp == "Ok" and o == "Ok") or (exp == "Malformed" and o == "Malformed") or (exp == "Error" and o != "Ok")
        if not ok:
            probe_failures.append({"key": "validation: %s at entry %d" % (kind, pos),
                                   "what": "corruption '%s' at entry %d: analysis outcome %s, the property requires %s; input %s" % (kind, pos, o, {"Ok": "acceptance", "Malformed": "the malformed-input error", "Error": "an error"}[exp], ind),
                                   "replay": {"indict": ind, "expected": exp}})
        if "options" not in ind or list(ind["options"]) == ["differential_order_symbol"]:
            code = 0 if o == "Ok" else (1 if o == "Malformed" else 2)
            coq.append("((%s, %s), %d%%nat)" % (cstr(ind.get("options", {}).get("differential_order_symbol", "__d")), C.clist([centry(e) for e in sysl]), code))
            info.append({"indict": ind, "impl": o, "kind": kind})
    mism, errs = ([], [])
    if os.path.exists(os.path.join(C.COQ, "theories/Gen/ReservedGen.vo")):
        mism, errs = C.coq_eval_shards(PROP, HEADER, coq, per=150)
    else:
        errs = ["Gen/ReservedGen.vo not built"]
    corr_errors += errs
    corr_mismatches = [{"layer": "analysis() outcome vs Model/InputCheck.check_entry (first failing entry)", "case": info[i]} for i in mism[:8]]
    return {"evaluations": len(cases), "distinct_nontrivial": len(nontriv),
            "rule": "exhaustive: orders %s x every corruption kind (no expression; no/two '='; missing all / one initial value per slot; other variable per slot; order too high per slot; duplicated per slot; superfluous; both spellings; single value on order != 1; reserved names; marker in name; two tokens) x every entry position in systems of 1-3 entries, plus well-formed entries (3 whitespace variants, random names, shuffled/padded initial-value keys); distinct by hash of the input" % orders,
            "samples": [{"kind": k, "position": p, "input": {"dynamics": s}, "required": e} for k, p, s, e in cases[5:8]], "distribution": dist,
            "exhaustive": True,
            "layers": {"L1 outcome vs model (in Coq)": len(coq), "probe: outcome vs property text": len(cases)},
            "corr_mismatches": corr_mismatches, "corr_errors": corr_errors, "probe_failures": probe_failures}


def replay(payload):
    rp = payload.get("replay") or {}
    if "indict" not in rp:
        return True, "replay file names a broken obligation (no concrete input): " + str(payload.get("no_longer_checks"))[:500]
    r = C.run_tasks([{"fn": "c09.impl_run", "cases": [rp["indict"]]}], timeout=300)[0]
    o = r.get("outs", [None])[0]
    exp = rp["expected"]
    ok = (exp == "Ok" and o == "Ok") or (exp == "Malformed" and o == "Malformed") or (exp == "Error" and o != "Ok")
    return ok, "outcome %s, required %s" % (o, exp)
