"""Entry point:  ./check <ID> <quick|thorough>   |   ./check <ID> --replay <file>

Run protocol (DESIGN.md 2.5): regenerate Gen/*.v from /repo and build the Coq development
(proof obligations of the property's dependency cone), run the correspondence (model vs.
implementation, decided inside Coq) and the direct probes, decide, write evidence."""
import importlib
import json
import os
import sys
import time
import traceback

from . import common as C


def _match_finding(prop, key, findings):
    for f in findings:
        if f["property"] == prop and f.get("status") == "open" and f["key"] == key:
            return f
    return None


def main(argv):
    if len(argv) < 2:
        print("usage: check <ID> quick|thorough | check <ID> --replay <file>")
        return 2
    prop = argv[0].upper()
    mod = importlib.import_module("harness." + prop.lower())
    seed = int(os.environ.get("VERIF_SEED", "0"))
    if argv[1] == "--replay":
        payload = json.load(open(argv[2]))
        ok, msg = mod.replay(payload)
        print(msg)
        if not ok:
            print("VIOLATION property=%s replay=%s" % (prop, argv[2]))
            return 1
        return 0
    tier = argv[1]
    assert tier in ("quick", "thorough")
    t0 = time.time()
    ctx = {"tier": tier, "seed": seed, "prop": prop}

    # 1. obligations
    build = C.coq_build(clean=(tier == "thorough" and os.environ.get("VERIF_NO_CLEAN") != "1"))
    cone = C.cone(mod.PROPS_FILE)
    broken = [f for f in cone if f in build["failed"]]
    obl = C.obligations(cone)
    forb = C.forbidden_scan(cone)
    discharged = len([o for o in obl if o[0] not in broken])
    if build["translate_errors"]:
        rel = [e for e in build["translate_errors"] if any(g in e for g in getattr(mod, "GEN_FILES", []))]
        for e in rel:
            broken.append("translator: " + e)
    assumptions_txt = {}
    if not broken:
        assumptions_txt = C.print_assumptions(prop, mod.THEOREMS, mod.PROPS_FILE[len("theories/"):-2].replace("/", "."))
        if "__error__" in assumptions_txt:
            broken.append("Print Assumptions failed: " + assumptions_txt["__error__"][-300:])
        for th, txt in assumptions_txt.items():
            # any axiom not in the stdlib allow-list is reported as a broken obligation
            bad = mod.check_axioms(th, txt) if hasattr(mod, "check_axioms") else default_axiom_check(txt, getattr(mod, "ALLOWED_AXIOMS", []))
            if bad:
                broken.append("theorem %s depends on unexpected axioms: %s" % (th, bad))
    coqchk = None
    if tier == "thorough" and not broken and os.environ.get("VERIF_NO_COQCHK") != "1":
        modname = "OdeVerif." + mod.PROPS_FILE[len("theories/"):-2].replace("/", ".")
        rc_chk, out = C.sh("timeout 1500 coqchk -silent -o -Q theories OdeVerif %s" % modname, cwd=C.COQ, timeout=1600)
        coqchk = out[-3000:]
        if rc_chk != 0:
            broken.append("coqchk failed (rc=%s): %s" % (rc_chk, out[-300:]))

    # 2./3. correspondence + probes
    try:
        res = mod.run(ctx)
    except Exception:
        res = {"evaluations": 0, "distinct_nontrivial": 0, "rule": "", "samples": [],
               "corr_mismatches": [], "corr_errors": ["harness exception: " + traceback.format_exc()[-1500:]],
               "probe_failures": []}

    # 4. decide
    findings = C.load_findings()
    new_viol = []
    known_hit = []
    for pf in res.get("probe_failures", []):
        f = _match_finding(prop, pf["key"], findings)
        if f:
            if f["key"] not in [k["key"] for k in known_hit]:
                known_hit.append(f)
        else:
            new_viol.append(pf)
    obligations_broken = bool(broken or forb or res.get("corr_mismatches") or res.get("corr_errors"))
    lines = []
    rc = 0
    for f in known_hit:
        lines.append("KNOWN-FINDING: property=%s %s" % (prop, f["what"]))
    if new_viol:
        seen = set()
        for pf in new_viol:
            if pf["key"] in seen:
                continue
            seen.add(pf["key"])
            if len(seen) > 5:
                break
            payload = {"property": prop, "layer": "probe", "key": pf["key"], "what": pf["what"],
                       "replay": pf.get("replay"), "seed": seed, "tier": tier,
                       "broken_obligations": broken, "corr_mismatches": res.get("corr_mismatches", [])[:3]}
            path = C.write_replay(prop, payload)
            lines.append("VIOLATION property=%s replay=%s" % (prop, path))
        rc = 1
    elif obligations_broken:
        found = []
        try:
            if hasattr(mod, "search"):
                found = [pf for pf in mod.search(ctx, res) if not _match_finding(prop, pf["key"], findings)]
            else:
                # default extended search: the same generators and probes under two further seeds
                for k_ in (1, 2):
                    r_ = mod.run(dict(ctx, seed=ctx["seed"] * 10 + k_, in_search=True))
                    found += [pf for pf in r_.get("probe_failures", []) if not _match_finding(prop, pf["key"], findings)]
                    if found:
                        break
        except Exception:
            found = []
        if found:
            pf = found[0]
            payload = {"property": prop, "layer": "extended-search", "key": pf["key"], "what": pf["what"],
                       "replay": pf.get("replay"), "seed": seed, "tier": tier, "broken_obligations": broken,
                       "corr_mismatches": res.get("corr_mismatches", [])[:3]}
            path = C.write_replay(prop, payload)
            lines.append("VIOLATION property=%s replay=%s" % (prop, path))
        else:
            payload = {"property": prop, "layer": "obligation",
                       "no_longer_checks": {"coq_files_or_theorems": broken, "forbidden_constructs": forb,
                                            "correspondence_mismatches": res.get("corr_mismatches", [])[:5],
                                            "correspondence_errors": res.get("corr_errors", [])[:3]},
                       "build_log_tail": build["log"][-2500:] if broken else "",
                       "note": "no input was found on which the implementation itself violates the property; "
                               "the property is no longer shown to hold", "seed": seed, "tier": tier}
            path = C.write_replay(prop, payload)
            lines.append("VIOLATION property=%s replay=%s no-failing-input-found" % (prop, path))
        rc = 1

    # 5. evidence
    cov = {
        "obligations": len(obl),
        "discharged": discharged,
        "checker_cmd": "cd /verif/coq && coq_makefile -f _CoqProject -o Makefile && make  (full .vo build; thorough adds coqchk -o on %s)" % mod.PROPS_FILE,
        "trusted_base": mod.TRUSTED,
        "evaluations": res.get("evaluations", 0),
        "distinct_nontrivial": res.get("distinct_nontrivial", 0),
        "rule": res.get("rule", ""),
        "samples": res.get("samples", [])[:6],
        "theorems": mod.THEOREMS,
        "print_assumptions": assumptions_txt,
        "obligation_files": cone,
        "broken_obligations": broken,
        "forbidden_constructs": forb,
        "distribution": res.get("distribution", {}),
        "correspondence": {"layers": res.get("layers", {}), "mismatches": len(res.get("corr_mismatches", [])),
                           "errors": res.get("corr_errors", [])[:3]},
        "probe_failures": len(res.get("probe_failures", [])),
        "known_findings_hit": [f["key"] for f in known_hit],
        "build_wall_s": round(build["wall_s"], 1),
    }
    if coqchk is not None:
        cov["coqchk_tail"] = coqchk
    ev = {"property_id": prop, "tier": tier, "seed": seed, "level": "proof", "coverage": cov,
          "assumptions": mod.ASSUMPTIONS, "wall_s": round(time.time() - t0, 1),
          "violations": 0 if rc == 0 else max(1, len(new_viol))}
    C.write_evidence(prop, ev)
    for l in lines:
        print(l)
    print("%s %s: obligations %d/%d, cases %d (nontrivial %d), corr mismatches %d, probe failures %d, %.0fs -> %s" % (
        prop, tier, discharged, len(obl), cov["evaluations"], cov["distinct_nontrivial"],
        cov["correspondence"]["mismatches"], cov["probe_failures"], time.time() - t0, "FAIL" if rc else "ok"))
    if rc and (broken or res.get("corr_errors")):
        print("broken:", broken[:5], (res.get("corr_errors") or [""])[0][-600:])
    return rc


STD_AXIOMS = ["ClassicalDedekindReals.sig_not_dec", "ClassicalDedekindReals.sig_forall_dec",
              "FunctionalExtensionality.functional_extensionality_dep", "Classical_Prop.classic",
              "functional_extensionality_dep", "sig_not_dec", "sig_forall_dec", "classic"]


def default_axiom_check(txt, allowed):
    """Names listed by Print Assumptions (entries start in column 0) that are neither
    standard-library axioms of the allow-list nor explicitly allowed for this property."""
    if "Closed under the global context" in txt:
        return []
    import re
    bad = []
    for m in re.finditer(r"^([A-Za-z_][A-Za-z_0-9.']*)\s*:", txt, re.M):
        name = m.group(1)
        if name in ("Axioms", "Section Variables"):
            continue
        short = name.split(".")[-1]
        if name in STD_AXIOMS or short in STD_AXIOMS or name in allowed:
            continue
        bad.append(name)
    return bad


if __name__ == "__main__":
    sys.exit(main(sys.argv[1:]))
