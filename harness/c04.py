"""C04 — analytically tractable variables are recognised however they are written."""
import itertools
import random

from . import common as C
from . import sysutil as U
from . import c03

PROP = "C04"
PROPS_FILE = "theories/Props/C04.v"
THEOREMS = ["c04_recognised", "c04_recognised_term", "c04_complete"]
GEN_FILES = []
TRUSTED = ["Coq 8.16.1 kernel + vm_compute", "theorems closed under the global context",
           "correspondence harness (harness/c04.py): 7 algebraically equivalent spellings x entry orders of each canonical system; observed analytic set vs Model/Graph.verdicts decided in Coq; equality across spellings",
           "oracle: SymPy's expand() canonicalises every spelling to the same sum of monomials (validated by the spelling correspondence, not proved)",
           "probe oracle: sympy.diff / simplify on the spelled text (independent differential criterion)"]
ASSUMPTIONS = ["canonical form of a right-hand side = list of distinct Laurent monomials with dyadic coefficients",
               "higher-order entries with a constant offset are excluded (the toolbox exits with an error for them: an error, not a wrong verdict)"]

NSTYLES = 7


def linear_system(rng):
    """mostly-linear systems so that analytic sets are non-trivial; a few nonlinear/time nodes mixed in"""
    while True:
        s = U.gen_system(rng, max_entries=rng.choice([1, 2, 2, 3, 3, 4]), allow_order=(1, 1, 1, 1, 2, 2, 3),
                         kinds=("lin", "lin", "lin", "coupled", "coupled", "off", "off", "nonlin", "time"), const_funs=True)
        offs, n = U.offsets(s)
        if n > 6:
            continue
        bad = False
        for e in s["entries"]:
            if e["order"] > 1 and any(not any(a[0] in ("v", "t") for a, _ in t["pows"]) for t in e["rhs"]):
                bad = True       # higher-order inhomogeneous: sys.exit in the toolbox
        if not bad:
            return s


def add_parameters(ind, system, rng):
    """parameters section: absent / complete / partial (values are optional in the documented format)"""
    q = rng.random()
    if not system["params"] or q < 0.4:
        return
    keep = list(system["params"]) if q < 0.6 else [p for p in system["params"] if rng.random() < 0.5]
    ind["parameters"] = {p: repr(rng.choice([0.5, 1.5, 2.0, 10.0])) for p in keep}


def run(ctx):
    rng = random.Random(ctx["seed"] * 4001 + 4)
    quick = ctx["tier"] == "quick"
    nsys = 40 if quick else 400
    systems = [linear_system(rng) for _ in range(nsys)]
    tasks, meta = [], []
    for si, s in enumerate(systems):
        m = len(s["entries"])
        perms = [tuple(range(m))]
        allp = list(itertools.permutations(range(m)))
        if m > 1:
            perms += rng.sample(allp[1:], min(len(allp) - 1, 1 if quick else 3))
        styles = list(range(NSTYLES)) if quick else list(range(NSTYLES)) + [rng.randrange(NSTYLES) for _ in range(5)]
        for st in styles:
            p = perms[0] if st != styles[-1] else perms[-1]
            ps = c03.permute_system(s, p) if p != tuple(range(m)) else s
            ind = U.render_spelled(ps, st, random.Random(rng.random()))
            add_parameters(ind, ps, rng)
            tasks.append({"fn": "sysimpl.run_verdict_indep", "indict": ind, "api_timeout": 10, "timeout": 60})
            meta.append((si, st, p, ps))
        for p in perms[1:]:
            ps = c03.permute_system(s, p)
            ind = U.render_spelled(ps, 0, random.Random(rng.random()))
            tasks.append({"fn": "sysimpl.run_verdict_indep", "indict": ind, "api_timeout": 10, "timeout": 60})
            meta.append((si, 0, p, ps))
    results = C.run_tasks(tasks, timeout=60)
    coq_v, info_v, probe_failures, corr_errors = [], [], [], []
    dist = {"styles": {}, "api_outcomes": {}, "verdict_source": {"api": 0, "trace": 0, "internal": 0}, "analytic_fraction": {"none": 0, "some": 0, "all": 0},
            "exceptions_hit": 0, "spelling_groups": 0, "indep_errors": 0}
    by_sys = {}
    nontriv = set()
    samples = []
    for (si, st, p, ps), t, r in zip(meta, tasks, results):
        if r.get("outcome") != "Ok":
            dist["api_outcomes"][str(r.get("outcome"))] = dist["api_outcomes"].get(str(r.get("outcome")), 0) + 1
            continue
        dist["styles"][str(st)] = dist["styles"].get(str(st), 0) + 1
        n = U.offsets(ps)[1]
        names = [U.var_name(ps, gi, "__d") for gi in range(n)]
        api = r.get("api", {})
        dist["api_outcomes"][api.get("outcome")] = dist["api_outcomes"].get(api.get("outcome"), 0) + 1
        verdict = None
        if api.get("outcome") == "Ok":
            an = set()
            for so in api["solvers"]:
                if so["solver"] == "analytical":
                    an |= set(so["state_variables"])
            verdict = [nm in an for nm in names]
            dist["verdict_source"]["api"] += 1
        elif "trace" in r and r["trace"]["x"] == names:
            verdict = [bool(r["trace"]["verdict"][nm]) for nm in names]
            dist["verdict_source"]["trace"] += 1
        elif "verdict" in r.get("internal", {}) and r["internal"]["x"] == names:
            verdict = r["internal"]["verdict"]
            dist["verdict_source"]["internal"] += 1
        if verdict is None:
            continue
        k = sum(verdict)
        dist["analytic_fraction"]["none" if k == 0 else ("all" if k == n else "some")] += 1
        coq_v.append("{| v_n := %d; v_fdeps := %s; v_shapes := %s; v_obs := %s |}" % (n, U.cfdeps(ps), U.cshapes(ps), C.clist([C.cbool(b) for b in verdict])))
        info_v.append({"indict": t["indict"], "verdict": dict(zip(names, verdict)), "style": st})
        aset = frozenset(nm for nm, b in zip(names, verdict) if b)
        by_sys.setdefault(si, []).append((aset, st, p, t["indict"]))
        nontriv.add(C.stable_hash(t["indict"]))
        # probe: independent differential criterion on the spelled text
        ind = r.get("indep", {})
        if "expected" in ind and ind["names"] == names:
            if ind["expected"] != verdict:
                miss = [nm for nm, e_, o_ in zip(names, ind["expected"], verdict) if e_ and not o_]
                extra = [nm for nm, e_, o_ in zip(names, ind["expected"], verdict) if o_ and not e_]
                probe_failures.append({"key": "recognition differs from the differential criterion: " + C.stable_hash(t["indict"]),
                                       "what": "analytic set %s; independent criterion (linear, constant coefficients, dependency-closed, minus the two documented exceptions) gives %s (not recognised: %s; wrongly analytic: %s) for %s" % (
                                           sorted(aset), sorted(nm for nm, e_ in zip(names, ind["expected"]) if e_), miss, extra, t["indict"]["dynamics"]),
                                       "replay": {"indict": t["indict"]}})
            if any(a and not e_ for a, e_ in zip(ind["affine"], ind["expected"])):
                dist["exceptions_hit"] += 1
        else:
            dist["indep_errors"] += 1
        if len(samples) < 3 and 0 < k:
            samples.append(info_v[-1])
    # equality across spellings / entry orders of one canonical system
    for si, lst in by_sys.items():
        dist["spelling_groups"] += 1
        base = lst[0]
        for other in lst[1:]:
            if other[0] != base[0]:
                probe_failures.append({"key": "spelling changes the analytic set: " + C.stable_hash([base[3], other[3]]),
                                       "what": "the same system written two ways gives analytic sets %s and %s: %s vs %s" % (sorted(base[0]), sorted(other[0]), base[3]["dynamics"], other[3]["dynamics"]),
                                       "replay": {"indict": other[3], "twin": base[3]}})
    m1, e1 = C.coq_eval_shards(PROP, c03.HEADER_V, coq_v, per=40)
    corr_errors += e1
    corr_mismatches = [{"layer": "analytic set of a spelled/permuted system vs Model/Graph.verdicts on its canonical form", "case": info_v[i]} for i in m1[:8]]
    return {"evaluations": len(coq_v), "distinct_nontrivial": len(nontriv),
            "rule": "canonical mostly-linear systems (1-4 entries, order 1-3, offsets, couplings, some nonlinear/time nodes) x 7 spellings (expanded '/', negative exponents, split coefficients, common denominator, nested parentheses with leading minus, float literals, collected by variable; terms shuffled) x entry orders; distinct by hash of the rendered input",
            "samples": samples, "distribution": dist,
            "layers": {"L1 analytic set vs model (in Coq)": len(coq_v), "probe: independent differential criterion": len(coq_v) - dist["indep_errors"], "probe: equal across spellings": dist["spelling_groups"]},
            "corr_mismatches": corr_mismatches, "corr_errors": corr_errors, "probe_failures": probe_failures}


def replay(payload):
    rp = payload.get("replay") or {}
    if "indict" not in rp:
        return True, "replay file names a broken obligation (no concrete input): " + str(payload.get("no_longer_checks"))[:500]
    def aset(ind):
        r = C.run_tasks([{"fn": "sysimpl.run_verdict_indep", "indict": ind, "api_timeout": 60, "timeout": 100}], timeout=100)[0]
        v = None
        if r.get("api", {}).get("outcome") == "Ok":
            v = set()
            for so in r["api"]["solvers"]:
                if so["solver"] == "analytical":
                    v |= set(so["state_variables"])
        elif "trace" in r:
            v = set(k for k, b in r["trace"]["verdict"].items() if b)
        return v, r.get("indep", {})
    v, ind = aset(rp["indict"])
    if v is None:
        return True, "no verdict available"
    if "twin" in rp:
        v2, _ = aset(rp["twin"])
        return v == v2, "analytic sets %s vs %s" % (sorted(v), sorted(v2 or []))
    exp = set(nm for nm, e in zip(ind.get("names", []), ind.get("expected", [])) if e)
    return v == exp, "analytic %s, criterion %s" % (sorted(v), sorted(exp))
