"""C13 — mixed integrator: time, spikes, threshold resets (driven through the pygsl stand-in)."""
import random
from fractions import Fraction

from . import common as C

PROP = "C13"
PROPS_FILE = "theories/Props/C13.v"
THEOREMS = ["c13_precise", "c13_aliased", "c13_events_from_spike_map", "c13_bounds", "c13_analytic"]
GEN_FILES = []
TRUSTED = ["Coq 8.16.1 kernel + vm_compute", "theorems closed under the global context",
           "GSL is ABSENT in this sandbox: pygsl.odeiv is replaced by a scripted stand-in (harness/pygsl_stub: exact forward-Euler, scripted fraction of the requested step); nothing is claimed about GSL's accuracy or step-size reports — 'follows the user's equations within the requested accuracy' is therefore only tested through the stand-in (SciPy RK45 variant), not proved",
           "correspondence harness (harness/c13.py): real MixedIntegrator objects, systems whose arithmetic is exact in binary floating point; t_log, y_log, upper_bound_crossed compared for equality with Model/MixedInt.integrate fed the recorded stepper answers (decided in Coq)",
           "modelled not verified: cython autowrap evaluation of the derivative function; the stepper is an oracle whose answers are checked for progress (t < t' <= requested end)"]
ASSUMPTIONS = ["times are integer ticks of a per-case power of two; states exact rationals",
               "spikes at times <= 0 are applied at time 0 (outside the property's 'before the end of the simulation ... at its own time' for 0 < s)"]

SYSTEMS = [
    # (indict, disable_analytic, description)
    ({"dynamics": [{"expression": "x' = 1 + 0*x**2", "initial_value": "0"}, {"expression": "y' = 0*y**2 - 1/2", "initial_value": "4"}]}, True, "two constant-derivative numeric variables"),
    ({"dynamics": [{"expression": "x' = 1/4 + 0*x**2", "initial_value": "1"}]}, True, "one numeric variable"),
    ({"dynamics": [{"expression": "g' = 0*g", "initial_value": "2"}, {"expression": "x' = g*g/4", "initial_value": "0"}]}, False, "analytic g (spikes), numeric x' = g^2/4"),
    ({"dynamics": [{"expression": "x' = 2 + 0*x**2", "initial_value": "-1"}, {"expression": "y' = 0*y**2 + 1/8", "initial_value": "0"}, {"expression": "z' = 0*z**2", "initial_value": "3"}]}, True, "three numeric variables"),
]


def impl_run(task):
    import numpy as np
    import sympy
    import pygsl.odeiv as odeiv
    import odetoolbox
    from odetoolbox.mixed_integrator import MixedIntegrator
    ind = task["indict"]
    # other systems simulated earlier in this interpreter (each once, default arguments)
    for bi in task.get("before", []):
        b_ind, b_da, _ = SYSTEMS[bi]
        b_solvers, b_sys, b_shapes = odetoolbox._analysis(b_ind, disable_stiffness_check=True, disable_analytic_solver=b_da)
        b_num = [s for s in b_solvers if s["solver"].startswith("numeric")][0]
        b_ana = [s for s in b_solvers if s["solver"] == "analytical"]
        b_mi = MixedIntegrator(odeiv.step_rk4, b_sys.get_sub_system([sympy.Symbol(v) for v in b_num["state_variables"]]), b_shapes, analytic_solver_dict=(b_ana[0] if b_ana else None),
                               parameters={}, spike_times={}, max_step_size=0.5, sim_time=1.0, alias_spikes=False)
        odeiv.SCRIPT["fracs"] = [1.0]
        odeiv.SCRIPT["mode"] = "euler"
        b_mi.integrate_ode(h_min_lower_bound=1e-300, raise_errors=False)
    solvers, sys_, shapes = odetoolbox._analysis(ind, disable_stiffness_check=True, disable_analytic_solver=task["disable_analytic"])
    num = [s for s in solvers if s["solver"].startswith("numeric")][0]
    ana = [s for s in solvers if s["solver"] == "analytical"]
    sub = sys_.get_sub_system([sympy.Symbol(v) for v in num["state_variables"]])
    mi = MixedIntegrator(odeiv.step_rk4, sub, shapes, analytic_solver_dict=(ana[0] if ana else None), parameters={}, spike_times={},
                         max_step_size=0.5, sim_time=1.0, alias_spikes=False)
    names = [str(s) for s in sub.x_] + (ana[0]["state_variables"] if ana else [])
    outs = []
    for r in task["runs"]:
        mi.alias_spikes = r["alias"]
        mi.max_step_size = r["max_step"]
        mi.sim_time = r["sim"]
        for sh in shapes:
            b = r["bounds"].get(str(sh.symbol), {})
            sh.upper_bound = sympy.Float(b["ub"]) if "ub" in b else None
            sh.lower_bound = sympy.Float(b["lb"]) if "lb" in b else None
        mi.set_spike_times({names[int(k)]: v for k, v in r["spk"].items()})
        odeiv.SCRIPT["fracs"] = r["fracs"]
        odeiv.SCRIPT["mode"] = "euler"
        del odeiv.LOG[:]
        try:
            h_min, h_avg, rt, crossed, t_log, h_log, y_log, syms = mi.integrate_ode(debug=True, h_min_lower_bound=1e-300, raise_errors=False)
            answers = [[e[5], e[6]] for e in odeiv.LOG if e[0] == "apply"]
            outs.append({"ok": True, "t_log": [float(t) for t in t_log], "y_log": [[float(v) for v in row] for row in y_log], "crossed": bool(crossed),
                         "answers": answers, "n_numeric": len(sub.x_)})
        except Exception as e:   # noqa
            outs.append({"ok": False, "err": "%s: %s" % (type(e).__name__, str(e)[:200])})
    return {"outcome": "Ok", "outs": outs, "names": names, "ivs": [float(sympy.sympify(num["initial_values"][v])) for v in num["state_variables"]]}


def gen_run(rng, nvars, n_numeric):
    sim = rng.choice([1.0, 2.0, 3.0, 2.5, 0.75])
    max_step = rng.choice([0.5, 0.25, 1.0, 0.125, 4.0])
    spk = {}
    for v in rng.sample(range(nvars), rng.randint(0, nvars)):
        k = rng.choice([0, 1, 2, 3, 5])
        ts = []
        for _ in range(k):
            q = rng.random()
            if q < 0.1:
                ts.append(rng.choice([0.0, sim, sim + 0.5]))
            else:
                ts.append(rng.randint(1, int(sim * 16)) / 16.0)
        if ts and rng.random() < 0.3:
            ts.append(ts[0])
        spk[str(v)] = ts
    keys = list(spk)
    if len(keys) >= 2 and spk[keys[0]] and rng.random() < 0.5:
        spk[keys[1]] = spk[keys[1]] + [spk[keys[0]][0]]
    bounds = {}
    return {"alias": rng.random() < 0.5, "max_step": max_step, "sim": sim, "spk": spk, "bounds": bounds,
            "fracs": rng.choice([[1.0], [1.0, 0.5], [0.5, 1.0], [0.25, 1.0, 0.5], [1.0, 1.0, 0.25]])}


def ticks_scale(values):
    k = 0
    while any((Fraction(v) * 2 ** k).denominator != 1 for v in values):
        k += 1
        if k > 200:
            raise ValueError("not dyadic")
    return k


def fq(x):
    return C.cq(Fraction(x))


def ref_spike_counts(run, sim):
    """independent bookkeeping: which (time, var) spikes must be applied: 0 < s < sim"""
    out = []
    for v, ts in run["spk"].items():
        for s in ts:
            if s < sim:
                out.append((s, int(v)))
    return sorted(out)


HEADER = "From Coq Require Import ZArith QArith Qcanon List Bool.\nFrom OdeVerif Require Import Base.Corr Model.AnalyticInt Model.MixedInt Model.MixedIntExec.\nImport ListNotations.\n"


def probe_run(si, run_, tl, yl, names, n_num, ivs):
    """the property text on one simulated run (time, start, bounds, spike bookkeeping); returns (key, what) pairs"""
    sim = run_["sim"]
    fails = []
    if tl[0] != 0.0:
        fails.append(("time", "trajectory does not start at time 0"))
    if yl[0][:n_num] != ivs and not any(s <= 0 for ts in run_["spk"].values() for s in ts):
        fails.append(("time", "trajectory does not start at the initial values: %s vs %s" % (yl[0], ivs)))
    if any(b <= a for a, b in zip(tl, tl[1:])):
        fails.append(("time", "time does not advance strictly: %s" % tl))
    if tl[-1] < sim:
        fails.append(("time", "simulation ends at %s, before the requested duration %s" % (tl[-1], sim)))
    if not run_["alias"] and (tl[-1] != sim or any(t >= sim for t in tl[:-1])):
        fails.append(("time", "precise mode must end exactly at the requested duration %s: %s" % (sim, tl[-3:])))
    if run_["alias"] and tl[-1] - run_["max_step"] >= sim:
        fails.append(("time", "aliased mode: the last grid step started at %s, not before the requested duration %s" % (tl[-1] - run_["max_step"], sim)))
    # bounds: after every step a variable beyond a bound equals its initial value
    alls = sorted(set(t for ts in run_["spk"].values() for t in ts))
    for kk_ in range(1, len(tl)):
        row = yl[kk_]
        ms = run_["max_step"]
        on_grid = abs(tl[kk_] / ms - round(tl[kk_] / ms)) < 1e-9
        spiked = any((not run_["alias"] and s_ == tl[kk_]) or (run_["alias"] and on_grid and tl[kk_] - ms < s_ <= tl[kk_]) or s_ <= 0 for s_ in alls)
        if spiked:
            continue       # the logged array also shows the spike increments applied at this boundary
        for i, nm in enumerate(names[:n_num]):
            b = run_["bounds"].get(nm, {})
            if "ub" in b and row[i] > b["ub"] and row[i] != ivs[i]:
                fails.append(("upper_bound", "%s = %s exceeds its upper bound %s after a step" % (nm, row[i], b["ub"])))
            if "lb" in b and row[i] < b["lb"] and row[i] != ivs[i]:
                fails.append(("lower_bound", "%s = %s is below its lower bound %s after a step and was not reset" % (nm, row[i], b["lb"])))
    # spikes on bound-free, constant-derivative variables: total jump = count * initial value
    if not run_["bounds"] and si in (0, 1, 3):
        slopes = {0: [1.0, -0.5], 1: [0.25], 3: [2.0, 0.125, 0.0]}[si]
        for i in range(n_num):
            cnt = sum(1 for s in run_["spk"].get(str(i), []) if (s < sim if not run_["alias"] else s <= tl[-1]))
            exp = ivs[i] + slopes[i] * tl[-1] + cnt * ivs[i]
            if abs(yl[-1][i] - exp) > 1e-12:
                fails.append(("spikes", "%s: final value %s, expected %s = initial + slope*T + %d spikes x initial value (each spike before the end applied exactly once)" % (names[i], yl[-1][i], exp, cnt)))
            # each spike at its own time (precise) / first grid boundary not before it (aliased)
            ms = run_["max_step"]
            allsp = run_["spk"].get(str(i), [])
            for s in sorted(set(t for t in allsp if 0 < t < sim and t <= tl[-1])):
                if not run_["alias"]:
                    if s not in tl:
                        fails.append(("spikes", "precise mode: spike time %s of %s is not a step boundary" % (s, names[i])))
                        continue
                    k = tl.index(s)
                    napplied = sum(1 for s2 in allsp if s2 == s)
                else:
                    import math
                    tb = math.ceil(s / ms - 1e-12) * ms
                    ks = [j_ for j_, t in enumerate(tl) if abs(t - tb) < 1e-12]
                    if not ks:
                        fails.append(("spikes", "aliased mode: grid boundary %s (first one not before the spike at %s) is not in the time log" % (tb, s)))
                        continue
                    k = ks[0]
                    lo = tb - ms if tb - ms > 1e-12 else float("-inf")
                    napplied = sum(1 for s2 in allsp if lo < s2 <= tb)
                before = yl[k - 1][i] + slopes[i] * (tl[k] - tl[k - 1])
                if abs(yl[k][i] - (before + napplied * ivs[i])) > 1e-12:
                    fails.append(("spikes", "%s: the %d spike(s) due at step boundary %s (among them the one at %s) were not applied there exactly once: value %s, expected %s" % (names[i], napplied, tl[k], s, yl[k][i], before + napplied * ivs[i])))
    return fails

def run(ctx):
    rng = random.Random(ctx["seed"] * 1303 + 13)
    quick = ctx["tier"] == "quick"
    nruns = 60 if quick else 600
    tasks, meta = [], []
    var_names = {0: ["x", "y"], 1: ["x"], 2: ["x", "g"], 3: ["x", "y", "z"]}
    nnum = {0: 2, 1: 1, 2: 1, 3: 3}
    for si, (ind, da, desc) in enumerate(SYSTEMS):
        runs = []
        for _ in range(nruns):
            r = gen_run(rng, len(var_names[si]), nnum[si])
            # bounds on the numeric base variables
            for nm in var_names[si][:nnum[si]]:
                if rng.random() < 0.5 and not ctx.get("no_bounds"):
                    b = {}
                    if rng.random() < 0.7:
                        b["ub"] = rng.choice([1.5, 2.0, 4.5, 0.5, 0.0])
                    if rng.random() < 0.6:
                        b["lb"] = rng.choice([-0.5, 0.25, 3.0, -2.0, 0.0])
                    r["bounds"][nm] = b
            runs.append(r)
        # chunks of at most 100 runs per worker task (each chunk builds its own integrator): no task runs for more than a few minutes
        for c0 in range(0, len(runs), 100):
            tasks.append({"fn": "c13.impl_run", "indict": ind, "disable_analytic": da, "runs": runs[c0:c0 + 100], "timeout": 2400})
            meta.append((si, runs[c0:c0 + 100], []))
        # the same instance after OTHER systems (sharing variable names, with other initial values) were simulated in the same interpreter
        before = [k for k in range(len(SYSTEMS)) if k != si]
        rng.shuffle(before)
        before = before[: (2 if quick else 3)]
        nb = 8 if quick else 60
        tasks.append({"fn": "c13.impl_run", "indict": ind, "disable_analytic": da, "runs": runs[:nb], "before": before, "timeout": 3000, "fresh": True})
        meta.append((si, runs[:nb], before))
    res = C.run_tasks(tasks, timeout=3000, stub=True)
    coq, info, probe_failures, corr_errors = [], [], [], []
    dist = {"runs": 0, "alias": 0, "precise": 0, "with_upper": 0, "with_lower": 0, "crossed": 0, "errors": 0, "spikes_total": 0, "partial_step_scripts": 0, "systems": [d for _, _, d in SYSTEMS]}
    nontriv = set()
    samples = []
    for (si, runs, before), r in zip(meta, res):
        if r.get("outcome") != "Ok":
            corr_errors.append("instance %d failed: %s %s" % (si, r.get("outcome"), r.get("detail", "")[:300]))
            continue
        names = r["names"]
        n_num = nnum[si]
        ivs = r["ivs"]
        for run_, o in zip(runs, r["outs"]):
            dist["runs"] += 1
            if not o["ok"]:
                dist["errors"] += 1
                probe_failures.append({"key": "integrate_ode raises: " + C.stable_hash([si, run_]), "what": "integrate_ode raised %s for run %s on %s" % (o["err"], run_, SYSTEMS[si][0]), "replay": {"system": si, "run": run_, "before": before}})
                continue
            dist["alias" if run_["alias"] else "precise"] += 1
            dist["with_upper"] += int(any("ub" in b for b in run_["bounds"].values()))
            dist["with_lower"] += int(any("lb" in b for b in run_["bounds"].values()))
            dist["crossed"] += int(o["crossed"])
            dist["partial_step_scripts"] += int(run_["fracs"] != [1.0])
            dist["spikes_total"] += sum(len(v) for v in run_["spk"].values())
            tl, yl = o["t_log"], o["y_log"]
            sim = run_["sim"]
            # ---------- probes: the property text ----------
            fails = probe_run(si, run_, tl, yl, names, n_num, ivs)
            for key, what in fails[:2]:
                kk = "lower bound not enforced" if key == "lower_bound" else "%s: %s" % (key, C.stable_hash([si, run_]))
                probe_failures.append({"key": kk, "what": what + " | system %s run %s" % (SYSTEMS[si][0]["dynamics"], run_), "replay": {"system": si, "run": run_, "before": before}})
            # ---------- correspondence ----------
            allt = tl + [a[0] for a in o["answers"]] + [sim, run_["max_step"]] + [s for ts in run_["spk"].values() for s in ts]
            k = ticks_scale(allt)
            sc = 2 ** k
            tz = lambda x: C.cz(int(Fraction(x) * sc))
            bounds = []
            for i, nm in enumerate(names[:n_num]):
                b = run_["bounds"].get(nm, {})
                bounds.append("(%s, %s, %s)" % ("Some %s" % fq(b["ub"]) if "ub" in b else "None", "Some %s" % fq(b["lb"]) if "lb" in b else "None", fq(ivs[i])))
            coq.append("{| mBounds := %s; mIncs := %s; mAlias := %s; mSim := %s; mMaxStep := %s; mSpk := %s; mInit := %s; mAnswers := %s; mObsT := %s; mObsY := %s; mObsCrossed := %s |}" % (
                C.clist(bounds), C.clist([fq(v) for v in ivs]), C.cbool(run_["alias"]), tz(sim), tz(run_["max_step"]),
                C.clist(["(%s, %s)" % (C.cnat(int(v)), C.clist([tz(s) for s in ts])) for v, ts in run_["spk"].items()]),
                C.clist([fq(v) for v in ivs]),
                C.clist(["(%s, %s)" % (tz(a[0]), C.clist([fq(v) for v in a[1]])) for a in o["answers"]]),
                C.clist([tz(t) for t in tl]), C.clist([C.clist([fq(v) for v in row]) for row in yl]), C.cbool(o["crossed"])))
            info.append({"system": SYSTEMS[si][0], "run": run_, "simulated_before_in_same_interpreter": before, "t_log": tl[:12]})
            nontriv.add(C.stable_hash([si, run_, before]))
            dist["runs_after_other_systems_in_one_interpreter"] = dist.get("runs_after_other_systems_in_one_interpreter", 0) + int(bool(before))
            if len(samples) < 3 and run_["spk"] and run_["bounds"]:
                samples.append({"system": SYSTEMS[si][0], "run": run_, "t_log": tl, "y_log": yl})
    mism, errs = C.coq_eval_shards(PROP, HEADER, coq, per=40)
    corr_errors += errs
    corr_mismatches = [{"layer": "t_log / y_log / upper_bound_crossed vs Model/MixedInt.integrate on the recorded stepper answers", "case": info[i]} for i in mism[:6]]
    return {"evaluations": len(coq), "distinct_nontrivial": len(nontriv),
            "rule": "4 MixedIntegrator instances (constant-derivative numeric variables; one with an analytic variable feeding a numeric one) x random runs: both aliasing modes, 5 maximum step sizes, 5 durations, random spike maps (duplicates, coincident, at 0, at/after the end), upper and lower bounds, scripted full/partial steps; exact arithmetic; distinct by hash of (system, run)",
            "samples": samples, "distribution": dist,
            "layers": {"L1 trajectory log (exact, in Coq)": len(coq), "probe: time / bounds / spike bookkeeping": dist["runs"]},
            "corr_mismatches": corr_mismatches, "corr_errors": corr_errors, "probe_failures": probe_failures}


def search(ctx, res):
    """extended search when an obligation/correspondence broke without a probe failure: bound-free runs
    (for which the spike bookkeeping probe is exact), further seeds"""
    out = []
    for k in (1, 2):
        r = run({"tier": "quick", "seed": ctx["seed"] * 10 + k, "prop": PROP, "no_bounds": True})
        out += r["probe_failures"]
        if out:
            break
    return out


def replay(payload):
    rp = payload.get("replay") or {}
    if "run" not in rp:
        return True, "replay file names a broken obligation (no concrete input): " + str(payload.get("no_longer_checks"))[:500]
    ind, da, _ = SYSTEMS[rp["system"]]
    r = C.run_tasks([{"fn": "c13.impl_run", "indict": ind, "disable_analytic": da, "runs": [rp["run"]], "before": rp.get("before", []), "fresh": True}], timeout=1800, stub=True)[0]
    if r.get("outcome") != "Ok" or not r["outs"][0]["ok"]:
        return False, "run failed: %s" % str(r)[:300]
    o = r["outs"][0]
    names, ivs = r["names"], r["ivs"]
    nnum = {0: 2, 1: 1, 2: 1, 3: 3}[rp["system"]]
    fails = probe_run(rp["system"], rp["run"], o["t_log"], o["y_log"], names, nnum, ivs)
    return (not fails), "probe on the replayed run: %s" % (fails[:2] or "no failure")
