"""C02 — numeric-solver expressions equal the user's right-hand sides (lossless split)."""
import random
import re
from fractions import Fraction

from . import common as C
from . import sysutil as U

PROP = "C02"
PROPS_FILE = "theories/Props/C02.v"
THEOREMS = ["c02_split_lossless", "c02_row_is_rhs", "c02_row_of_function_of_time", "c02_lower_rows", "c02_subsystem_lossless", "c02_numeric_update_is_rhs", "c02_system_rows", "c02_preserved_or_computed"]
GEN_FILES = ["PreserveGen.v"]
TRUSTED = ["Coq 8.16.1 kernel + vm_compute",
           "theorems closed under the global context; stated in an arbitrary commutative ring (ring_theory hypothesis) with pw a 1 = a",
           "correspondence harness (harness/c02.py, sysutil.py, sysimpl.py): renders abstract systems, evaluates the implementation's A, b, c and update expressions exactly at rational points (Float atoms replaced by their exact binary value), comparison computed in Coq by Model/SystemExec",
           "modelled not verified: SymPy parse/expand/simplify/collect/print (assumed meaning-preserving; validated per case by the exact comparison and by the probe)"]
ASSUMPTIONS = ["inputs of the exact layer are Laurent polynomials with dyadic coefficients (floats exact); function atoms (tanh/exp/min/max/Heaviside) and decimal literals are covered by the 40-digit probe only",
               "state variables are not parameters (par x = false for x in the state vector): true by construction in _from_json_to_shapes"]

SIMPL = [None, "sympy.simplify(expr)", "sympy.logcombine(sympy.powsimp(sympy.expand(expr)))", "expr"]
FUN_SNIPPETS = ["tanh(%(v)s/2)", "exp(-%(v)s**2)", "max(%(v)s, 0)", "min(%(v)s, %(w)s)", "Heaviside(%(v)s - 1/2)", "%(v)s*exp(%(w)s/8)", "sin(%(v)s)*%(w)s", "log(1 + %(v)s**2)"]


def point_names(system, pt, marker="__d"):
    offs, n = U.offsets(system)
    d = {}
    for gi in range(n):
        d[U.var_name(system, gi, marker)] = str(pt[("v", gi)])
    for k, nm in enumerate(system["params"]):
        d[nm] = str(pt[("p", k)])
    d[system.get("time_symbol", "t")] = str(pt[("t",)])
    return d


def gen_cases(rng, nsys, per_sys):
    cases = []
    for k in range(nsys):
        system = U.gen_system(rng)
        pt = U.gen_point(system, rng)
        first_order = [e["name"] for e in system["entries"] if e["order"] == 1]
        for _ in range(per_sys):
            flags = {"disable_analytic_solver": rng.random() < 0.5}
            q = rng.random()
            if q < 0.25:
                flags["preserve_expressions"] = True
            elif q < 0.45 and first_order:
                flags["preserve_expressions"] = rng.sample(first_order, rng.randint(1, len(first_order)))
            se = rng.choice(SIMPL)
            if se:
                flags["simplify_expression"] = se
            style = rng.choice([0, 0, 1, 2])
            indict = U.render(system, style=style, rng=random.Random(rng.random()))
            cases.append({"system": system, "pt": {"|".join(map(str, k_)): str(v) for k_, v in pt.items()}, "flags": flags, "indict": indict, "style": style})
    return cases


def pt_of(case):
    pt = {}
    for k, v in case["pt"].items():
        parts = k.split("|")
        key = (parts[0],) if len(parts) == 1 else (parts[0], int(parts[1]))
        pt[key] = Fraction(v)
    return pt


def to_coq(case, res, keep, obsupd):
    system = case["system"]
    pt = pt_of(case)
    n = U.offsets(system)[1]
    fo = lambda v: "None" if v is None else "(Some %s)" % U.cq(v)
    return "{| c_n := %d; c_fdeps := %s; c_shapes := %s; c_rho := %s; c_keep := %s; c_obsA := %s; c_obsb := %s; c_obsc := %s; c_obsupd := %s |}" % (
        n, U.cfdeps(system), U.cshapes(system), U.crho(system, pt), C.clist([C.cbool(b) for b in keep]),
        C.clist([C.clist([U.cq(v) for v in row]) for row in res["A"]]), C.clist([U.cq(v) for v in res["b"]]), C.clist([U.cq(v) for v in res["c"]]),
        C.clist([fo(v) for v in obsupd]))


HEADER_ABC = "From Coq Require Import List ZArith QArith Qcanon.\nFrom OdeVerif Require Import Base.Corr Model.Term Model.Split Model.System Model.SystemExec.\nImport ListNotations.\nDefinition mism := mism_abc.\n"
HEADER_UPD = HEADER_ABC.replace("mism_abc", "mism_upd")


# ---- function-atom / float-literal stream (probe only) ----------------------------------------

def impl_fstream(task):
    import sympy
    import mpmath
    import odetoolbox
    from odetoolbox.config import Config
    from . import impl_worker
    defaults = dict(Config.config)
    ns = {"Symbol": sympy.Symbol, "Integer": sympy.Integer, "Float": sympy.Float, "exp": sympy.exp, "log": sympy.log, "sin": sympy.sin, "cos": sympy.cos,
          "tanh": sympy.tanh, "min": sympy.Min, "max": sympy.Max, "Heaviside": sympy.Heaviside, "Rational": sympy.Rational, "Min": sympy.Min, "Max": sympy.Max}
    try:
        try:
            res = odetoolbox.analysis(task["indict"], disable_stiffness_check=True, **task["flags"])
        except BaseException as e:   # noqa
            return {"outcome": impl_worker.classify_exception(e), "detail": str(e)[:200]}
        subs = {sympy.Symbol(k): sympy.Float(v, 40) for k, v in task["point"].items()}
        diffs = []
        for s in res:
            if not s["solver"].startswith("numeric"):
                continue
            for var, expr in s["update_expressions"].items():
                if var not in task["user"]:
                    continue
                got = sympy.parsing.sympy_parser.parse_expr(expr, global_dict=dict(ns)).evalf(40, subs=subs)
                want = sympy.parsing.sympy_parser.parse_expr(task["user"][var], global_dict=dict(ns)).evalf(40, subs=subs)
                try:
                    d = abs(complex(got) - complex(want))
                    sc = max(1.0, abs(complex(want)))
                    diffs.append([var, float(d / sc), str(expr)[:200]])
                except Exception as ex:
                    diffs.append([var, None, "non-numeric: %s | %s" % (got, want)])
        return {"outcome": "Ok", "diffs": diffs, "solvers": [s["solver"] for s in res]}
    finally:
        Config.config.clear()
        Config.config.update(defaults)


def gen_fcase(rng):
    system = U.gen_system(rng, max_entries=3, allow_order=(1, 1, 2), kinds=("lin", "nonlin", "coupled", "off"))
    offs, n = U.offsets(system)
    marker = "__d"
    user = {}
    dyn = []
    for e, o in zip(system["entries"], offs):
        rhs = U.rhs_str(system, e["rhs"], style=rng.choice([0, 1, 2]), rng=rng)
        if rng.random() < 0.7:
            v = U.var_name(system, rng.randrange(n))
            w = U.var_name(system, rng.randrange(n))
            rhs += " %s %s*%s" % (rng.choice("+-"), rng.choice(["3", "0.25", "1.7", "2/3"]), rng.choice(FUN_SNIPPETS) % {"v": v, "w": w})
        if rng.random() < 0.4:
            rhs += " %s %s*%s" % (rng.choice("+-"), rng.choice(["0.1", "2.5e-1", "1.3"]), U.var_name(system, rng.randrange(n)))
        d = {"expression": "%s%s = %s" % (e["name"], "'" * e["order"], rhs)}
        if e["order"] == 1:
            d["initial_value"] = e["ivs"][0]
        else:
            d["initial_values"] = {e["name"] + "'" * k: e["ivs"][k] for k in range(e["order"])}
        dyn.append(d)
        user[e["name"] + marker * (e["order"] - 1)] = rhs.replace("'", marker)
        for k in range(e["order"] - 1):
            user[e["name"] + marker * k] = e["name"] + marker * (k + 1)
    point = {U.var_name(system, gi, marker): repr(rng.uniform(-2, 2)) for gi in range(n)}
    point.update({p: repr(rng.uniform(0.5, 3)) for p in system["params"]})
    flags = {"disable_analytic_solver": rng.random() < 0.5}
    se = rng.choice(SIMPL)
    if se:
        flags["simplify_expression"] = se
    if rng.random() < 0.3:
        flags["preserve_expressions"] = True
    return {"fn": "c02.impl_fstream", "indict": {"dynamics": dyn}, "flags": flags, "user": user, "point": point, "timeout": 60}


def run(ctx):
    rng = random.Random(ctx["seed"] * 1009 + 2)
    quick = ctx["tier"] == "quick"
    cases = gen_cases(rng, 70 if quick else 700, 2 if quick else 4)
    tasks = [{"fn": "sysimpl.run_analysis", "indict": c["indict"], "flags": c["flags"], "want": ["abc", "upd"],
              "point": point_names(c["system"], pt_of(c)), "timeout": 45} for c in cases]
    ftasks = [gen_fcase(rng) for _ in range(60 if quick else 600)]
    # function-of-time entries handed to the numeric solver: the update expressions must be those of the equivalent
    # equations (never the function text, never the time variable), whatever is asked to be preserved
    from . import c06 as _c06
    for F in _c06.FORMULATIONS:
        user = {}
        for d_ in F["ode"]["dynamics"]:
            lhs_, rhs_ = d_["expression"].split("=")
            nm_, order_ = lhs_.strip().replace("'", ""), lhs_.count("'")
            user[nm_ + "__d" * (order_ - 1)] = rhs_.strip().replace("'", "__d")
            for k_ in range(order_ - 1):
                user[nm_ + "__d" * k_] = nm_ + "__d" * (k_ + 1)
        names_ = sorted(user)
        firsts_ = [d_["expression"].split("=")[0].strip().replace("'", "") for d_ in F["fot"]["dynamics"] if d_["expression"].split("=")[0].count("'") <= 1]
        for pe_ in (None, True, firsts_[:1], firsts_):
            fl_ = {"disable_analytic_solver": True}
            if pe_ is not None:
                fl_["preserve_expressions"] = pe_
            idents_ = set(re.findall(r"[A-Za-z_][A-Za-z_0-9]*", " ".join(list(user.values()) + [d_["expression"] for d_ in F["fot"]["dynamics"]]))) - {"exp", "e", "sin", "cos"}
            pt_ = {nm: repr(rng.uniform(0.3, 2)) for nm in sorted(idents_ | set(names_) | {"t"})}
            ftasks.append({"fn": "c02.impl_fstream", "indict": F["fot"], "flags": fl_, "user": user, "point": pt_, "timeout": 200, "function_of_time": True})
    allres = C.run_tasks(tasks + ftasks, timeout=45)
    results, fres = allres[:len(tasks)], allres[len(tasks):]
    coq_abc, coq_upd, info_abc, info_upd = [], [], [], []
    probe_failures, corr_errors = [], []
    dist = {"outcomes": {}, "flags": {"disable_analytic": 0, "preserve_true": 0, "preserve_list": 0, "simplify": {}}, "n_vars": {}, "kinds": {}, "numeric_vars_checked": 0,
            "preserved_text_checked": 0, "fstream_outcomes": {}, "fstream_compared": 0}
    nontriv = set()
    samples = []
    for c, r in zip(cases, results):
        oc = r.get("outcome")
        dist["outcomes"][oc] = dist["outcomes"].get(oc, 0) + 1
        system = c["system"]
        offs, n = U.offsets(system)
        dist["n_vars"][str(n)] = dist["n_vars"].get(str(n), 0) + 1
        for e in system["entries"]:
            dist["kinds"][e["gen_kind"]] = dist["kinds"].get(e["gen_kind"], 0) + 1
        f = c["flags"]
        dist["flags"]["disable_analytic"] += int(f.get("disable_analytic_solver", False))
        dist["flags"]["preserve_true"] += int(f.get("preserve_expressions") is True)
        dist["flags"]["preserve_list"] += int(isinstance(f.get("preserve_expressions"), list))
        dist["flags"]["simplify"][str(f.get("simplify_expression"))] = dist["flags"]["simplify"].get(str(f.get("simplify_expression")), 0) + 1
        if oc != "Ok":
            continue
        pt = pt_of(c)
        names = [U.var_name(system, gi, "__d") for gi in range(n)]
        if r.get("x") != names:
            corr_errors.append("state vector order differs: %s vs %s" % (r.get("x"), names))
            continue
        # numeric subset and observed update values
        keep = [False] * n
        obsupd = [None] * n
        ok_exact = True
        for s, u in zip(r["solvers"], r["upd"]):
            if not s["solver"].startswith("numeric"):
                continue
            for nm in s["state_variables"]:
                gi = names.index(nm)
                keep[gi] = True
                if u.get(nm) is None:
                    ok_exact = False
                else:
                    obsupd[gi] = Fraction(u[nm])
        # ---- probe: the property itself
        for e, o in zip(system["entries"], offs):
            for d in range(e["order"]):
                gi = o + d
                if not keep[gi] or obsupd[gi] is None:
                    continue
                exp = U.eval_poly(e["rhs"], pt) if d == e["order"] - 1 else pt[("v", gi + 1)]
                dist["numeric_vars_checked"] += 1
                if obsupd[gi] != exp:
                    probe_failures.append({"key": "numeric update != user rhs: " + C.stable_hash([c["indict"], c["flags"], names[gi]]),
                                           "what": "update expression of %s evaluates to %s at a rational point, the user's right-hand side to %s (input %s, flags %s)" % (names[gi], obsupd[gi], exp, c["indict"]["dynamics"], c["flags"]),
                                           "replay": {"case": c, "variable": names[gi]}})
            # preservation: verbatim text
            pe = f.get("preserve_expressions", False)
            if e["order"] == 1 and keep[o] and (pe is True or (isinstance(pe, list) and e["name"] in pe)):
                num = [s for s in r["solvers"] if s["solver"].startswith("numeric")][0]
                src = [d_ for d_ in c["indict"]["dynamics"] if d_["expression"].split("=")[0].strip() == e["name"] + "'"][0]["expression"].split("=")[1].strip()
                dist["preserved_text_checked"] += 1
                if num["update_expressions"][e["name"]] != src.replace("'", "__d"):
                    probe_failures.append({"key": "preserved text differs: " + C.stable_hash([c["indict"], c["flags"], e["name"]]),
                                           "what": "preserve_expressions: returned %r, user wrote %r" % (num["update_expressions"][e["name"]], src),
                                           "replay": {"case": c, "variable": e["name"]}})
        # ---- correspondence inside Coq
        if all(v is not None for row in r["A"] for v in row) and all(v is not None for v in r["b"] + r["c"]):
            coq_abc.append(to_coq(c, r, keep, obsupd))
            info_abc.append({"indict": c["indict"], "flags": c["flags"]})
        if ok_exact and any(keep):
            coq_upd.append(to_coq(c, {"A": [], "b": [], "c": []}, keep, obsupd))
            info_upd.append({"indict": c["indict"], "flags": c["flags"], "numeric": [names[i] for i in range(n) if keep[i]]})
            nontriv.add(C.stable_hash([c["indict"], c["flags"]]))
        if len(samples) < 3 and any(keep):
            samples.append({"indict": c["indict"], "flags": c["flags"], "numeric": [names[i] for i in range(n) if keep[i]],
                            "update_expressions": [s["update_expressions"] for s in r["solvers"] if s["solver"].startswith("numeric")]})
    for t, r in zip(ftasks, fres):
        oc = r.get("outcome")
        dist["fstream_outcomes"][oc] = dist["fstream_outcomes"].get(oc, 0) + 1
        if oc != "Ok":
            if t.get("function_of_time") and oc == "Malformed":
                # a request to preserve a function-of-time entry (not a first-order ODE) is documented to be refused
                dist["fot_preserve_refused"] = dist.get("fot_preserve_refused", 0) + 1
            continue
        if t.get("function_of_time"):
            dist["function_of_time_numeric_runs"] = dist.get("function_of_time_numeric_runs", 0) + 1
        for var, d, ex in r["diffs"]:
            dist["fstream_compared"] += 1
            if d is None or d > 1e-11:
                probe_failures.append({"key": "numeric update != user rhs (function/float stream): " + C.stable_hash([t["indict"], t["flags"], var]),
                                       "what": "update expression of %s differs from the user's right-hand side by %s (relative) at a random point: %s; input %s flags %s" % (var, d, ex, t["indict"]["dynamics"], t["flags"]),
                                       "replay": {"ftask": t, "variable": var}})
    m1, e1 = C.coq_eval_shards(PROP + "abc", HEADER_ABC, coq_abc, per=40)
    m2, e2 = C.coq_eval_shards(PROP + "upd", HEADER_UPD, coq_upd, per=40)
    corr_errors += e1 + e2
    corr_mismatches = [{"layer": "L2 (A,b,c) of _analysis vs Model/System.from_shapes at a rational point", "case": info_abc[i]} for i in m1[:5]] + \
                      [{"layer": "L1 numeric update_expressions vs Model/System.numeric_update at a rational point", "case": info_upd[i]} for i in m2[:5]]
    return {"evaluations": len(cases) + len(ftasks), "distinct_nontrivial": len(nontriv),
            "rule": "random systems (1-4 entries, order 1-3, linear/offset/nonlinear/time-dependent/coupled kinds, Laurent-polynomial right-hand sides with dyadic coefficients, 3 spellings, shuffled terms) x flag settings (disable_analytic_solver, preserve_expressions False/True/list, 4 simplify_expression values); plus a function-atom/float-literal stream compared at 40 digits; non-trivial = a case with at least one numerically solved variable compared exactly; distinct by hash of (input, flags)",
            "samples": samples, "distribution": dist,
            "layers": {"L1 numeric update expressions (exact, in Coq)": len(coq_upd), "L2 (A,b,c) (exact, in Coq)": len(coq_abc),
                       "probe: update == user's rhs (exact Fraction)": dist["numeric_vars_checked"], "probe: function/float stream (40 digits)": dist["fstream_compared"]},
            "corr_mismatches": corr_mismatches, "corr_errors": corr_errors, "probe_failures": probe_failures}


def replay(payload):
    rp = payload.get("replay") or {}
    if "case" in rp:
        c = rp["case"]
        r = C.run_tasks([{"fn": "sysimpl.run_analysis", "indict": c["indict"], "flags": c["flags"], "want": ["upd"], "point": point_names(c["system"], pt_of(c))}], timeout=120)[0]
        if r.get("outcome") != "Ok":
            return False, "analysis failed: %s" % r.get("outcome")
        system = c["system"]
        offs, n = U.offsets(system)
        pt = pt_of(c)
        names = [U.var_name(system, gi, "__d") for gi in range(n)]
        for s, u in zip(r["solvers"], r["upd"]):
            if s["solver"].startswith("numeric") and rp["variable"] in u:
                gi = names.index(rp["variable"])
                for e, o in zip(system["entries"], offs):
                    if o <= gi < o + e["order"]:
                        exp = U.eval_poly(e["rhs"], pt) if gi == o + e["order"] - 1 else pt[("v", gi + 1)]
                        return (u[rp["variable"]] is not None and Fraction(u[rp["variable"]]) == exp), "update=%s rhs=%s" % (u[rp["variable"]], exp)
        return True, "variable no longer numerically solved"
    if "ftask" in rp:
        r = C.run_tasks([rp["ftask"]], timeout=120)[0]
        bad = [d for d in r.get("diffs", []) if d[1] is None or d[1] > 1e-11]
        return (r.get("outcome") == "Ok" and not bad), "diffs: %s" % bad
    return True, "replay file names a broken obligation (no concrete input): " + str(payload.get("no_longer_checks"))[:500]
