"""C06 — the result depends on the dynamical system, not on how it is presented (twin runs)."""
import copy
import itertools
import random
import re

from . import common as C
from . import sysutil as U
from . import c01, c03

PROP = "C06"
PROPS_FILE = "theories/Props/C06.v"
THEOREMS = ["c06_perm_verdict", "c06_rows_agree", "c06_updates_agree", "c06_edge_order_irrelevant"]
GEN_FILES = []
TRUSTED = ["Coq 8.16.1 kernel + vm_compute",
           "c06_perm_verdict and c06_rows_agree closed under the global context; c06_updates_agree (Coquelicot) depends on the standard library's axioms ClassicalDedekindReals.sig_not_dec, sig_forall_dec, FunctionalExtensionality.functional_extensionality_dep, Classical_Prop.classic",
           "names are indices in the model: consistent renaming is invisible to every model function (parametricity); it is the correspondence (twin runs) that ties the string-level handling of names to this",
           "correspondence harness (harness/c06.py): every generated system vs entry permutations, injective renamings from an adversarial pool (names that exist in SymPy's own namespace, prefixes of each other, with underscores) and re-formulations of homogeneous linear shapes (function of time / one n-th order equation / chain of first-order equations); success, analytic set and numerical fingerprints of all update maps and initial values compared after mapping",
           "ORACLE: SymPy's exp/simplify are assumed equivariant under permutation and renaming (validated by the twins)"]
ASSUMPTIONS = ["update maps compared at fixed pseudo-random points with 14 significant digits (propagators substituted)",
               "twins where either presentation exceeds the time limit are counted and excluded"]

# adversarial names: in SymPy's namespace but not predefined by the toolbox; prefixes of each other; underscores
RENAME_VARS = ["beta", "gamma", "zeta", "N", "S", "Q", "O", "Sx", "Sxy", "I_e", "x_", "x__", "lamda", "Chi", "ff"]
RENAME_PARS = ["Si", "Ci", "li", "LC", "re", "im", "GF", "FF", "QQ", "rad", "deg", "var", "ln", "beta_1", "tau_", "oo_"]

FORMULATIONS = [
    # (function of time, n-th order ODE, chain) of the same homogeneous linear shape; correspondence of variables
    {"name": "alpha",
     "fot": {"dynamics": [{"expression": "g = (e/tau)*t*exp(-t/tau)"}]},
     "ode": {"dynamics": [{"expression": "g'' = -g/tau**2 - 2*g'/tau", "initial_values": {"g": "0", "g'": "e/tau"}}]},
     "chain": {"dynamics": [{"expression": "g' = k", "initial_value": "0"}, {"expression": "k' = -g/tau**2 - 2*k/tau", "initial_value": "e/tau"}]},
     "map": {"k": "g__d"}},
    {"name": "exp",
     "fot": {"dynamics": [{"expression": "g = 2*exp(-t/tau)"}]},
     "ode": {"dynamics": [{"expression": "g' = -g/tau", "initial_value": "2"}]},
     "chain": {"dynamics": [{"expression": "g' = -g/tau", "initial_values": {"g": "2"}}]},
     "map": {}},
    {"name": "third_order",
     "fot": {"dynamics": [{"expression": "g = t**2*exp(-t)"}]},
     "ode": {"dynamics": [{"expression": "g''' = -g - 3*g' - 3*g''", "initial_values": {"g": "0", "g'": "0", "g''": "2"}}]},
     "chain": {"dynamics": [{"expression": "g' = k", "initial_value": "0"}, {"expression": "k' = m", "initial_value": "0"}, {"expression": "m' = -g - 3*k - 3*m", "initial_value": "2"}]},
     "map": {"k": "g__d", "m": "g__d__d"}},
    {"name": "beta_in_system",
     "fot": {"dynamics": [{"expression": "g = exp(-t/2) - exp(-t)"}, {"expression": "V' = -V/tau + g", "initial_value": "0"}]},
     "ode": {"dynamics": [{"expression": "g'' = -g/2 - 3*g'/2", "initial_values": {"g": "0", "g'": "1/2"}}, {"expression": "V' = -V/tau + g", "initial_value": "0"}]},
     "chain": {"dynamics": [{"expression": "g' = k", "initial_value": "0"}, {"expression": "k' = -g/2 - 3*k/2", "initial_value": "1/2"}, {"expression": "V' = -V/tau + g", "initial_value": "0"}]},
     "map": {"k": "g__d"}},
    # another equation refers to a DERIVATIVE of the re-formulated shape
    {"name": "alpha_derivative_read_elsewhere",
     "fot": {"dynamics": [{"expression": "g = (e/tau)*t*exp(-t/tau)"}, {"expression": "V' = -V/tau_m + g'/C", "initial_value": "0"}]},
     "ode": {"dynamics": [{"expression": "g'' = -g/tau**2 - 2*g'/tau", "initial_values": {"g": "0", "g'": "e/tau"}}, {"expression": "V' = -V/tau_m + g'/C", "initial_value": "0"}]},
     "chain": {"dynamics": [{"expression": "g' = k", "initial_value": "0"}, {"expression": "k' = -g/tau**2 - 2*k/tau", "initial_value": "e/tau"}, {"expression": "V' = -V/tau_m + k/C", "initial_value": "0"}]},
     "map": {"k": "g__d"}},
    {"name": "third_order_derivatives_read_elsewhere",
     "fot": {"dynamics": [{"expression": "V' = -V/2 + g'' - g'/4", "initial_value": "1"}, {"expression": "g = t**2*exp(-t)"}]},
     "ode": {"dynamics": [{"expression": "V' = -V/2 + g'' - g'/4", "initial_value": "1"}, {"expression": "g''' = -g - 3*g' - 3*g''", "initial_values": {"g": "0", "g'": "0", "g''": "2"}}]},
     "chain": {"dynamics": [{"expression": "V' = -V/2 + m - k/4", "initial_value": "1"}, {"expression": "g' = k", "initial_value": "0"}, {"expression": "k' = m", "initial_value": "0"}, {"expression": "m' = -g - 3*k - 3*m", "initial_value": "2"}]},
     "map": {"k": "g__d", "m": "g__d__d"}},
]


def rename_indict(ind, ren):
    """consistent renaming of identifiers in expressions, initial-value keys and bounds"""
    rx = re.compile(r"[A-Za-z_][A-Za-z_0-9]*")
    def f(s):
        return rx.sub(lambda m: ren.get(m.group(0), m.group(0)), s)
    out = {"dynamics": []}
    for d in ind["dynamics"]:
        nd = {}
        for k, v in d.items():
            if k == "initial_values":
                nd[k] = {f(kk): f(vv) for kk, vv in v.items()}
            elif isinstance(v, str):
                nd[k] = f(v)
            else:
                nd[k] = v
        out["dynamics"].append(nd)
    if "parameters" in ind:
        out["parameters"] = {f(k): v for k, v in ind["parameters"].items()}
    return out


def canon_values(names, rng):
    return {nm: repr(rng.uniform(0.6, 1.9)) for nm in names}


def run(ctx):
    rng = random.Random(ctx["seed"] * 6101 + 6)
    quick = ctx["tier"] == "quick"
    systems = c01.corpus()
    for _ in range(26 if quick else 260):
        if rng.random() < 0.6:
            systems.append(c01.gen_linear(rng))
        else:
            s = U.gen_system(rng, max_entries=3, allow_order=(1, 1, 2), kinds=("lin", "nonlin", "coupled", "off", "lin"), nparams=rng.choice([0, 1, 2]))
            if U.offsets(s)[1] <= 4 and not any(e["order"] > 1 and any(not any(a[0] == "v" for a, _ in t["pows"]) for t in e["rhs"]) for e in s["entries"]):
                systems.append(s)
    # cascades: a chain of linear variables of depth 2-3 hanging below a nonlinear (or offset) one, plus an independent
    # linear variable; compared under EVERY entry order (the worklist's result must not depend on the order of discovery)
    def cascade():
        T = c01.T
        names = U.pick_names(rng, 4)
        depth = rng.choice([2, 3])
        top_nonlinear = rng.random() < 0.7
        ents = []
        top = [T(rng.choice([-1, Fraction(-1, 2)]), [[["v", 0], rng.choice([2, 3])]])] if top_nonlinear else [T(-1, [[["v", 0], 1]]), T(rng.choice([1, 3]), [])]
        ents.append(top)
        for i in range(1, 4):
            terms = [T(rng.choice([-1, -2, Fraction(-1, 4)]), [[["v", i], 1]])]
            if i <= depth:
                terms.append(T(rng.choice([1, 2]), [[["v", i - 1], 1]]))
            ents.append(terms)
        return {"entries": [{"name": names[i], "order": 1, "kind": "ode", "rhs": U.merge_terms(ents[i]), "ivs": [U.coef_str(rng.choice([1, 2, Fraction(1, 2)]))], "single_iv": True, "gen_kind": "cascade"}
                            for i in range(4)], "params": [], "funs": [], "all_perms": True}
    from fractions import Fraction
    for _ in range(1 if quick else 6):
        systems.append(cascade())
    tasks, groups = [], []          # groups: list of (kind, base_index, [twin indices], description)
    def add(ind, canon, values, flags=None):
        tasks.append({"fn": "sysimpl.run_twin", "indict": ind, "canon": canon, "values": values, "flags": flags or {}, "api_timeout": 30, "timeout": 100})
        return len(tasks) - 1
    for si, s in enumerate(systems):
        offs, n = U.offsets(s)
        names = [U.var_name(s, gi, "__d") for gi in range(n)]
        allnames = names + list(s["params"]) + ["__h"]
        values = canon_values(allnames, rng)
        s2 = copy.deepcopy(s)
        # bounds on one first-order entry (expressions in a parameter) so that renaming reaches them
        if s2["params"] and rng.random() < 0.5:
            for e in s2["entries"]:
                if e["order"] == 1:
                    e["upper_bound"] = s2["params"][0]
                    break
        base_ind = U.render(s2, style=0, rng=random.Random(si))
        base = add(base_ind, {}, values)
        twins = []
        m = len(s2["entries"])
        if m > 1:
            allp = list(itertools.permutations(range(m)))[1:]
            for p in (allp if (len(allp) <= 5 and not quick) or s.get("all_perms") else rng.sample(allp, min(len(allp), 2))):
                ps = c03.permute_system(s2, p)
                for e_new, i_old in zip(ps["entries"], p):
                    for b in ("upper_bound", "lower_bound"):
                        if b in s2["entries"][i_old]:
                            e_new[b] = s2["entries"][i_old][b]
                twins.append(("permutation %s" % (p,), add(U.render(ps, style=0, rng=random.Random(si)), {}, values)))
        # renaming of variables and parameters
        for _ in range(1 if quick else 3):
            rv = rng.sample(RENAME_VARS, m)
            rp = rng.sample(RENAME_PARS, len(s2["params"]))
            ren = {e["name"]: nv for e, nv in zip(s2["entries"], rv)}
            ren.update({p: np_ for p, np_ in zip(s2["params"], rp)})
            canon = {}
            for e, nv in zip(s2["entries"], rv):
                for d in range(e["order"]):
                    canon[nv + "__d" * d] = e["name"] + "__d" * d
            canon.update({np_: p for p, np_ in zip(s2["params"], rp)})
            twins.append(("renaming %s" % ren, add(rename_indict(base_ind, ren), canon, values)))
        groups.append(("system", base, twins, base_ind))
    for F in FORMULATIONS:
        names = ["g", "g__d", "g__d__d", "V", "tau", "__h"]
        values = canon_values(names, rng)
        base = add(F["ode"], {}, values)
        twins = [("function of time", add(F["fot"], {}, values)), ("first-order chain", add(F["chain"], dict(F["map"]), values))]
        groups.append(("formulation " + F["name"], base, twins, F["ode"]))
    res = C.run_tasks(tasks, timeout=100)
    probe_failures, corr_errors = [], []
    dist = {"twin_kinds": {"permutation": 0, "renaming": 0, "function of time": 0, "first-order chain": 0}, "base_outcomes": {}, "compared": 0, "excluded_timeouts": 0, "with_bounds": 0}
    nontriv = set()
    samples = []
    for kind, b, twins, base_ind in groups:
        rb = res[b]
        if rb.get("outcome") != "Ok":
            corr_errors.append("worker failed: %s" % str(rb)[:200])
            continue
        dist["base_outcomes"][rb["api"]] = dist["base_outcomes"].get(rb["api"], 0) + 1
        dist["with_bounds"] += int(any("upper_bound" in d for d in base_ind["dynamics"]))
        for desc, ti in twins:
            rt = res[ti]
            if rt.get("outcome") != "Ok":
                continue
            tk = desc.split(" ")[0] if desc.split(" ")[0] in ("permutation", "renaming") else desc
            dist["twin_kinds"][tk] = dist["twin_kinds"].get(tk, 0) + 1
            if "Timeout" in (rb["api"], rt["api"]):
                dist["excluded_timeouts"] += 1
                continue
            dist["compared"] += 1
            nontriv.add(C.stable_hash([base_ind, desc]))
            key_ren = "renaming to a name known to SymPy breaks an input with bounds" if tk == "renaming" and any("upper_bound" in d for d in base_ind["dynamics"]) else None
            if rb["api"] == "Ok" and rt["api"] != "Ok":
                probe_failures.append({"key": key_ren or "presentation turns success into an error: " + C.stable_hash([base_ind, desc]),
                                       "what": "%s: the original input is analysed successfully, its twin (%s) fails with %s (%s); original %s; twin %s" % (kind, desc, rt["api"], rt.get("detail", "")[:120], base_ind, tasks[ti]["indict"]),
                                       "replay": {"base": tasks[b], "twin": tasks[ti]}})
                continue
            if rb["api"] != "Ok" and rt["api"] == "Ok":
                probe_failures.append({"key": key_ren or "presentation turns success into an error: " + C.stable_hash([base_ind, desc]),
                                       "what": "%s: the twin (%s) is analysed successfully, the original fails with %s (%s); original %s; twin %s" % (kind, desc, rb["api"], rb.get("detail", "")[:120], base_ind, tasks[ti]["indict"]),
                                       "replay": {"base": tasks[ti], "twin": tasks[b]}})
                continue
            if rb["api"] != "Ok":
                continue
            if rb["analytic"] != rt["analytic"] or rb["numeric"] != rt["numeric"]:
                probe_failures.append({"key": "presentation changes which variables are solved analytically: " + C.stable_hash([base_ind, desc]),
                                       "what": "%s, %s: analytic sets %s vs %s; original %s; twin %s" % (kind, desc, rb["analytic"], rt["analytic"], base_ind, tasks[ti]["indict"]),
                                       "replay": {"base": tasks[b], "twin": tasks[ti]}})
                continue
            def close(a, c):
                fa, fc = float(a), float(c)
                if fa == fc or (fa != fa and fc != fc):      # equal, including two overflows of the same sign / two NaNs (rates of 1000 overflow the fingerprint's doubles)
                    return True
                return abs(fa - fc) <= 1e-9 * max(1.0, abs(fa))
            bad = [v for v in rb["fingerprint"] if v not in rt["fingerprint"] or not close(rb["fingerprint"][v], rt["fingerprint"][v])]
            badiv = [v for v in rb["ivs"] if v not in rt["ivs"] or not close(rb["ivs"][v], rt["ivs"][v])]
            if bad or badiv:
                probe_failures.append({"key": "presentation changes the returned functions: " + C.stable_hash([base_ind, desc]),
                                       "what": "%s, %s: update maps of %s / initial values of %s differ (%s vs %s); original %s; twin %s" % (kind, desc, bad, badiv, {v: rb["fingerprint"][v] for v in bad}, {v: rt["fingerprint"].get(v) for v in bad}, base_ind, tasks[ti]["indict"]),
                                       "replay": {"base": tasks[b], "twin": tasks[ti]}})
            if len(samples) < 3 and rb["analytic"]:
                samples.append({"original": base_ind, "twin": tasks[ti]["indict"], "kind": desc, "analytic": rb["analytic"]})
    return {"evaluations": len(tasks), "distinct_nontrivial": len(nontriv),
            "rule": "corpus + random linear/mixed systems (some with a bound given as a parameter expression) and four homogeneous linear shapes in three formulations; twins: entry permutations, injective renamings from an adversarial name pool, function of time / n-th order equation / first-order chain; distinct by hash of (original, twin kind)",
            "samples": samples, "distribution": dist,
            "layers": {"twin runs compared (success, analytic set, update maps, initial values)": dist["compared"]},
            "corr_mismatches": [], "corr_errors": corr_errors, "probe_failures": probe_failures}


def replay(payload):
    rp = payload.get("replay") or {}
    if "base" not in rp:
        return True, "replay file names a broken obligation (no concrete input): " + str(payload.get("no_longer_checks"))[:500]
    r = C.run_tasks([dict(rp["base"], api_timeout=120, timeout=200), dict(rp["twin"], api_timeout=120, timeout=200)], timeout=200)
    a, b = r
    if a.get("api") == "Ok" and b.get("api") not in ("Ok", "Timeout"):
        return False, "twin fails with %s" % b.get("api")
    if a.get("api") == "Ok" and b.get("api") == "Ok" and (a["analytic"] != b["analytic"]):
        return False, "analytic sets differ: %s vs %s" % (a["analytic"], b["analytic"])
    return True, "twins agree (%s / %s)" % (a.get("api"), b.get("api"))
