"""C12 — analytic integrator: exact spike-driven solution for any query history.

Correspondence: real AnalyticIntegrator objects (integer nilpotent flows, dyadic times, so
float arithmetic is exact) are driven through random operation histories; the recorded
get_value outputs and the same histories are evaluated by Model/AnalyticIntExec.v inside Coq.
Probe: an independent exact Fraction reference of the property statement itself."""
import random
import time
from fractions import Fraction

from . import common as C

PROP = "C12"
PROPS_FILE = "theories/Props/C12.v"
THEOREMS = ["c12_exact", "c12_all_outputs", "c12_history_independent", "c12_merge_sorted", "c12_merge_syms", "c12_merge_times", "c12_presentation_independent"]
GEN_FILES = []
TRUSTED = ["Coq 8.16.1 kernel + vm_compute (no native_compute)",
           "theorems closed under the global context (Print Assumptions recorded below)",
           "correspondence harness harness/c12.py: renders solver dicts/histories, records get_value outputs as exact rationals, comparison computed in Coq by Model/AnalyticIntExec.mism",
           "modelled not verified: SymPy parsing/substitution and cython autowrap evaluate the update expressions (flow phi is a Section variable; its law phi 0 = id is a hypothesis)",
           "IEEE arithmetic: theorems are over exact integers/rationals; the test systems are exact in binary floating point"]
ASSUMPTIONS = ["phi 0 s = s for the propagator update (hypothesis of every theorem)",
               "queries at t >= 0 (the theorems' ops_nonneg); negative queries are exercised by the correspondence only",
               "spike trains are set before the history starts (set_spike_times followed by reset), as the property states"]

TICK = Fraction(1, 8)
VARS = ["x", "y", "z", "w"]


def dyadic(fr):
    d = fr.denominator
    return d & (d - 1) == 0


def gen_flow(rng, n):
    """strictly upper-triangular integer N with exp(N h) having dyadic coefficients"""
    while True:
        N = [[0] * n for _ in range(n)]
        for i in range(n):
            for j in range(i + 1, n):
                if j == i + 1 or rng.random() < 0.4:
                    N[i][j] = rng.choice([0, 1, 2, 3, 4, -1, -2, 6])
        # powers
        P = [[[Fraction(int(i == j))] for j in range(n)] for i in range(n)]   # coefficient lists in h
        Nk = [[Fraction(int(i == j)) for j in range(n)] for i in range(n)]
        fact = 1
        ok = True
        for k in range(1, n):
            Nk = [[sum(Nk[i][m] * N[m][j] for m in range(n)) for j in range(n)] for i in range(n)]
            fact *= k
            for i in range(n):
                for j in range(n):
                    c = Nk[i][j] / fact
                    if not dyadic(c):
                        ok = False
                    P[i][j].append(c)
        if ok and any(N[i][j] for i in range(n) for j in range(n)):
            return N, P


def poly_str(coefs):
    terms = []
    for k, c in enumerate(coefs):
        if c == 0:
            continue
        cs = "(%d/%d)" % (c.numerator, c.denominator) if c.denominator != 1 else "(%d)" % c.numerator
        terms.append(cs if k == 0 else "%s*__h**%d" % (cs, k))
    return " + ".join(terms) if terms else "0"


def solver_dict(n, P, init, order=None):
    names = VARS[:n]
    props = {}
    upd = {}
    for i in range(n):
        ts = []
        for j in range(n):
            if any(c != 0 for c in P[i][j]):
                key = "__P__%s__%s" % (names[i], names[j])
                props[key] = poly_str(P[i][j])
                ts.append("%s*%s" % (key, names[j]))
        upd[names[i]] = " + ".join(ts) if ts else "0"
    d = {"solver": "analytical", "state_variables": names,
         "initial_values": {names[i]: str(init[i]) for i in range(n)},
         "propagators": props, "update_expressions": upd}
    # the order of the keys inside the three dictionaries is presentation (e.g. a dictionary stored with sort_keys and reloaded)
    if order is not None:
        for key in ("initial_values", "propagators", "update_expressions"):
            ks = list(d[key].keys())
            if order == "reversed":
                ks.reverse()
            elif order == "sorted":
                ks.sort()
            else:
                random.Random(order).shuffle(ks)
            d[key] = {k_: d[key][k_] for k_ in ks}
    return d


def gen_history(rng, n, nops, horizon=64):
    names = VARS[:n]
    spk = {}
    for v in rng.sample(range(n), rng.randint(0, n)):
        k = rng.choice([0, 1, 2, 3, 5, 8])
        ts = [rng.choice([0, -3, horizon + 5]) if rng.random() < 0.08 else rng.randint(1, horizon) for _ in range(k)]
        if ts and rng.random() < 0.4:
            ts.append(rng.choice(ts))          # duplicate
        spk[v] = ts
    # coincident spikes across variables
    keys = list(spk.keys())
    if len(keys) >= 2 and rng.random() < 0.6 and spk[keys[0]]:
        spk[keys[1]] = spk[keys[1]] + [rng.choice(spk[keys[0]])]
    alltimes = [t for ts in spk.values() for t in ts] or [5]
    ops = []
    last = 0
    for _ in range(nops):
        r = rng.random()
        if r < 0.08:
            ops.append(["E"])
        elif r < 0.16:
            ops.append(["D"])
        elif r < 0.20:
            ops.append(["R"])
        else:
            q = rng.random()
            if q < 0.3:
                t = rng.choice(alltimes)
            elif q < 0.45:
                t = last
            elif q < 0.6:
                t = max(-2, last - rng.randint(1, 20))
            else:
                t = rng.randint(0, horizon + 8)
            last = t
            ops.append(["G", t])
    caching = rng.random() < 0.7
    init = [rng.randint(-4, 6) for _ in range(n)] if rng.random() < 0.5 else None
    return {"spk": {str(k): v for k, v in spk.items()}, "ops": ops, "caching": caching, "init": init}


# ---------------------------------------------------------------------------------------
# implementation side (runs in a worker)
# ---------------------------------------------------------------------------------------

def impl_run(task):
    from odetoolbox.analytic_integrator import AnalyticIntegrator
    sd = task["solver_dict"]
    names = sd["state_variables"]
    ai = AnalyticIntegrator(sd, {})
    outs = []
    for h in task["histories"]:
        spk = {names[int(k)]: [t * float(TICK) for t in v] for k, v in h["spk"].items()}
        if h["init"] is not None:
            ai.set_initial_values({names[i]: str(h["init"][i]) for i in range(len(names))})
        else:
            ai.set_initial_values(dict(sd["initial_values"]))
        ai.set_spike_times(spk)
        ai.enable_caching = h["caching"]
        ai.enable_cache_update()
        ai.reset()
        o = []
        for op in h["ops"]:
            if op[0] == "G":
                st = ai.get_value(op[1] * float(TICK))
                o.append([float(st[nm]).hex() for nm in names])
            elif op[0] == "E":
                ai.enable_cache_update()
            elif op[0] == "D":
                ai.disable_cache_update()
            elif op[0] == "R":
                ai.reset()
        outs.append(o)
    return {"outcome": "Ok", "outs": outs}


# ---------------------------------------------------------------------------------------
# independent reference (probe)
# ---------------------------------------------------------------------------------------

def ref_state(n, P, init, incs, spk, t):
    """exact state at tick t; events = all (time, var) pairs with 0 < s <= t"""
    pairs = sorted([(s, int(v)) for v, ts in spk.items() for s in ts if 0 < s <= t], key=lambda p: p[0])
    st = [Fraction(x) for x in init]
    tc = 0

    def flow(k, st):
        h = TICK * k
        return [sum(sum(c * h ** e for e, c in enumerate(P[i][j])) * st[j] for j in range(n)) for i in range(n)]
    for s, v in pairs:
        if s > tc:
            st = flow(s - tc, st)
            tc = s
        st[v] += incs[v]
    if t > tc:
        st = flow(t - tc, st)
    return st


def to_coq_case(n, P, init, incs, h, obs):
    q = C.cq
    ops = []
    for op in h["ops"]:
        ops.append({"G": lambda: "Get %s" % C.cz(op[1]), "E": lambda: "EnableUpd", "D": lambda: "DisableUpd", "R": lambda: "Reset"}[op[0]]())
    return ("{| cP := %s; cTick := %s; cInit := %s; cIncs := %s; cSpk := %s; cCaching := %s; cOps := %s; cObs := %s |}" % (
        C.clist([C.clist([C.clist([q(c) for c in P[i][j]]) for j in range(n)]) for i in range(n)]),
        q(TICK), C.clist([q(x) for x in init]), C.clist([q(x) for x in incs]),
        C.clist(["(%s, %s)" % (C.cnat(int(v)), C.clist([C.cz(t) for t in ts])) for v, ts in h["spk"].items()]),
        C.cbool(h["caching"]), C.clist(ops),
        C.clist([C.clist([q(x) for x in o]) for o in obs])))


HEADER = "From Coq Require Import ZArith QArith Qcanon List.\nFrom OdeVerif Require Import Base.Corr Model.AnalyticInt Model.AnalyticIntExec.\nImport ListNotations.\n"


def run(ctx):
    rng = random.Random(ctx["seed"] * 7919 + 12)
    quick = ctx["tier"] == "quick"
    ninst = 6 if quick else 16
    nhist = 120 if quick else 1200
    maxops = 12 if quick else 40
    tasks = []
    meta = []
    for k in range(ninst):
        n = [2, 3, 4, 3, 2, 4][k % 6]
        N, P = gen_flow(rng, n)
        init = [rng.randint(-3, 5) for _ in range(n)]
        hs = [gen_history(rng, n, rng.randint(1, maxops)) for _ in range(nhist)]
        order = [None, "reversed", "sorted", "shuffle-%d" % rng.randint(0, 999)][k % 4]
        tasks.append({"fn": "c12.impl_run", "solver_dict": solver_dict(n, P, init, order), "histories": hs, "timeout": 600 if quick else 2400})
        meta.append((n, N, P, init, hs))
    results = C.run_tasks(tasks, timeout=600)
    cases = []
    caseinfo = []
    probe_failures = []
    corr_errors = []
    dist = {"dims": {}, "key_orders_of_the_solver_dictionaries": ["as returned", "reversed", "sorted", "shuffled"], "ops": {"G": 0, "E": 0, "D": 0, "R": 0}, "caching_on": 0, "histories": 0,
            "backward_queries": 0, "queries_at_spike_times": 0, "coincident_spike_times": 0, "negative_or_zero_spikes": 0}
    nontrivial = set()
    samples = []
    for mi, ((n, N, P, init, hs), res) in enumerate(zip(meta, results)):
        if res.get("outcome") != "Ok":
            corr_errors.append("implementation run failed: %s %s" % (res.get("outcome"), res.get("detail", "")[:300]))
            continue
        dist["dims"][str(n)] = dist["dims"].get(str(n), 0) + 1
        incs = [Fraction(x) for x in init]      # shape_starting_values = the constructor's initial values
        for h, outs in zip(hs, res["outs"]):
            obs = [[Fraction(float.fromhex(x)) for x in o] for o in outs]
            ini = h["init"] if h["init"] is not None else init
            cases.append(to_coq_case(n, P, ini, incs, h, obs))
            caseinfo.append({"N": N, "init": ini, "increments": init, "history": h, "observed": [[str(x) for x in o] for o in obs]})
            dist["histories"] += 1
            dist["caching_on"] += int(h["caching"])
            alltimes = set(t for ts in h["spk"].values() for t in ts)
            tl = [t for ts in h["spk"].values() for t in ts]
            dist["coincident_spike_times"] += int(len(tl) != len(set(tl)))
            dist["negative_or_zero_spikes"] += int(any(t <= 0 for t in tl))
            last = None
            gi = 0
            nt = False
            for op in h["ops"]:
                dist["ops"][op[0]] += 1
                if op[0] == "G":
                    t = op[1]
                    if last is not None and t < last:
                        dist["backward_queries"] += 1
                        nt = True
                    if t in alltimes:
                        dist["queries_at_spike_times"] += 1
                    last = t
                    # probe: the property itself
                    if t >= 0:
                        exp = ref_state(n, P, ini, incs, h["spk"], t)
                        if exp != obs[gi]:
                            probe_failures.append({
                                "key": "get_value history " + C.stable_hash([N, ini, h]),
                                "what": "get_value(%s) returned %s, exact solution is %s" % (float(t * TICK), [str(x) for x in obs[gi]], [str(x) for x in exp]),
                                "replay": {"N": N, "solver_dict": tasks[mi]["solver_dict"], "tick": str(TICK), "history": h, "query_index": gi}})
                    gi += 1
            if nt or len(alltimes) > 1:
                nontrivial.add(C.stable_hash([N, ini, h]))
            if len(samples) < 3 and len(h["ops"]) > 4:
                samples.append(caseinfo[-1])
    mism, errs = C.coq_eval_shards(PROP, HEADER, cases, per=150)
    corr_errors += errs
    corr_mismatches = [{"layer": "get_value outputs vs Model/AnalyticIntExec", "case": caseinfo[i]} for i in mism[:10]]
    return {"evaluations": len(cases), "distinct_nontrivial": len(nontrivial),
            "rule": "random nilpotent integer flows (dim 2-4) x random spike maps (unsorted, duplicates, coincident, <=0 and beyond-horizon times) x random op histories (Get incl. repeats/backward/at spike times, cache-update toggles, reset), both caching modes; non-trivial = history with a backward query or >1 distinct spike time; distinct by hash of (flow, init, history)",
            "samples": samples, "distribution": dist,
            "layers": {"L1 get_value outputs (exact equality, decided in Coq)": len(cases), "probe: independent Fraction reference": dist["ops"]["G"]},
            "corr_mismatches": corr_mismatches, "corr_errors": corr_errors, "probe_failures": probe_failures}


def search(ctx, res):
    """extended search: more seeds"""
    out = []
    for s in range(1, 4):
        r = run({"tier": "quick", "seed": ctx["seed"] * 100 + s, "prop": PROP})
        out += r["probe_failures"]
        if out:
            break
    return out


def replay(payload):
    rp = payload.get("replay") or {}
    if "solver_dict" not in rp:
        return True, "replay file names a broken obligation (no concrete input): " + str(payload.get("no_longer_checks"))[:500]
    h = rp["history"]
    n = len(rp["solver_dict"]["state_variables"])
    res = C.run_tasks([{"fn": "c12.impl_run", "solver_dict": rp["solver_dict"], "histories": [h]}], timeout=600)[0]
    if res.get("outcome") != "Ok":
        return False, "implementation failed: %s" % res
    N = rp["N"]
    # rebuild P from N
    P = [[[Fraction(int(i == j))] for j in range(n)] for i in range(n)]
    Nk = [[Fraction(int(i == j)) for j in range(n)] for i in range(n)]
    fact = 1
    for k in range(1, n):
        Nk = [[sum(Nk[i][m] * N[m][j] for m in range(n)) for j in range(n)] for i in range(n)]
        fact *= k
        for i in range(n):
            for j in range(n):
                P[i][j].append(Nk[i][j] / fact)
    init0 = [Fraction(rp["solver_dict"]["initial_values"][v]) for v in rp["solver_dict"]["state_variables"]]
    ini = h["init"] if h["init"] is not None else init0
    gi = 0
    for op in h["ops"]:
        if op[0] == "G":
            obs = [Fraction(float.fromhex(x)) for x in res["outs"][0][gi]]
            if op[1] >= 0 and obs != ref_state(n, P, ini, init0, h["spk"], op[1]):
                return False, "get_value(%s) = %s differs from the exact solution %s" % (op[1] * float(TICK), obs, ref_state(n, P, ini, init0, h["spk"], op[1]))
            gi += 1
    return True, "history replays correctly"
