"""Fail-closed translators: regenerate coq/theories/Gen/*.v from /repo's current sources.
Any construct outside the small supported fragment raises TranslateError; the generated file
is then removed, so every theorem that imports it stops building (a broken obligation)."""
import ast
import os

from . import common as C

GEN = os.path.join(C.COQ, "theories", "Gen")


class TranslateError(Exception):
    pass


def _src(rel):
    return open(os.path.join(C.REPO, rel)).read()


def _find_func(tree, cls, name):
    for node in ast.walk(tree):
        if isinstance(node, ast.ClassDef) and node.name == cls:
            for f in node.body:
                if isinstance(f, ast.FunctionDef) and f.name == name:
                    return f
    raise TranslateError("function %s.%s not found" % (cls, name))


def _pure_log_arg(e):
    """expressions that cannot change control flow or values: constants, names, attributes, +, %, f-strings, tuples,
    str()/repr()/len() of such"""
    if isinstance(e, (ast.Constant, ast.Name)):
        return True
    if isinstance(e, ast.Attribute):
        return _pure_log_arg(e.value)
    if isinstance(e, ast.BinOp) and isinstance(e.op, (ast.Add, ast.Mod)):
        return _pure_log_arg(e.left) and _pure_log_arg(e.right)
    if isinstance(e, (ast.Tuple, ast.List)):
        return all(_pure_log_arg(x) for x in e.elts)
    if isinstance(e, ast.JoinedStr):
        return all(_pure_log_arg(v) for v in e.values)
    if isinstance(e, ast.FormattedValue):
        return _pure_log_arg(e.value)
    if isinstance(e, ast.Call) and isinstance(e.func, ast.Name) and e.func.id in ("str", "repr", "len") and not e.keywords:
        return all(_pure_log_arg(a) for a in e.args)
    return False


def is_noise(st):
    """statements a translator may skip: pass, bare string constants, logging.<level>(pure arguments)"""
    if isinstance(st, ast.Pass):
        return True
    if isinstance(st, ast.Expr) and isinstance(st.value, ast.Constant) and isinstance(st.value.value, str):
        return True
    if isinstance(st, ast.Expr) and isinstance(st.value, ast.Call):
        c = st.value
        if isinstance(c.func, ast.Attribute) and isinstance(c.func.value, ast.Name) and c.func.value.id == "logging" \
                and c.func.attr in ("debug", "info", "warning", "warn", "error", "critical") and not c.keywords:
            return all(_pure_log_arg(a) for a in c.args)
    return False


def strip_noise(stmts):
    return [st for st in stmts if not is_noise(st)]


def coq_string(s):
    if any(ord(ch) > 126 or ord(ch) < 32 for ch in s):
        raise TranslateError("non-printable string constant")
    return '"' + s.replace('"', '""') + '"%string'


# ---------------------------------------------------------------------------------------
# DecisionGen.v  <-  StiffnessTester._draw_decision
# ---------------------------------------------------------------------------------------

def gen_decision():
    tree = ast.parse(_src("odetoolbox/stiffness.py"))
    f = _find_func(tree, "StiffnessTester", "_draw_decision")
    args = [a.arg for a in f.args.args]
    if args[0] != "self":
        raise TranslateError("expected a method")
    params = args[1:]
    ndef = len(f.args.defaults)
    defaults = {}
    for a, d in zip(params[len(params) - ndef:], f.args.defaults):
        if not (isinstance(d, ast.Constant) and isinstance(d.value, int) and not isinstance(d.value, bool)):
            raise TranslateError("default of %s is not an integer literal" % a)
        defaults[a] = d.value
    body = strip_noise(list(f.body))
    env = set(params)
    eps_names = []
    alias = {}

    def expr(e):
        if isinstance(e, ast.Name):
            if e.id in alias:
                return alias[e.id]
            if e.id not in env:
                raise TranslateError("unknown name " + e.id)
            return e.id
        if isinstance(e, ast.BinOp) and isinstance(e.op, ast.Mult):
            return "(mul %s %s)" % (expr(e.left), expr(e.right))
        raise TranslateError("unsupported arithmetic expression: " + ast.dump(e)[:80])

    # leading assignments:  <name> = np.finfo(float).eps   or   <name> = <product of known names>
    while body and isinstance(body[0], ast.Assign):
        a = body[0]
        if len(a.targets) != 1 or not isinstance(a.targets[0], ast.Name):
            raise TranslateError("unsupported assignment")
        v = a.value
        ok = (isinstance(v, ast.Attribute) and v.attr == "eps" and isinstance(v.value, ast.Call)
              and isinstance(v.value.func, ast.Attribute) and v.value.func.attr == "finfo"
              and isinstance(v.value.func.value, ast.Name) and v.value.func.value.id in ("np", "numpy")
              and len(v.value.args) == 1 and isinstance(v.value.args[0], ast.Name) and v.value.args[0].id == "float")
        if not ok:
            # a local abbreviation of an arithmetic expression over known names (inlined); assigned once
            if a.targets[0].id in env or a.targets[0].id in alias:
                raise TranslateError("re-assignment of " + a.targets[0].id)
            alias[a.targets[0].id] = expr(v)
            body = body[1:]
            continue
        eps_names.append(a.targets[0].id)
        env.add(a.targets[0].id)
        body = body[1:]

    def test(e):
        if isinstance(e, ast.BoolOp) and isinstance(e.op, ast.And):
            parts = [test(v) for v in e.values]
            out = parts[-1]
            for p in reversed(parts[:-1]):
                out = "(andb %s %s)" % (p, out)
            return out
        if isinstance(e, ast.BoolOp) and isinstance(e.op, ast.Or):
            parts = [test(v) for v in e.values]
            out = parts[-1]
            for p in reversed(parts[:-1]):
                out = "(orb %s %s)" % (p, out)
            return out
        if isinstance(e, ast.UnaryOp) and isinstance(e.op, ast.Not):
            return "(negb %s)" % test(e.operand)
        if isinstance(e, ast.Compare) and len(e.ops) == 1:
            l, r = expr(e.left), expr(e.comparators[0])
            op = e.ops[0]
            if isinstance(op, ast.Gt):
                return "(ltb %s %s)" % (r, l)
            if isinstance(op, ast.Lt):
                return "(ltb %s %s)" % (l, r)
            if isinstance(op, ast.GtE):
                return "(leb %s %s)" % (r, l)
            if isinstance(op, ast.LtE):
                return "(leb %s %s)" % (l, r)
        raise TranslateError("unsupported test: " + ast.dump(e)[:80])

    def block(stmts):
        """Translate a statement list every path of which returns."""
        stmts = strip_noise(stmts)
        if not stmts:
            raise TranslateError("a path falls off the end without return")
        s = stmts[0]
        if isinstance(s, ast.Return):
            if isinstance(s.value, ast.Constant) and isinstance(s.value.value, str):
                return coq_string(s.value.value)
            raise TranslateError("return of a non-string-constant")
        if isinstance(s, ast.If):
            t = test(s.test)
            rest = stmts[1:]
            then = block(list(s.body) if _always_returns(s.body) else list(s.body) + rest)
            els = block(list(s.orelse) if _always_returns(s.orelse) else list(s.orelse) + rest)
            return "(if %s then %s else %s)" % (t, then, els)
        raise TranslateError("unsupported statement: " + type(s).__name__)

    def _always_returns(stmts):
        stmts = strip_noise(stmts)
        if not stmts:
            return False
        s = stmts[-1]
        if isinstance(s, ast.Return):
            return True
        if isinstance(s, ast.If):
            return _always_returns(s.body) and _always_returns(s.orelse)
        return False

    term = block(body)
    if len(eps_names) != 1:
        raise TranslateError("expected exactly one machine-epsilon binding")
    allp = params + eps_names
    txt = "(* GENERATED by harness/translate.py from /repo/odetoolbox/stiffness.py (_draw_decision). Do not edit. *)\n"
    txt += "From Coq Require Import String Bool ZArith List.\nImport ListNotations.\n\n"
    txt += "Definition draw_decision (T : Type) (ltb leb : T -> T -> bool) (mul : T -> T -> T)\n    (%s : T) : string :=\n    %s.\n\n" % (" ".join(allp), term)
    txt += "Definition draw_params : list string := %s.\n" % C.clist([coq_string(p) for p in allp])
    txt += "Definition draw_defaults : list (string * Z) := %s.\n" % C.clist(
        ["(%s, %s)" % (coq_string(k), C.cz(v)) for k, v in defaults.items()])
    return txt


# ---------------------------------------------------------------------------------------
# RngGen.v  <-  which random generators _evaluate_integrator seeds, and which ones
#               spike_generator.py draws from
# ---------------------------------------------------------------------------------------

def _dotted(e):
    if isinstance(e, ast.Name):
        return e.id
    if isinstance(e, ast.Attribute):
        b = _dotted(e.value)
        return None if b is None else b + "." + e.attr
    return None


def _module_aliases(tree):
    """names bound by `import random`, `import numpy as np`, `import numpy.random` ..."""
    py, npm = set(), set()
    for node in ast.walk(tree):
        if isinstance(node, ast.Import):
            for a in node.names:
                if a.name == "random":
                    py.add(a.asname or "random")
                elif a.name == "numpy":
                    npm.add((a.asname or "numpy") + ".random")
                elif a.name == "numpy.random":
                    npm.add(a.asname or "numpy.random")
        elif isinstance(node, ast.ImportFrom):
            if node.module in ("random", "numpy.random", "numpy") :
                raise TranslateError("from-import of a random module is not supported")
    return py, npm


def gen_rng():
    forbidden = ("default_rng", "RandomState", "SystemRandom", "urandom", "secrets", "Random(")
    # --- seeded generators in _evaluate_integrator, before the spike train is generated
    st_src = _src("odetoolbox/stiffness.py")
    tree = ast.parse(st_src)
    py, npm = _module_aliases(tree)
    f = _find_func(tree, "StiffnessTester", "_evaluate_integrator")
    seeded = []
    seen_spikes = False
    for stmt in f.body:
        for node in ast.walk(stmt):
            if isinstance(node, ast.Call):
                d = _dotted(node.func)
                if d and d.endswith("spike_times_from_json"):
                    seen_spikes = True
                if d and d.endswith(".seed") and not seen_spikes:
                    base = d[:-len(".seed")]
                    ok_arg = (len(node.args) == 1 and _dotted(node.args[0]) == "self.random_seed")
                    if not ok_arg:
                        raise TranslateError("seed() called with something else than self.random_seed")
                    if base in py:
                        seeded.append("PY")
                    elif base in npm:
                        seeded.append("NP")
                    else:
                        raise TranslateError("seed() on unknown generator " + base)
    if not seen_spikes:
        raise TranslateError("_evaluate_integrator no longer calls spike_times_from_json")
    # --- generators drawn from in spike_generator.py
    sg_src = _src("odetoolbox/spike_generator.py")
    for w in forbidden:
        if w in sg_src or w in st_src:
            raise TranslateError("unsupported random source: " + w)
    tree2 = ast.parse(sg_src)
    py2, npm2 = _module_aliases(tree2)
    drawn = []
    for node in ast.walk(tree2):
        if isinstance(node, ast.Call):
            d = _dotted(node.func)
            if not d:
                continue
            for b in py2:
                if d.startswith(b + ".") and d.count(".") == b.count(".") + 1:
                    if d.endswith(".seed"):
                        raise TranslateError("spike generator reseeds a generator")
                    drawn.append("PY")
            for b in npm2:
                if d.startswith(b + "."):
                    if d.endswith(".seed"):
                        raise TranslateError("spike generator reseeds a generator")
                    drawn.append("NP")
    seeded = sorted(set(seeded))
    drawn = sorted(set(drawn))
    txt = "(* GENERATED by harness/translate.py from /repo/odetoolbox/stiffness.py (_evaluate_integrator) and spike_generator.py. Do not edit. *)\n"
    txt += "From Coq Require Import List.\nFrom OdeVerif Require Import Model.Stiffness.\nImport ListNotations.\n\n"
    txt += "Definition seeded_gens : list gen := %s.\n" % C.clist(seeded)
    txt += "Definition drawn_gens : list gen := %s.\n" % C.clist(drawn)
    return txt


# ---------------------------------------------------------------------------------------
# registry
# ---------------------------------------------------------------------------------------

GENERATORS = {"DecisionGen.v": gen_decision, "RngGen.v": gen_rng}


def register(name, fn):
    GENERATORS[name] = fn


def regenerate():
    """(Re)write every generated file whose content changed; returns a list of error strings."""
    os.makedirs(GEN, exist_ok=True)
    errors = []
    try:
        from . import translate_more  # noqa: F401  (registers further generators)
    except ImportError:
        pass
    for name, fn in GENERATORS.items():
        path = os.path.join(GEN, name)
        try:
            txt = fn()
        except TranslateError as e:
            errors.append("%s: %s" % (name, e))
            txt = None
        except Exception as e:   # noqa
            errors.append("%s: translator crashed: %s: %s" % (name, type(e).__name__, e))
            txt = None
        if txt is None:
            if os.path.exists(path):
                os.remove(path)
            continue
        old = open(path).read() if os.path.exists(path) else None
        if old != txt:
            with open(path, "w") as f:
                f.write(txt)
    return errors


if __name__ == "__main__":
    print(regenerate())
