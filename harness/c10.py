"""C10 — the Jacobian handed to implicit solvers is the true Jacobian of the right-hand side."""
import random
from fractions import Fraction

from . import common as C
from . import sysutil as U
from . import c02, c03

PROP = "C10"
PROPS_FILE = "theories/Props/C10.v"
THEOREMS = ["c10_jacobian", "c10_defect_characterised", "c10_model_entry", "c10_formal_derivative"]
GEN_FILES = []
TRUSTED = ["Coq 8.16.1 kernel + vm_compute", "theorems closed under the global context; stated for any commutative ring with derivations (ring_theory + additivity + Leibniz hypotheses)",
           "correspondence harness (harness/c10.py): SystemOfShapes.get_jacobian_matrix of the full system and of the numeric sub-system evaluated exactly at rational points vs Model/Jacobian.jac_row (A_ij + formal derivative of c_i), decided in Coq",
           "modelled not verified: sympy.diff (formal derivative of Laurent polynomials in the model), cython autowrap; pygsl replaced by the stand-in for the numerical half"]
ASSUMPTIONS = ["entries of A and b do not contain state variables (true of the split's buckets: C03 soundness lemma split_buckets)",
               "numerical half: finite differences with h=1e-6 on polynomial right-hand sides, tolerance 1e-5 (a test, not a proof)"]

HEADER = "From Coq Require Import List ZArith QArith Qcanon Bool.\nFrom OdeVerif Require Import Base.Corr Model.Term Model.Split Model.System Model.Jacobian Model.SystemExec.\nImport ListNotations.\nDefinition mism := mism_jac.\n"


def dterm(t, gi, pt):
    """d/dx_gi of a term, evaluated at pt"""
    e = 0
    for a, ex in t["pows"]:
        if a == ["v", gi]:
            e += ex
    if e == 0:
        return Fraction(0)
    v = Fraction(t["c"]) * e
    for a, ex in t["pows"]:
        if a == ["v", gi]:
            v *= pt[("v", gi)] ** (ex - 1) if ex - 1 != 0 else 1
        else:
            v *= pt[tuple(a)] ** ex
    # several occurrences of the same atom are merged by construction (merge_terms)
    return v


def true_jacobian(system, pt, idx):
    offs, n = U.offsets(system)
    rows = []
    for gi in idx:
        for e, o in zip(system["entries"], offs):
            if o <= gi < o + e["order"]:
                if gi < o + e["order"] - 1:
                    rows.append([Fraction(int(gj == gi + 1)) for gj in idx])
                else:
                    rows.append([sum((dterm(t, gj, pt) for t in e["rhs"]), Fraction(0)) for gj in idx])
    return rows


def run(ctx):
    rng = random.Random(ctx["seed"] * 7001 + 10)
    quick = ctx["tier"] == "quick"
    nsys = 70 if quick else 600
    systems = []
    while len(systems) < nsys:
        s = U.gen_system(rng, max_entries=3, allow_order=(1, 1, 1, 2, 2, 3), kinds=("lin", "nonlin", "nonlin", "coupled", "off", "nonlin"))
        if U.offsets(s)[1] <= 5:
            systems.append(s)
    # two or three mutually INDEPENDENT coupling groups whose variables are listed interleaved (v1, v2, w1, w2; x, y, z with
    # x-z coupled): the Jacobian is block-structured only up to a permutation
    def interleaved():
        T = lambda c, pows: {"c": str(c), "pows": pows}
        shape = rng.choice([[0, 1, 0, 1], [0, 1, 0], [0, 1, 1, 0], [0, 1, 2, 0, 1], [1, 0, 0, 1]])
        m = len(shape)
        names = U.pick_names(rng, m)
        ents = []
        for i in range(m):
            mates = [j for j in range(m) if shape[j] == shape[i] and j != i]
            terms = [T(rng.choice([-1, -2, Fraction(-1, 2)]), [[["v", i], rng.choice([1, 1, 3])]])]
            for j in mates:
                q = rng.random()
                if q < 0.5:
                    terms.append(T(rng.choice([1, -1, 2]), [[["v", i], 1], [["v", j], 1]]))
                elif q < 0.8:
                    terms.append(T(rng.choice([1, Fraction(1, 2)]), [[["v", j], 2]]))
                else:
                    terms.append(T(rng.choice([1, 3]), [[["v", j], 1]]))
            ents.append({"name": names[i], "order": 1, "kind": "ode", "rhs": U.merge_terms(terms), "ivs": [U.coef_str(rng.choice([1, 2, Fraction(1, 2)]))], "single_iv": True, "gen_kind": "interleaved_groups"})
        return {"entries": ents, "params": [], "funs": []}
    for _ in range(8 if quick else 60):
        systems.append(interleaved())
    tasks, meta = [], []
    for s in systems:
        pt = U.gen_point(s, rng)
        flags = {"disable_analytic_solver": rng.random() < 0.6}
        ind = U.render(s, style=rng.choice([0, 1, 2]), rng=random.Random(rng.random()))
        tasks.append({"fn": "sysimpl.run_jacobian", "indict": ind, "flags": flags, "point": c02.point_names(s, pt), "timeout": 40})
        meta.append((s, pt))
    # numerical half
    ntasks = []
    for k in range(4 if quick else 16):
        s = U.gen_system(rng, max_entries=2, allow_order=(1, 1, 2), kinds=("nonlin", "coupled", "lin"), nparams=rng.choice([0, 1, 2]), iv_params=False)
        while U.offsets(s)[1] > 3:
            s = U.gen_system(rng, max_entries=2, allow_order=(1, 1, 2), kinds=("nonlin", "coupled", "lin"), nparams=rng.choice([0, 1, 2]), iv_params=False)
        ind = U.render(s, parameters={p: repr(rng.choice([0.5, 1.5, 2.0, 0.25])) for p in s["params"]})
        states = [(rng.uniform(0, 1), [rng.uniform(0.5, 2.0) for _ in range(3)]) for _ in range(6)]
        ntasks.append({"fn": "sysimpl.run_numjac", "indict": ind, "states": states, "disable_analytic": k % 4 != 3, "timeout": 300})
    # mixed systems whose Jacobian depends on an analytically solved (time-varying) variable; the Jacobian is
    # requested at times in arbitrary order, interleaved with derivative evaluations at other times
    MIXED = [{"dynamics": [{"expression": "g' = -g/2", "initial_value": "1"}, {"expression": "V' = -g*V + V**2/8 - V/4", "initial_value": "1/2"}]},
             {"dynamics": [{"expression": "g'' = -g/4 - g'", "initial_values": {"g": "0", "g'": "1"}}, {"expression": "V' = g*(1 - V) - V**3/16", "initial_value": "1/4"}]}]
    for k, ind in enumerate(MIXED[: (1 if quick else 2)] if False else MIXED):
        states = []
        for _ in range(8):
            t_ = rng.uniform(0, 3)
            states.append([t_, [rng.uniform(0.2, 1.5)], rng.choice([None, t_ + rng.uniform(0.2, 2.0), max(0.0, t_ - rng.uniform(0.1, 1.0))])])
        ntasks.append({"fn": "sysimpl.run_numjac", "indict": ind, "states": states, "disable_analytic": False, "timeout": 300})
    # the same system with its entries listed in different orders, integrators created one after another in ONE interpreter
    TWINS = [{"dynamics": [{"expression": "V' = V - V**3/3 - W + 1/2", "initial_value": "-1"}, {"expression": "W' = (V + 7/10 - 4/5*W)/12", "initial_value": "1"}]},
             {"dynamics": [{"expression": "x' = -x*y + 1", "initial_value": "1"}, {"expression": "y'' = -y - y'*x**2", "initial_values": {"y": "1", "y'": "0"}}]}]
    twin_systems = []
    while len(twin_systems) < (1 if quick else 6):
        s = U.gen_system(rng, max_entries=2, allow_order=(1, 1, 2), kinds=("nonlin", "nonlin", "coupled"), nparams=0, iv_params=False)
        if len(s["entries"]) == 2 and U.offsets(s)[1] <= 3 and "time_symbol" not in s:
            twin_systems.append([U.render(s), U.render(c03.permute_system(s, (1, 0)))])
    for pair in [[ind, dict(ind, dynamics=list(reversed(ind["dynamics"])))] for ind in TWINS[: (1 if quick else 2)]] + twin_systems:
        states = [(rng.uniform(0, 1), [rng.uniform(0.5, 2.0) for _ in range(3)]) for _ in range(5)]
        seq = pair + [pair[0]] if rng.random() < 0.5 else list(reversed(pair))
        ntasks.append({"fn": "sysimpl.run_numjac_seq", "indicts": seq, "indict": seq[0], "states": states, "disable_analytic": True, "timeout": 600, "fresh": True})
    # right-hand sides with function atoms from the toolbox's predefined list (also nested: a threshold inside a saturating
    # function), symbolic Jacobian vs finite differences of the user's text
    FSYS = [
        {"dynamics": [{"expression": "V' = -V/tau + tanh(g*V) + I", "initial_value": "0"}, {"expression": "I' = -I/2 + exp(-V**2)", "initial_value": "1"}]},
        {"dynamics": [{"expression": "r' = (-r + tanh(g*(V - theta)*Heaviside(V - theta)))/tau_r", "initial_value": "0"}, {"expression": "V' = -V + 2*r", "initial_value": "1"}]},
        {"dynamics": [{"expression": "x' = -x + max(0, y - 1/2)*x", "initial_value": "1"}, {"expression": "y' = -y/3 + min(x, 1)", "initial_value": "1"}]},
        {"dynamics": [{"expression": "u'' = -u - u'*sin(u)**2", "initial_values": {"u": "1", "u'": "0"}}, {"expression": "w' = -w*exp(-cosh(u)/2) + log(1 + u**2)", "initial_value": "1/2"}]},
        {"dynamics": [{"expression": "V' = (E_L - V)/tau + g_L*Delta_T*exp((V - V_T)/Delta_T)/C - w/C", "initial_value": "0"}, {"expression": "w' = (a*(V - E_L) - w)/tau_w", "initial_value": "0"}]},
        {"dynamics": [{"expression": "n' = alpha*Heaviside(V)*(1 - n)*V - n/(1 + exp(-V))", "initial_value": "1/4"}, {"expression": "V' = -V**3 + n*V", "initial_value": "1/2"}]},
    ]
    ftasks = [{"fn": "sysimpl.run_jacobian_fd", "indict": ind_, "flags": {"disable_analytic_solver": bool(k_ % 2)}, "pseed": rng.randint(1, 10 ** 6), "npoints": 5 if quick else 25, "timeout": 300}
              for k_, ind_ in enumerate(FSYS)]
    res = C.run_tasks(tasks, timeout=40)
    fres = C.run_tasks(ftasks, timeout=300)
    nres = C.run_tasks(ntasks, timeout=600, stub=True)
    coq, info, probe_failures, corr_errors = [], [], [], []
    dist = {"outcomes": {}, "n_vars": {}, "full_J": 0, "sub_J": 0, "entries_checked": 0, "nonzero_dc": 0, "numjac": {}}
    nontriv = set()
    samples = []
    for (s, pt), t, r in zip(meta, tasks, res):
        oc = r.get("outcome")
        dist["outcomes"][oc] = dist["outcomes"].get(oc, 0) + 1
        if oc != "Ok":
            continue
        offs, n = U.offsets(s)
        names = [U.var_name(s, gi, "__d") for gi in range(n)]
        if r["x"] != names:
            corr_errors.append("state vector order differs")
            continue
        dist["n_vars"][str(n)] = dist["n_vars"].get(str(n), 0) + 1
        for label, xs, J in (("full", r["x"], r["J"]), ("sub", r.get("xsub"), r.get("Jsub"))):
            if J is None:
                continue
            idx = [names.index(v) for v in xs]
            if any(v is None for row in J for v in row):
                continue
            Jf = [[Fraction(v) for v in row] for row in J]
            keep = [gi in idx for gi in range(n)]
            coq.append("{| j_n := %d; j_shapes := %s; j_rho := %s; j_keep := %s; j_obs := %s |}" % (
                n, U.cshapes(s), U.crho(s, pt), C.clist([C.cbool(b) for b in keep]), C.clist([C.clist([U.cq(v) for v in row]) for row in Jf])))
            info.append({"indict": t["indict"], "which": label, "variables": xs})
            dist["full_J" if label == "full" else "sub_J"] += 1
            exp = true_jacobian(s, pt, idx)
            nontriv.add(C.stable_hash([t["indict"], label]))
            for a in range(len(idx)):
                for b_ in range(len(idx)):
                    dist["entries_checked"] += 1
                    if exp[a][b_] != Jf[a][b_]:
                        probe_failures.append({"key": "jacobian entry wrong: " + C.stable_hash([t["indict"], label]),
                                               "what": "%s Jacobian: d(%s')/d(%s) = %s at a rational point, the toolbox's entry evaluates to %s; input %s" % (label, xs[a], xs[b_], exp[a][b_], Jf[a][b_], t["indict"]["dynamics"]),
                                               "replay": {"task": t, "system": s, "pt": {"|".join(map(str, k_)): str(v) for k_, v in pt.items()}}})
                        break
                else:
                    continue
                break
            if len(samples) < 2 and label == "full" and n > 1:
                samples.append({"indict": t["indict"], "J_at_point": [[str(v) for v in row] for row in Jf]})
    dist["function_atom_systems"] = {"run": 0, "outcomes": {}}
    for t, r in zip(ftasks, fres):
        dist["function_atom_systems"]["outcomes"][str(r.get("outcome"))] = dist["function_atom_systems"]["outcomes"].get(str(r.get("outcome")), 0) + 1
        if r.get("outcome") != "Ok":
            continue
        dist["function_atom_systems"]["run"] += 1
        nontriv.add(C.stable_hash(t["indict"]))
        if r["worst"] > 1e-6:
            probe_failures.append({"key": "symbolic jacobian != derivative of the input (function atoms): " + C.stable_hash(t["indict"]),
                                   "what": "%s | input %s" % (r["detail"], t["indict"]["dynamics"]), "replay": {"ftask": t}})
    for t, r in zip(ntasks, nres):
        oc = r.get("outcome")
        dist["numjac"][oc] = dist["numjac"].get(oc, 0) + 1
        if oc == "Ok" and r["worst"] > 1e-5:
            probe_failures.append({"key": "numerical jacobian != finite differences: " + C.stable_hash(t["indict"]),
                                   "what": "MixedIntegrator.numerical_jacobian differs from central finite differences of MixedIntegrator.step by %.3g (relative) for %s%s; e.g. %s" % (
                                       r["worst"], (t["indicts"][r.get("position", 0)] if "indicts" in t else t["indict"])["dynamics"],
                                       " (integrator number %d created in one interpreter, after %s)" % (r.get("position", 0) + 1, [i_["dynamics"] for i_ in t["indicts"][:r.get("position", 0)]]) if "indicts" in t else "", r["rows"][0]),
                                   "replay": {"ntask": t}})
        if oc == "Ok" and len(samples) < 3:
            samples.append({"numjac_input": t["indict"], "worst_rel_err": r["worst"], "with_analytic_part": r["has_analytic"]})
    mism, errs = C.coq_eval_shards(PROP, HEADER, coq, per=40)
    corr_errors += errs
    corr_mismatches = [{"layer": "get_jacobian_matrix vs Model/Jacobian.jac_row at a rational point", "case": info[i]} for i in mism[:8]]
    return {"evaluations": len(coq) + len(ntasks), "distinct_nontrivial": len(nontriv),
            "rule": "random systems (1-3 entries, order 1-3, linear/nonlinear/coupled/offset, Laurent polynomial right-hand sides), full-system and numeric-sub-system Jacobians compared entrywise at a rational point; numerical Jacobian vs finite differences of the derivative function on MixedIntegrator instances through the pygsl stand-in; distinct by hash of (input, which Jacobian)",
            "samples": samples, "distribution": dist,
            "layers": {"L1 symbolic Jacobian (exact, in Coq)": len(coq), "probe: d(user rhs)/dx (exact Fraction)": dist["entries_checked"], "probe: numerical_jacobian vs finite differences": len(ntasks)},
            "corr_mismatches": corr_mismatches, "corr_errors": corr_errors, "probe_failures": probe_failures}


def replay(payload):
    rp = payload.get("replay") or {}
    if "task" in rp:
        r = C.run_tasks([rp["task"]], timeout=120)[0]
        if r.get("outcome") != "Ok":
            return True, "analysis no longer succeeds: %s" % r.get("outcome")
        s = rp["system"]
        pt = {}
        for k, v in rp["pt"].items():
            parts = k.split("|")
            pt[(parts[0],) if len(parts) == 1 else (parts[0], int(parts[1]))] = Fraction(v)
        n = U.offsets(s)[1]
        exp = true_jacobian(s, pt, list(range(n)))
        got = [[Fraction(v) for v in row] for row in r["J"]]
        return exp == got, "J = %s, true Jacobian = %s" % (got, exp)
    if "ftask" in rp:
        r = C.run_tasks([dict(rp["ftask"], npoints=25)], timeout=600)[0]
        return (r.get("outcome") == "Ok" and r["worst"] <= 1e-6), "worst relative deviation %s (%s)" % (r.get("worst"), r.get("detail"))
    if "ntask" in rp:
        r = C.run_tasks([rp["ntask"]], timeout=900, stub=True)[0]
        return (r.get("outcome") == "Ok" and r["worst"] <= 1e-5), "worst relative error %s" % r.get("worst")
    return True, "replay file names a broken obligation (no concrete input): " + str(payload.get("no_longer_checks"))[:500]
