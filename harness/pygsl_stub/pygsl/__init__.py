"""Stand-in for PyGSL (absent in this sandbox), injected by putting this directory first on
sys.path.  Lives in /verif, not in /repo."""
