"""Scripted stand-in for pygsl.odeiv: exact forward-Euler steps of a scripted fraction of the
requested step.  SCRIPT['fracs'] is cycled over the calls to evolve.apply; LOG records them.
MODE 'euler' (default) or 'rk45' (SciPy-backed, used by trajectory probes)."""
import numpy as np

LOG = []
SCRIPT = {"fracs": [1.0], "mode": "euler", "hsug": None, "hsug_by_stepper": {}, "check_jac": False}


class _Stepper:
    def __init__(self, dim, func, jac=None, args=None):
        self.dim, self.func, self.jac, self.args = dim, func, jac, args

    def name(self):
        return type(self).__name__


class step_rk4(_Stepper):
    pass


class step_bsimp(_Stepper):
    pass


class step_rkf45(_Stepper):
    pass


class control_y_new:
    def __init__(self, stepper, eps_abs, eps_rel):
        self.eps_abs, self.eps_rel = eps_abs, eps_rel


class evolve:
    def __init__(self, stepper, control, dim):
        self.stepper, self.control, self.k = stepper, control, 0

    def apply(self, t, t1, h, y):
        frac = SCRIPT["fracs"][self.k % len(SCRIPT["fracs"])]
        self.k += 1
        y0 = np.array(y, dtype=float)
        hh = min(h, t1 - t) * frac
        if SCRIPT["mode"] == "rk45":
            from scipy.integrate import solve_ivp
            sol = solve_ivp(lambda tt, yy: np.array(self.stepper.func(tt, yy, self.stepper.args), dtype=float),
                            (t, t + hh), y0, rtol=self.control.eps_rel, atol=self.control.eps_abs, method="RK45")
            y1 = sol.y[:, -1]
        else:
            f = np.array(self.stepper.func(t, y0, self.stepper.args), dtype=float)
            y1 = y0 + hh * f
        if self.stepper.jac is not None and isinstance(self.stepper, step_bsimp):
            J, dfdt = self.stepper.jac(t, y0, self.stepper.args)
            LOG.append(("jac", t, np.array(J).tolist()))
            if SCRIPT.get("check_jac"):
                # is the Jacobian handed to the implicit stepper the derivative of the function it integrates?  (central
                # differences, minus the rounding of the two evaluations)
                Jn = np.array(J, dtype=float)
                dev = 0.0
                hfd = 1e-6
                for j in range(len(y0)):
                    yp, ym = y0.copy(), y0.copy()
                    yp[j] += hfd
                    ym[j] -= hfd
                    fp = np.array(self.stepper.func(t, yp, self.stepper.args), dtype=float)
                    fm = np.array(self.stepper.func(t, ym, self.stepper.args), dtype=float)
                    fd = (fp - fm) / (2 * hfd)
                    noise = (np.abs(fp) + np.abs(fm)) * 2.3e-16 / (2 * hfd)
                    dev = max(dev, float(np.max(np.maximum(np.abs(Jn[:, j] - fd) - 20 * noise, 0.0) / (1.0 + np.abs(fd)))))
                LOG.append(("jacdev", t, dev, [float(v) for v in y0]))
        LOG.append(("apply", type(self.stepper).__name__, t, t1, h, t + hh, [float(v) for v in y1], [float(v) for v in y0]))
        hs = hh if SCRIPT["hsug"] is None else SCRIPT["hsug"]
        if type(self.stepper).__name__ in SCRIPT["hsug_by_stepper"]:
            hs = SCRIPT["hsug_by_stepper"][type(self.stepper).__name__]
        return t + hh, hs, y1
