"""C07 — analysis() is a pure function of its arguments."""
import copy
import json
import random

from . import common as C

PROP = "C07"
PROPS_FILE = "theories/Props/C07.v"
THEOREMS = ["c07_prelude_resets_first", "c07_history_free", "c07_unspecified_is_default", "c07_defaults", "c07_no_hidden_state"]
GEN_FILES = ["ConfigGen.v", "StateGen.v"]
TRUSTED = ["Coq 8.16.1 kernel + vm_compute", "theorems closed under the global context",
           "translator harness/translate_more.gen_config (fail-closed): Config.config literal, Config.reset, the store operations of _analysis in order, _read_global_config's shape, and the absence of any other write to the store in odetoolbox/*.py",
           "correspondence harness (harness/c07.py): Config.config observed after every call of random histories vs Model/Config.after_history with the regenerated prelude (decided in Coq)",
           "translator harness/translate_more.gen_state (fail-closed, syntactic): every assignment / del / mutating container-method call inside a function of odetoolbox/*.py whose target is a module-level name, Class.attr, cls.attr or a class-level self.attr[...], and every mutable default argument (writes through aliases, setattr, globals() or C extensions are NOT seen)",
           "ASSUMED, validated by the probe only: state kept inside SymPy/NumPy (their caches) does not influence results (the last call of every history is compared with the same call made first in a fresh interpreter)"]
ASSUMPTIONS = ["result comparison across PYTHONHASHSEED values is mathematical (partition + functions at fixed points), textual within one seed",
               "the documented defaults are config.py's literals (the manual's table lists 1E-9 for the accuracies, config.py 1E-6: recorded in DESIGN.md, not treated as a violation)"]

KEYS = ["simplify_expression", "expression_simplification_threshold", "input_time_symbol", "output_timestep_symbol", "differential_order_symbol",
        "sim_time", "max_step_size", "integration_accuracy_abs", "integration_accuracy_rel"]
OPTVALS = {"simplify_expression": ["sympy.expand(expr)", "expr", "sympy.logcombine(sympy.powsimp(sympy.expand(expr)))"],
           "expression_simplification_threshold": [50, 5000],
           "input_time_symbol": ["s", "T_", "x", "y", "V", "I", "g", "tau", "E_L"],   # incl. names that are variables / parameters of other pool inputs (a name reserved by one call must be free again in the next)
           "output_timestep_symbol": ["dt", "__dt"],
           "differential_order_symbol": ["_D", "__deriv"],
           "sim_time": [0.5, "20E-3"], "max_step_size": [0.25, "1E-3"], "integration_accuracy_abs": [1e-9, "1E-4"], "integration_accuracy_rel": [1e-9]}

POOL = [
    {"dynamics": [{"expression": "x' = -x/tau", "initial_value": "1"}]},
    {"dynamics": [{"expression": "x' = -x/tau + y", "initial_value": "1"}, {"expression": "y'' = -y/4 - y'", "initial_values": {"y": "0", "y'": "1/2"}}]},
    {"dynamics": [{"expression": "V' = -V/tau + V**2/8 + I", "initial_value": "0"}, {"expression": "I' = -I/2", "initial_value": "1"}]},
    {"dynamics": [{"expression": "g = exp(-t/4)"}]},
    {"dynamics": [{"expression": "x' = -x*y", "initial_value": "1"}, {"expression": "y' = x - 1/2*y", "initial_value": "1/2"}], "parameters": {"tau": "2."}},
    {"dynamics": [{"expression": "I' = -I/tau", "initial_value": "1"}, {"expression": "V' = -V/tau + g*V**2 + E_L", "initial_value": "0"}]},
    {"dynamics": [{"expression": "x' = 3", "initial_value": "0"}]},
    # valid but unusual spellings: whitespace in initial-value keys and around the expression
    {"dynamics": [{"expression": "g'' = -g/tau**2 - 2*g'/tau", "initial_values": {" g'": "e/tau", "g ": "0"}}, {"expression": "  V' = -V/tau + g  ", "initial_value": "0"}]},
    {"dynamics": [{"expression": "y''' = -6*y - 11*y' - 6*y''", "initial_values": {"y ''": "2", " y": "0", "y '": "1"}}], "parameters": {"tau": "2."}},
    # failing inputs
    {"dynamics": [{"expression": "x' = -x", "initial_values": {"x": "1", "x'": "0"}}]},               # malformed
    {"dynamics": [{"expression": "x'' = -x + 1", "initial_values": {"x": "1", "x'": "0"}}]},          # sys.exit (higher-order inhomogeneous)
    {"dynamics": [{"expression": "x' = = -x", "initial_value": "1"}]},                                # malformed
    {},                                                                                                # empty input
]


PARAM_VALUES = {"tau": "2.", "g": "0.5", "E_L": "-70", "unused_p": "1"}


def gen_call(rng, allow_bad_option=True):
    ind = copy.deepcopy(rng.choice(POOL))
    if "dynamics" in ind:
        # parameters block: as in the pool / absent / present but empty / partial / with an unused one
        q = rng.random()
        if q < 0.15:
            ind.pop("parameters", None)
        elif q < 0.35:
            ind["parameters"] = {}
        elif q < 0.5:
            ind["parameters"] = {k: v for k, v in PARAM_VALUES.items() if rng.random() < 0.5}
    opts = {}
    for k in rng.sample(KEYS, rng.choice([0, 0, 1, 2, 3])):
        opts[k] = rng.choice(OPTVALS[k])
    if allow_bad_option and rng.random() < 0.08:
        items = list(opts.items())
        items.insert(rng.randint(0, len(items)), ("no_such_option", 1))
        opts = dict(items)
    if opts and "dynamics" in ind:
        ind["options"] = opts
    flags = {"disable_stiffness_check": True}
    if rng.random() < 0.3:
        flags["disable_analytic_solver"] = True
    if rng.random() < 0.25:
        flags["simplify_expression"] = rng.choice(["sympy.simplify(expr)", "sympy.factor(expr)", "expr"])
    if rng.random() < 0.2:
        flags["preserve_expressions"] = True
    return {"indict": ind, "flags": flags}


def impl_history(task):
    """runs the calls one after another in this process; records Config.config after each call, the
    outcome of each, whether the input dictionary was modified, and the result of the last call"""
    import odetoolbox
    from odetoolbox.config import Config
    from . import impl_worker
    stores, outcomes, modified = [], [], []
    last = None
    prev = None
    for call in task["calls"]:
        ind = call["indict"]
        if call.get("reuse_previous_object") and prev is not None:
            ind = prev          # the user passes the very same dictionary again
        prev = ind
        before = copy.deepcopy(ind)
        try:
            last = odetoolbox.analysis(ind, **call["flags"])
            outcomes.append("Ok")
        except BaseException as e:   # noqa
            if isinstance(e, KeyboardInterrupt):
                raise
            last = None
            outcomes.append(impl_worker.classify_exception(e))
        modified.append(before != ind)
        stores.append([[k, repr(v)] for k, v in Config.config.items()])
    return {"outcome": "Ok", "stores": stores, "outcomes": outcomes, "modified": modified, "last": last}


def canon(res):
    return json.dumps(res, sort_keys=True)


def mathematical_view(res):
    """partition + each expression evaluated at fixed pseudo-random points (symbols valued by a hash of their name)"""
    import hashlib
    import sympy
    if res is None:
        return None
    ns = {"Symbol": sympy.Symbol, "Integer": sympy.Integer, "Float": sympy.Float, "Rational": sympy.Rational, "exp": sympy.exp, "log": sympy.log,
          "sin": sympy.sin, "cos": sympy.cos, "e": sympy.E, "E": sympy.E, "sqrt": sympy.sqrt}
    out = []
    for s in res:
        d = {"solver": s["solver"], "state_variables": sorted(s["state_variables"])}
        for key in ("update_expressions", "propagators", "initial_values"):
            if key in s:
                vals = {}
                for nm, ex in s[key].items():
                    e = sympy.parsing.sympy_parser.parse_expr(str(ex), global_dict=dict(ns))
                    sub = {sym: sympy.Float(0.3 + (int(hashlib.sha1(str(sym).encode()).hexdigest()[:6], 16) % 1000) / 700.0, 30) for sym in e.free_symbols}
                    vals[nm] = "%.12g" % float(sympy.re(e.evalf(30, subs=sub)))
                d[key] = vals
        out.append(d)
    return sorted(out, key=lambda d: d["solver"])


def cs(s):
    return '"%s"%%string' % str(s).replace('"', '""')


HEADER = """From Coq Require Import List String Bool.
From OdeVerif Require Import Base.Corr Model.Config Gen.ConfigGen.
Import ListNotations.
Definition defaults_store : store string := of_list string config_defaults.
Fixpoint stores_after (hist : list (call string)) (s : store string) : list (list (string * option string)) :=
  match hist with
  | [] => []
  | c :: r => let s' := store_in_call string defaults_store analysis_prelude c s in
              map (fun kv => (fst kv, s' (fst kv))) config_defaults :: stores_after r s'
  end.
Definition entry_eqb (a b : string * option string) : bool := String.eqb (fst a) (fst b) && option_eqb String.eqb (snd a) (snd b).
Definition agree (c : list (call string) * list (list (string * option string))) : bool :=
  list_eqb (list_eqb entry_eqb) (stores_after (fst c) defaults_store) (snd c).
Definition mism (cases : list (list (call string) * list (list (string * option string)))) : list nat := mism_by agree cases.
"""


ALLOWED_WRITES_INFO = {("__init__.py", "_analysis", "Config.config"), ("__init__.py", "_read_global_config", "Config.config"), ("config.py", "Config.reset", "Config.config"),
                       ("__init__.py", "_analysis", "__init__.py:_verif_trace"), ("plot_helper.py", "import_matplotlib", "plot_helper.py:_mpl"),
                       ("plot_helper.py", "import_matplotlib", "plot_helper.py:_plt")}     # copy of Proofs/StateP.allowed_writes, for messages only (Coq decides)


def state_inventory():
    try:
        from . import translate_more
        defaults, writes = translate_more.scan_state()
        return {"mutable_defaults": ["%s::%s(%s=...)" % d for d in defaults], "writes": len(writes),
                "hidden_writes": ["%s::%s writes %s (%s)" % w for w in writes if w[:3] not in ALLOWED_WRITES_INFO]}
    except Exception as e:   # noqa
        return {"error": str(e)[:200]}


def search(ctx, res):
    """extended search when an obligation broke without a probe failure: more histories under other seeds"""
    out = []
    for k in (1, 2, 3):
        r = run({"tier": "quick", "seed": ctx["seed"] * 10 + k, "prop": PROP, "in_search": True})
        out += r["probe_failures"]
        if out:
            break
    return out


def run(ctx):
    import os
    rng = random.Random(ctx["seed"] * 6007 + 7)
    quick = ctx["tier"] == "quick"
    nh = 60 if quick else 600
    hist_tasks, fresh_tasks = [], []
    for k in range(nh):
        calls = [gen_call(rng) for _ in range(rng.randint(0, 6))]
        for c_ in calls[1:]:
            if rng.random() < 0.15:
                c_["reuse_previous_object"] = True
        probe = gen_call(rng, allow_bad_option=False)
        while "dynamics" not in probe["indict"]:
            probe = gen_call(rng, allow_bad_option=False)
        hist_tasks.append({"fn": "c07.impl_history", "calls": calls + [probe], "timeout": 240, "fresh": True})
        fresh_tasks.append({"fn": "c07.impl_history", "calls": [copy.deepcopy(probe)], "timeout": 120, "fresh": True})
    nseed = 3 if quick else 16
    seed_tasks = [{"fn": "c07.impl_history", "calls": [fresh_tasks[i]["calls"][0]], "timeout": 120, "fresh": True} for i in range(min(12 if quick else 60, nh))]
    res = C.run_tasks(hist_tasks + fresh_tasks, timeout=240)
    hres, fres = res[:nh], res[nh:]
    seed_res = {}
    for hs in range(1, nseed + 1):
        seed_res[hs] = C.run_tasks(seed_tasks, timeout=120, hashseed=str(hs * 7919))
    coq, info, probe_failures, corr_errors = [], [], [], []
    dist = {"history_lengths": {}, "call_outcomes": {}, "options_keys_used": {}, "probe_outcomes": {}, "hashseeds": nseed, "custom_simplifier_calls": 0, "failing_calls": 0}
    nontriv = set()
    samples = []
    for t, ft, r, fr in zip(hist_tasks, fresh_tasks, hres, fres):
        if r.get("outcome") != "Ok" or fr.get("outcome") != "Ok":
            corr_errors.append("history run failed: %s / %s" % (str(r)[:200], str(fr)[:200]))
            continue
        calls = []
        for c_ in t["calls"]:
            if c_.get("reuse_previous_object") and calls:
                c_ = dict(c_, indict=calls[-1]["indict"])
            calls.append(c_)
        dist["history_lengths"][str(len(calls) - 1)] = dist["history_lengths"].get(str(len(calls) - 1), 0) + 1
        for c, o in zip(calls, r["outcomes"]):
            dist["call_outcomes"][o] = dist["call_outcomes"].get(o, 0) + 1
            dist["failing_calls"] += int(o != "Ok")
            dist["custom_simplifier_calls"] += int("simplify_expression" in c["flags"])
            for k in c["indict"].get("options", {}):
                dist["options_keys_used"][k] = dist["options_keys_used"].get(k, 0) + 1
        dist["probe_outcomes"][r["outcomes"][-1]] = dist["probe_outcomes"].get(r["outcomes"][-1], 0) + 1
        # probe 1: last call == same call first in a fresh interpreter
        if r["outcomes"][-1] != fr["outcomes"][-1] or canon(r["last"]) != canon(fr["last"]):
            leaked = [k for (k, v), (k2, v2) in zip(r["stores"][-1], fr["stores"][-1]) if v != v2]
            probe_failures.append({"key": "result depends on earlier calls (options leak)" if leaked else "result depends on earlier calls: " + C.stable_hash(t["calls"]),
                                   "what": "after %d earlier calls the probe call returned %s; first in a fresh interpreter it returns %s (store keys that differ: %s); probe %s; history %s" % (
                                       len(calls) - 1, canon(r["last"])[:300], canon(fr["last"])[:300], leaked, json.dumps(calls[-1])[:300], json.dumps(calls[:-1])[:600]),
                                   "replay": {"calls": calls}})
        # probe 2: unspecified options have their defaults during/after the probe call (fresh run is the reference)
        if any(r["modified"]):
            i = r["modified"].index(True)
            probe_failures.append({"key": "input dictionary modified: " + C.stable_hash(calls[i]), "what": "analysis modified its input dictionary %s" % json.dumps(calls[i])[:400], "replay": {"calls": [calls[i]]}})
        # correspondence: the store after every call
        hist = C.clist(["(mkCall %s %s)" % (C.clist(["(%s, %s)" % (cs(k), cs(repr(v))) for k, v in c["indict"].get("options", {}).items()]) if "dynamics" in c["indict"] else "[]",
                                              C.clist(["(%s, %s)" % (cs("simplify_expression"), cs(repr(c["flags"]["simplify_expression"])))] if c["flags"].get("simplify_expression") and "dynamics" in c["indict"] else []))
                        for c in calls])
        obs = C.clist([C.clist(["(%s, Some %s)" % (cs(k), cs(v)) for k, v in st]) for st in r["stores"]])
        coq.append("(%s, %s)" % (hist, obs))
        info.append({"calls": calls, "stores": r["stores"]})
        if len(calls) > 1:
            nontriv.add(C.stable_hash(calls))
        if len(samples) < 2 and len(calls) > 2:
            samples.append({"history": calls[:-1], "probe": calls[-1], "probe_outcome": r["outcomes"][-1]})
    # hash seeds: mathematical content equal
    base = C.run_tasks(seed_tasks, timeout=120, hashseed="0")
    for i, b in enumerate(base):
        if b.get("outcome") != "Ok":
            continue
        try:
            mv0 = mathematical_view(b["last"])
        except Exception as e:   # noqa
            continue
        for hs, lst in seed_res.items():
            o = lst[i]
            if o.get("outcome") != "Ok":
                continue
            try:
                mv = mathematical_view(o["last"])
            except Exception:
                continue
            if b["outcomes"] != o["outcomes"] or mv != mv0:
                probe_failures.append({"key": "result depends on hash randomisation: " + C.stable_hash(seed_tasks[i]["calls"]),
                                       "what": "PYTHONHASHSEED=0 vs %d: %s vs %s for %s" % (hs * 7919, json.dumps(mv0)[:300], json.dumps(mv)[:300], json.dumps(seed_tasks[i]["calls"][0])[:300]),
                                       "replay": {"calls": seed_tasks[i]["calls"], "hashseed": hs * 7919}})
    inv = state_inventory()
    dist["process_level_state_inventory"] = inv
    if inv.get("hidden_writes") or inv.get("mutable_defaults") or inv.get("error"):
        corr_errors.append("state inventory (Gen/StateGen.v, decided by Proofs/StateP.no_hidden_state): unexpected process-level state: %s" % json.dumps(inv))
    mism, errs = ([], [])
    if ctx.get("in_search"):
        coq = []
    if os.path.exists(os.path.join(C.COQ, "theories/Gen/ConfigGen.vo")):
        mism, errs = C.coq_eval_shards(PROP, HEADER, coq, per=30)
    else:
        errs = ["Gen/ConfigGen.vo not built"]
    corr_errors += errs
    corr_mismatches = [{"layer": "Config.config after every call vs Model/Config.after_history with the regenerated prelude", "case": info[i]} for i in mism[:5]]
    return {"evaluations": len(hist_tasks) + len(fresh_tasks) + len(seed_tasks) * (nseed + 1), "distinct_nontrivial": len(nontriv),
            "rule": "random histories of 0-6 calls (inputs from a pool incl. malformed, sys.exit-ing and empty ones; random subsets of the 9 option keys with non-default values, occasionally an unknown key; flags incl. custom simplify_expression) followed by a probe call, each history in a fresh interpreter, compared with the probe call alone in a fresh interpreter; the probe call repeated under several PYTHONHASHSEED values; non-trivial = history with at least one earlier call; distinct by hash of the history",
            "samples": samples, "distribution": dist,
            "layers": {"L1 store after every call (in Coq)": len(coq), "probe: result vs fresh interpreter": len(coq), "probe: input unmodified": len(coq), "probe: hash seeds": len(seed_tasks) * nseed},
            "corr_mismatches": corr_mismatches, "corr_errors": corr_errors, "probe_failures": probe_failures}


def replay(payload):
    rp = payload.get("replay") or {}
    if "calls" not in rp:
        return True, "replay file names a broken obligation (no concrete input): " + str(payload.get("no_longer_checks"))[:500]
    calls = rp["calls"]
    if rp.get("hashseed") is not None:
        x = C.run_tasks([{"fn": "c07.impl_history", "calls": calls, "fresh": True}], timeout=300, hashseed="0")[0]
        y = C.run_tasks([{"fn": "c07.impl_history", "calls": calls, "fresh": True}], timeout=300, hashseed=str(rp["hashseed"]))[0]
        try:
            same = x.get("outcomes") == y.get("outcomes") and mathematical_view(x.get("last")) == mathematical_view(y.get("last"))
        except Exception as e:   # noqa
            return True, "could not compare the two hash seeds: %s" % e
        return same, "PYTHONHASHSEED=0 vs %s: %s" % (rp["hashseed"], "same result" if same else "different results")
    a = C.run_tasks([{"fn": "c07.impl_history", "calls": calls, "fresh": True}], timeout=300)[0]
    b = C.run_tasks([{"fn": "c07.impl_history", "calls": [calls[-1]], "fresh": True}], timeout=300)[0]
    ok = a.get("outcomes", [None])[-1] == b.get("outcomes", [None])[-1] and canon(a.get("last")) == canon(b.get("last")) and not any(a.get("modified", []))
    return ok, "after history: %s | fresh: %s" % (canon(a.get("last"))[:200], canon(b.get("last"))[:200])
