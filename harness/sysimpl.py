"""Worker-side runner shared by C01-C04, C06, C08, C10: runs odetoolbox._analysis on a rendered
input and returns the public result plus exact evaluations at a rational point."""
from fractions import Fraction


def _frac(s):
    return Fraction(s)


def _rat(fr):
    import sympy
    fr = Fraction(fr)
    return sympy.Rational(fr.numerator, fr.denominator)


def exact_eval(expr, subs):
    import sympy
    if isinstance(expr, str):
        from odetoolbox.shapes import Shape
        expr = sympy.parsing.sympy_parser.parse_expr(expr, global_dict=Shape._sympy_globals)
    expr = sympy.sympify(expr)
    fl = {f: sympy.Rational(*float(f).as_integer_ratio()) for f in expr.atoms(sympy.Float)}
    if fl:
        expr = expr.xreplace(fl)
    v = expr.xreplace(subs)
    if not getattr(v, "is_Rational", False):
        try:
            v = sympy.nsimplify(sympy.simplify(v), rational=False)
        except Exception:
            return None
    if getattr(v, "is_Rational", False):
        return "%d/%d" % (int(v.p), int(v.q))
    return None


def run_analysis(task):
    """task: indict, flags (kwargs of analysis), point {symbolname: 'p/q'}, want: list of
    'abc' | 'upd' | 'jac' | 'prop' ; returns outcome and the requested exact values"""
    import sympy
    import odetoolbox
    from odetoolbox.config import Config
    from . import impl_worker
    defaults = dict(Config.config)
    flags = dict(task.get("flags", {}))
    flags.setdefault("disable_stiffness_check", True)
    subs = {sympy.Symbol(k): _rat(v) for k, v in task.get("point", {}).items()}
    if hasattr(odetoolbox, "_verif_trace"):
        del odetoolbox._verif_trace[:]
    out = {}
    try:
        try:
            solvers, sys_, shapes = odetoolbox._analysis(task["indict"], **flags)
            out["outcome"] = "Ok"
        except BaseException as e:   # noqa
            if isinstance(e, KeyboardInterrupt):
                raise
            out["outcome"] = impl_worker.classify_exception(e)
            out["detail"] = str(e)[:300]
            solvers, sys_, shapes = None, None, None
        tr = getattr(odetoolbox, "_verif_trace", [])
        if tr:
            out["trace"] = {"x": tr[-1]["x"], "verdict": tr[-1]["verdict"]}
            if "abc" in task.get("want", []) and sys_ is None:
                out["x"] = tr[-1]["x"]
                out["A"] = [[exact_eval(e, subs) for e in row] for row in tr[-1]["A"]]
                out["b"] = [exact_eval(e, subs) for e in tr[-1]["b"]]
                out["c"] = [exact_eval(e, subs) for e in tr[-1]["c"]]
        if solvers is not None:
            out["solvers"] = solvers
            want = task.get("want", [])
            if "abc" in want:
                n = len(sys_.x_)
                out["x"] = [str(s) for s in sys_.x_]
                out["A"] = [[exact_eval(sys_.A_[i, j], subs) for j in range(n)] for i in range(n)]
                out["b"] = [exact_eval(sys_.b_[i], subs) for i in range(n)]
                out["c"] = [exact_eval(sys_.c_[i], subs) for i in range(n)]
            if "upd" in want:
                out["upd"] = []
                for s in solvers:
                    out["upd"].append({k: exact_eval(v, subs) for k, v in s["update_expressions"].items()})
            if "jac" in want:
                J = sys_.get_jacobian_matrix()
                n = len(sys_.x_)
                out["J"] = [[exact_eval(J[i, j], subs) for j in range(n)] for i in range(n)]
                out["Jstr"] = [[str(J[i, j]) for j in range(n)] for i in range(n)]
            if "ivs" in want:
                out["ivs"] = [{k: exact_eval(v, subs) for k, v in s["initial_values"].items()} for s in solvers]
    finally:
        Config.config.clear()
        Config.config.update(defaults)
    return out


class _Alarm(Exception):
    pass


def run_verdict(task):
    """Per-variable analytic/numeric verdict two ways: (i) the internal pipeline up to
    _find_analytically_solvable_equations (no matrix exponential), (ii) the public API under an
    alarm.  Returns both plus the (A != 0, b != 0, c symbols) patterns."""
    import signal
    import sympy
    import odetoolbox
    from odetoolbox.config import Config
    from odetoolbox.system_of_shapes import SystemOfShapes
    from odetoolbox.sympy_helpers import _is_zero
    from . import impl_worker
    defaults = dict(Config.config)
    out = {}
    flags = dict(task.get("flags", {}))
    flags.setdefault("disable_stiffness_check", True)
    try:
        # (i) internal
        try:
            indict = task["indict"]
            odetoolbox._read_global_config(indict)
            parameters = None
            if "parameters" in indict:
                parameters = {sympy.Symbol(k): v for k, v in indict["parameters"].items()}
            shapes, parameters = odetoolbox._from_json_to_shapes(indict, parameters=parameters)
            sys_ = SystemOfShapes.from_shapes(shapes, parameters=parameters)
            _, verdict = odetoolbox._find_analytically_solvable_equations(sys_, shapes, parameters=parameters)
            out["internal"] = {"x": [str(s) for s in sys_.x_], "verdict": [bool(verdict[s]) for s in sys_.x_],
                               "inhomogeneous_higher_order": any((not sh.is_homogeneous()) and sh.order > 1 for sh in shapes)}
        except BaseException as e:   # noqa
            if isinstance(e, KeyboardInterrupt):
                raise
            out["internal"] = {"error": impl_worker.classify_exception(e), "detail": str(e)[:200]}
        Config.config.clear()
        Config.config.update(defaults)
        # (ii) public API
        if hasattr(odetoolbox, "_verif_trace"):
            del odetoolbox._verif_trace[:]

        def handler(signum, frame):
            raise _Alarm()
        old = signal.signal(signal.SIGALRM, handler)
        signal.alarm(int(task.get("api_timeout", 15)))
        try:
            res = odetoolbox.analysis(task["indict"], **flags)
            signal.alarm(0)
            out["api"] = {"outcome": "Ok", "solvers": res}
        except _Alarm:
            out["api"] = {"outcome": "Timeout"}
        except BaseException as e:   # noqa
            signal.alarm(0)
            if isinstance(e, KeyboardInterrupt):
                raise
            out["api"] = {"outcome": impl_worker.classify_exception(e), "detail": str(e)[:200]}
        finally:
            signal.alarm(0)
            signal.signal(signal.SIGALRM, old)
        tr = getattr(odetoolbox, "_verif_trace", [])
        if tr:
            out["trace"] = {"x": tr[-1]["x"], "verdict": tr[-1]["verdict"]}
    finally:
        Config.config.clear()
        Config.config.update(defaults)
    out["outcome"] = "Ok"
    return out


def run_propagate(task):
    from odetoolbox.system_of_shapes import SystemOfShapes
    outs = []
    for c in task["cases"]:
        m = {i: bool(b) for i, b in enumerate(c["m"])}
        E = [tuple(e) for e in c["E"]]
        r = SystemOfShapes.propagate_lin_cc_judgements(None, m, E)
        outs.append([bool(r[i]) for i in range(len(c["m"]))])
    return {"outcome": "Ok", "outs": outs}


def independent_analytic_set(task):
    """The documented criterion evaluated independently of the toolbox's term splitting: sympy.diff
    on the spelled text (second derivatives vanish, first derivatives and remainder free of state
    and time), the two documented exceptions, greatest dependency-closed subset."""
    import re
    import sympy
    ns = {"Symbol": sympy.Symbol, "Integer": sympy.Integer, "Float": sympy.Float, "Rational": sympy.Rational}
    marker = "__d"
    entries = []
    for d in task["indict"]["dynamics"]:
        lhs, rhs = d["expression"].split("=")
        lhs = lhs.strip()
        order = lhs.count("'")
        entries.append((lhs.replace("'", ""), order, rhs.strip()))
    names = []
    for nm, order, _ in entries:
        names += [nm + marker * k for k in range(order)]
    syms = {nm: sympy.Symbol(nm) for nm in names}
    tsym = sympy.Symbol((task["indict"].get("options") or {}).get("input_time_symbol", "t"))
    n = len(names)
    f = {}
    for nm, order, rhs in entries:
        for k in range(order - 1):
            f[nm + marker * k] = syms[nm + marker * (k + 1)]
        f[nm + marker * (order - 1)] = sympy.parsing.sympy_parser.parse_expr(rhs.replace("'", marker), global_dict=dict(ns), local_dict=dict(syms))
    state = set(syms.values())
    A = {}
    b = {}
    affine = {}
    deps = {}
    for v in names:
        ex = sympy.expand(f[v])
        ok = True
        first = {y: sympy.simplify(sympy.diff(ex, syms[y])) for y in names}
        for y in names:
            if (first[y].free_symbols & state) or tsym in first[y].free_symbols:
                ok = False
        rem = sympy.simplify(sympy.expand(ex - sum(first[y] * syms[y] for y in names)))
        if (rem.free_symbols & state) or tsym in rem.free_symbols:
            ok = False
        affine[v] = ok
        A[v] = {y: (first[y] != 0) for y in names}
        b[v] = (rem != 0) if ok else False
        deps[v] = set(str(s) for s in (ex.free_symbols & state))
    # shape-level verdict: all symbols of an entry share the verdict of its defining equation
    S = {}
    for nm, order, _ in entries:
        ok = affine[nm + marker * (order - 1)]
        for k in range(order):
            S[nm + marker * k] = ok
    # strongly connected components of the A pattern
    reach = {v: {v} for v in names}
    changed = True
    while changed:
        changed = False
        for v in names:
            for y in names:
                if affine[v] and A[v][y] and not reach[y] <= reach[v]:
                    reach[v] |= reach[y]
                    changed = True
                elif (not affine[v]) and y in deps[v] and False:
                    pass
    def scc(v):
        return [w for w in names if w in reach[v] and v in reach[w]]
    S2 = dict(S)
    for v in names:
        if affine[v]:
            if b[v] and len(scc(v)) > 1:
                S2[v] = False
            for y in names:
                if y != v and A[v][y] and affine[y] and b[y]:
                    S2[v] = False
    cur = dict(S2)
    changed = True
    while changed:
        changed = False
        for v in names:
            if cur[v] and any(not cur[w] for w in deps[v]):
                cur[v] = False
                changed = True
    return {"names": names, "expected": [cur[v] for v in names], "affine": [affine[v] for v in names]}


def run_verdict_indep(task):
    out = run_verdict(task)
    try:
        out["indep"] = independent_analytic_set(task)
    except Exception as e:   # noqa
        out["indep"] = {"error": "%s: %s" % (type(e).__name__, str(e)[:200])}
    return out


def run_jacobian(task):
    """symbolic Jacobian of the full system and of the numeric sub-system, evaluated exactly"""
    import sympy
    import odetoolbox
    from odetoolbox.config import Config
    from . import impl_worker
    defaults = dict(Config.config)
    subs = {sympy.Symbol(k): _rat(v) for k, v in task["point"].items()}
    try:
        try:
            solvers, sys_, shapes = odetoolbox._analysis(task["indict"], disable_stiffness_check=True, **task.get("flags", {}))
        except BaseException as e:   # noqa
            return {"outcome": impl_worker.classify_exception(e), "detail": str(e)[:200]}
        n = len(sys_.x_)
        J = sys_.get_jacobian_matrix()
        out = {"outcome": "Ok", "x": [str(s) for s in sys_.x_], "solvers": [{"solver": s["solver"], "state_variables": s["state_variables"]} for s in solvers],
               "J": [[exact_eval(J[i, j], subs) for j in range(n)] for i in range(n)]}
        num = [s for s in solvers if s["solver"].startswith("numeric")]
        if num:
            syms = [sympy.Symbol(v) for v in num[0]["state_variables"]]
            sub = sys_.get_sub_system(syms)
            Js = sub.get_jacobian_matrix()
            m = len(sub.x_)
            out["xsub"] = [str(s) for s in sub.x_]
            out["Jsub"] = [[exact_eval(Js[i, j], subs) for j in range(m)] for i in range(m)]
        return out
    finally:
        Config.config.clear()
        Config.config.update(defaults)


def run_jacobian_fd(task):
    """symbolic Jacobian of systems with function atoms (tanh, exp, Heaviside, max, ...): every entry evaluated at random
    points (away from the jumps) against central finite differences of the USER's right-hand sides, parsed independently"""
    import random
    import sympy
    import odetoolbox
    from odetoolbox.config import Config
    from . import impl_worker
    defaults = dict(Config.config)
    ns = {}
    exec("from sympy import *", ns)
    ns.update({"e": sympy.E, "max": sympy.Max, "min": sympy.Min})
    for nm_ in ("I", "S", "N", "O", "Q", "C"):        # single capitals are ordinary names (I is a current), not SymPy's constants
        ns.pop(nm_, None)
    try:
        try:
            solvers, sys_, shapes = odetoolbox._analysis(task["indict"], disable_stiffness_check=True, **task.get("flags", {}))
        except BaseException as ex:   # noqa
            return {"outcome": impl_worker.classify_exception(ex), "detail": str(ex)[:200]}
        xs = [str(v) for v in sys_.x_]
        f = {}
        for d in task["indict"]["dynamics"]:
            lhs, rhs = d["expression"].split("=")
            nm, order = lhs.strip().replace("'", ""), lhs.count("'")
            for k in range(order - 1):
                f[nm + "__d" * k] = sympy.Symbol(nm + "__d" * (k + 1))
            f[nm + "__d" * (order - 1)] = sympy.parsing.sympy_parser.parse_expr(rhs.replace("'", "__d"), global_dict=dict(ns))
        J = sys_.get_jacobian_matrix()
        rng = random.Random(task.get("pseed", 1))
        free = set()
        for ex in f.values():
            free |= ex.free_symbols
        worst, detail = 0.0, None
        for trial in range(task.get("npoints", 6)):
            pt = {sym: rng.uniform(0.3, 1.7) * rng.choice([1, 1, -1]) for sym in free}
            sub = {sym: sympy.Float(v, 30) for sym, v in pt.items()}
            for i, xi in enumerate(xs):
                for j, xj in enumerate(xs):
                    sj = sympy.Symbol(xj)
                    h = sympy.Float("1e-10", 30)
                    up, dn = dict(sub), dict(sub)
                    up[sj] = sub.get(sj, sympy.Float(0.7, 30)) + h
                    dn[sj] = sub.get(sj, sympy.Float(0.7, 30)) - h
                    fd = (f[xi].evalf(30, subs=up) - f[xi].evalf(30, subs=dn)) / (2 * h)
                    try:
                        got = sympy.sympify(J[i, j]).evalf(30, subs=sub)
                        err = abs(complex(got) - complex(fd)) / (1 + abs(complex(fd)))
                    except Exception as ex:   # noqa
                        return {"outcome": "Ok", "worst": 1.0, "detail": "entry (%s, %s) = %s is not numeric at %s (%s)" % (xi, xj, J[i, j], pt, ex)}
                    if err > worst:
                        worst = float(err)
                        detail = "d(%s')/d(%s): get_jacobian_matrix gives %s = %s, finite differences of the input give %s at %s" % (xi, xj, J[i, j], got, fd, {str(k): round(v, 4) for k, v in pt.items()})
        return {"outcome": "Ok", "worst": worst, "detail": detail, "x": xs}
    finally:
        Config.config.clear()
        Config.config.update(defaults)


def run_numjac(task):
    """MixedIntegrator.numerical_jacobian vs central finite differences of MixedIntegrator.step
    (through the pygsl stand-in)"""
    import numpy as np
    import sympy
    import pygsl.odeiv as odeiv
    import odetoolbox
    from odetoolbox.config import Config
    from odetoolbox.mixed_integrator import MixedIntegrator
    from . import impl_worker
    defaults = dict(Config.config)
    try:
        try:
            solvers, sys_, shapes = odetoolbox._analysis(task["indict"], disable_stiffness_check=True, disable_analytic_solver=task.get("disable_analytic", True))
            num = [s for s in solvers if s["solver"].startswith("numeric")]
            ana = [s for s in solvers if s["solver"] == "analytical"]
            if not num:
                return {"outcome": "NoNumericPart"}
            sub = sys_.get_sub_system([sympy.Symbol(v) for v in num[0]["state_variables"]])
            mi = MixedIntegrator(odeiv.step_bsimp, sub, shapes, analytic_solver_dict=(ana[0] if ana else None),
                                 parameters=task["indict"].get("parameters", {}), spike_times={}, sim_time=1.0, max_step_size=0.5)
            if ana:
                from odetoolbox.analytic_integrator import AnalyticIntegrator
                mi.analytic_integrator = AnalyticIntegrator(mi.analytic_solver_dict, {})
        except BaseException as e:   # noqa
            return {"outcome": impl_worker.classify_exception(e), "detail": str(e)[:300]}
        m = len(sub.x_)
        worst = 0.0
        rows = []
        for st in task["states"]:
            t, y = st[0], st[1]
            y = np.array(y[:m], dtype=float)
            if len(st) > 2 and st[2] is not None:
                mi.step(st[2], y, None)          # an adaptive stepper evaluated the derivative at another (later) time first
            Jn, _ = mi.numerical_jacobian(t, y, None)
            fd = np.zeros((m, m))
            fdnoise = np.zeros((m, m))
            h = 1e-6
            for j in range(m):
                yp, ym = y.copy(), y.copy()
                yp[j] += h
                ym[j] -= h
                fp, fm = np.array(mi.step(t, yp, None), dtype=float), np.array(mi.step(t, ym, None), dtype=float)
                fd[:, j] = (fp - fm) / (2 * h)
                fdnoise[:, j] = (np.abs(fp) + np.abs(fm)) * 2.3e-16 / (2 * h)     # rounding of the two evaluations, divided by the step
            err = float(np.max(np.maximum(np.abs(np.array(Jn, dtype=float) - fd) - 20 * fdnoise, 0.0) / (1.0 + np.abs(fd))))
            worst = max(worst, err)
            rows.append({"t": t, "y": y.tolist(), "J": np.array(Jn).tolist(), "fd": fd.tolist(), "err": err})
        return {"outcome": "Ok", "worst": worst, "rows": rows[:2], "x": [str(s) for s in sub.x_], "has_analytic": bool(ana)}
    finally:
        Config.config.clear()
        Config.config.update(defaults)


def run_c08_seq(task):
    """run_c08 on several inputs one after another in this interpreter"""
    return {"outcome": "Ok", "results": [run_c08(sub) for sub in task["subs"]]}


def run_c01_seq(task):
    """run_c01 on several inputs one after another in this interpreter"""
    return {"outcome": "Ok", "results": [run_c01(sub) for sub in task["subs"]]}


def run_numjac_seq(task):
    """several integrators one after another in ONE interpreter (e.g. the same system with its entries listed in
    another order): run_numjac on each; reports the worst"""
    outs = [run_numjac(dict(task, indict=ind)) for ind in task["indicts"]]
    oks = [o for o in outs if o.get("outcome") == "Ok"]
    if not oks:
        return outs[0]
    k = max(range(len(outs)), key=lambda i: outs[i].get("worst", -1.0) if outs[i].get("outcome") == "Ok" else -1.0)
    return dict(outs[k], position=k, outcomes=[o.get("outcome") for o in outs])


def run_c01(task):
    """analysis() under an alarm; exact evaluation of the analytic update expressions with every
    propagator symbol bound to an independent rational; numerical probe of the flow property."""
    import random
    import signal
    import sympy
    import odetoolbox
    from odetoolbox.config import Config
    from odetoolbox.shapes import Shape
    from . import impl_worker
    defaults = dict(Config.config)
    out = {"outcome": "Ok"}
    if hasattr(odetoolbox, "_verif_trace"):
        del odetoolbox._verif_trace[:]

    def handler(signum, frame):
        raise _Alarm()
    old = signal.signal(signal.SIGALRM, handler)
    signal.alarm(int(task.get("api_timeout", 25)))
    try:
        try:
            res = odetoolbox.analysis(task["indict"], disable_stiffness_check=True, **task.get("flags", {}))
            signal.alarm(0)
            out["api"] = "Ok"
        except _Alarm:
            out["api"] = "Timeout"
            res = None
        except BaseException as e:   # noqa
            signal.alarm(0)
            if isinstance(e, KeyboardInterrupt):
                raise
            out["api"] = impl_worker.classify_exception(e)
            out["detail"] = str(e)[:300]
            res = None
        finally:
            signal.alarm(0)
            signal.signal(signal.SIGALRM, old)
        tr = getattr(odetoolbox, "_verif_trace", [])
        if tr:
            out["trace"] = {"x": tr[-1]["x"], "verdict": tr[-1]["verdict"]}
        if res is None:
            return out
        out["solvers"] = [{"solver": s["solver"], "state_variables": s["state_variables"]} for s in res]
        ana = [s for s in res if s["solver"] == "analytical"]
        if not ana:
            return out
        ana = ana[0]
        rng = random.Random(task.get("pseed", 1))
        subs = {sympy.Symbol(k): _rat(v) for k, v in task["point"].items()}
        hval = Fraction(rng.randint(1, 9), rng.choice([2, 3, 5, 7]))
        hsym = (task["indict"].get("options") or {}).get("output_timestep_symbol", "__h")
        subs[sympy.Symbol(hsym)] = _rat(hval)
        pvals = {}
        for key in sorted(ana["propagators"]):
            pvals[key] = Fraction(rng.randint(-9, 9) or 4, rng.choice([2, 3, 5, 7, 11]))
            subs[sympy.Symbol(key)] = _rat(pvals[key])
        out["h"] = str(hval)
        out["pvals"] = {k: str(v) for k, v in pvals.items()}
        out["analytic_vars"] = ana["state_variables"]
        out["upd"] = [exact_eval(ana["update_expressions"][v], subs) for v in ana["state_variables"]]
        out["update_expressions"] = ana["update_expressions"]
        out["propagators"] = ana["propagators"]
        inexact = False
        for v in ana["state_variables"]:
            ex = sympy.parsing.sympy_parser.parse_expr(ana["update_expressions"][v], global_dict=Shape._sympy_globals)
            for fl in ex.atoms(sympy.Float):
                if float(fl).as_integer_ratio()[1] > 2 ** 30:
                    inexact = True
        out["inexact_floats"] = inexact
        if task.get("probe", True):
            try:
                ref = task.get("reference_indict")      # equations that define the expected flow when the input uses function-of-time entries
                out["probe"] = _flow_probe(dict(ref, options=task["indict"].get("options")) if ref else task["indict"], ana, task.get("pseed", 1))
            except Exception as e:   # noqa
                out["probe"] = {"error": "%s: %s" % (type(e).__name__, str(e)[:300])}
        return out
    finally:
        Config.config.clear()
        Config.config.update(defaults)


def _flow_probe(indict, ana, seed):
    """The property itself, numerically at 40 digits: new state = expm([[M, c],[0,0]] h) [x;1] where
    M, c come from differentiating the USER's equations; also identity at h = 0 and the two-step law."""
    import random
    import mpmath
    import sympy
    mpmath.mp.dps = 40
    ns = {"Symbol": sympy.Symbol, "Integer": sympy.Integer, "Float": sympy.Float, "Rational": sympy.Rational, "exp": sympy.exp, "E": sympy.E, "e": sympy.E}
    marker = "__d"
    av = ana["state_variables"]
    f = {}
    for d in indict["dynamics"]:
        lhs, rhs = d["expression"].split("=")
        lhs = lhs.strip()
        order = lhs.count("'")
        nm = lhs.replace("'", "")
        if order == 0:
            continue
        for k in range(order - 1):
            f[nm + marker * k] = sympy.Symbol(nm + marker * (k + 1))
        f[nm + marker * (order - 1)] = sympy.parsing.sympy_parser.parse_expr(rhs.replace("'", marker), global_dict=dict(ns))
    if any(v not in f for v in av):
        return {"skipped": "function-of-time entries"}
    xs = [sympy.Symbol(v) for v in av]
    M = sympy.Matrix([[sympy.diff(f[v], y) for y in xs] for v in av])
    c = sympy.Matrix([sympy.expand(f[v] - sum(M[i, j] * xs[j] for j in range(len(av)))) for i, v in enumerate(av)])
    free = set()
    for e in list(M) + list(c):
        free |= e.free_symbols
    rng = random.Random(seed)
    worst = 0.0
    detail = None
    props = {k: sympy.parsing.sympy_parser.parse_expr(v, global_dict=dict(ns)) for k, v in ana["propagators"].items()}
    upd = {k: sympy.parsing.sympy_parser.parse_expr(v, global_dict=dict(ns)) for k, v in ana["update_expressions"].items()}
    hs = sympy.Symbol((indict.get("options") or {}).get("output_timestep_symbol", "__h"))

    def step(xv, hv, pv, P=None, U=None):
        P = props if P is None else P
        U = upd if U is None else U
        sub = dict(pv)
        sub[hs] = hv
        pnum = {sympy.Symbol(k): e.evalf(40, subs=sub) for k, e in P.items()}
        sub2 = dict(pv)
        sub2.update(pnum)
        sub2[hs] = hv
        sub2.update({xs[i]: xv[i] for i in range(len(av))})
        return [U[v].evalf(40, subs=sub2) for v in av]

    # The toolbox prints numeric constants with 15 significant digits.  What that rounding alone can do to a value is
    # measured, not guessed: every inexact Float constant of the returned expressions is perturbed by a relative 1e-15
    # (two random draws) and the spread of the results is the noise floor of the comparison.
    def perturbed(e):
        rep = {}
        for f in e.atoms(sympy.Float):
            if float(f).as_integer_ratio()[1] > 2 ** 30:
                rep[f] = sympy.Float(f, 40) * (1 + sympy.Float(rng.uniform(-1, 1) * 1e-15, 40))
        return e.xreplace(rep) if rep else e
    variants = [({k: perturbed(e) for k, e in props.items()}, {k: perturbed(e) for k, e in upd.items()}) for _ in range(2)]

    def cabs(z):
        re_, im_ = z.as_real_imag()
        return abs(complex(float(re_), float(im_)))

    def noise_of(ref, others, i):
        return max([cabs(o[i] - ref[i]) for o in others] + [0.0])

    for trial in range(3):
        pv = {s: sympy.Float(rng.uniform(0.6, 2.5), 40) for s in free if s not in xs}
        xv = [sympy.Float(rng.uniform(-2, 2), 40) for _ in av]
        Mn = mpmath.matrix([[mpmath.mpf(str(M[i, j].evalf(40, subs=pv))) for j in range(len(av))] + [mpmath.mpf(str(c[i].evalf(40, subs=pv)))] for i in range(len(av))] + [[0] * (len(av) + 1)])
        for hv in (0.0, 0.37, 1.3):
            got = step(xv, sympy.Float(hv, 40), pv)
            others = [step(xv, sympy.Float(hv, 40), pv, P_, U_) for P_, U_ in variants]
            E = mpmath.expm(Mn * mpmath.mpf(hv))
            vec = mpmath.matrix([mpmath.mpf(str(v)) for v in xv] + [1])
            exp = E * vec
            for i in range(len(av)):
                try:
                    noise = 50 * noise_of(got, others, i)
                    gre, gim = got[i].as_real_imag()
                    if abs(float(gim)) > 1e-25 * (1 + abs(float(gre))) + noise:
                        raise ValueError("complex")
                    g = mpmath.mpf(str(gre))
                except Exception:
                    return {"worst": 1.0, "detail": "update of %s is not a real number at h=%s: %s" % (av[i], hv, got[i])}
                # inside an exponent the error of a constant is amplified by |M| h
                err = max(abs(g - exp[i]) - noise, 0) / (1 + abs(exp[i])) / (1 + mpmath.mnorm(Mn, 'inf') * hv)
                if err > worst:
                    worst = float(err)
                    detail = "h=%s variable %s: update gives %s, exact flow %s; rounding of the printed constants explains %s (params %s, state %s)" % (
                        hv, av[i], mpmath.nstr(g, 15), mpmath.nstr(exp[i], 15), mpmath.nstr(noise, 3), {str(k): float(v) for k, v in pv.items()}, [float(v) for v in xv])
        # two-step law on the toolbox's own expressions
        def two(P_=None, U_=None):
            a_ = step(xv, sympy.Float(0.4, 40), pv, P_, U_)
            return step(a_, sympy.Float(0.9, 40), pv, P_, U_), step(xv, sympy.Float(1.3, 40), pv, P_, U_)
        b2, c2 = two()
        alt = [two(P_, U_) for P_, U_ in variants]
        for i in range(len(av)):
            noise = 50 * (noise_of(b2, [x_[0] for x_ in alt], i) + noise_of(c2, [x_[1] for x_ in alt], i))
            b2r, c2r = mpmath.mpf(str(b2[i].as_real_imag()[0])), mpmath.mpf(str(c2[i].as_real_imag()[0]))
            err = max(abs(b2r - c2r) - noise, 0) / (1 + abs(c2r)) / (1 + mpmath.mnorm(Mn, 'inf') * 1.3)
            if err > worst:
                worst = float(err)
                detail = "two-step law violated for %s: step(0.4) then step(0.9) = %s, step(1.3) = %s" % (av[i], b2[i], c2[i])
    return {"worst": worst, "detail": detail}


def run_c08(task):
    """analysis() with options/parameters; returns the solver dictionaries plus, per solver and per
    key, the free symbols of every expression (parsed independently) and exact/numeric values of the
    initial values and parameters."""
    import signal
    import sympy
    import odetoolbox
    from odetoolbox.config import Config
    from . import impl_worker
    defaults = dict(Config.config)

    def handler(signum, frame):
        raise _Alarm()
    old = signal.signal(signal.SIGALRM, handler)
    signal.alarm(int(task.get("api_timeout", 25)))
    try:
        try:
            res = odetoolbox.analysis(task["indict"], disable_stiffness_check=True, **task.get("flags", {}))
            signal.alarm(0)
        except _Alarm:
            return {"outcome": "Ok", "api": "Timeout"}
        except BaseException as e:   # noqa
            signal.alarm(0)
            if isinstance(e, KeyboardInterrupt):
                raise
            return {"outcome": "Ok", "api": impl_worker.classify_exception(e), "detail": str(e)[:300]}
        finally:
            signal.alarm(0)
            signal.signal(signal.SIGALRM, old)
        ns = {"Symbol": sympy.Symbol, "Integer": sympy.Integer, "Float": sympy.Float, "Rational": sympy.Rational, "exp": sympy.exp, "log": sympy.log,
              "sin": sympy.sin, "cos": sympy.cos, "tanh": sympy.tanh, "e": sympy.E, "E": sympy.E, "min": sympy.Min, "max": sympy.Max, "Heaviside": sympy.Heaviside,
              "sqrt": sympy.sqrt, "Abs": sympy.Abs, "I": sympy.I, "pi": sympy.pi, "cosh": sympy.cosh, "sinh": sympy.sinh}
        out = {"outcome": "Ok", "api": "Ok", "solvers": res, "syms": [], "ivs": [], "params": []}
        psub = {}
        for k, v in (task["indict"].get("parameters") or {}).items():
            psub[k] = v
        for s in res:
            tab = {}
            for key in ("update_expressions", "propagators", "initial_values"):
                if key in s:
                    ss = set()
                    per = {}
                    for name, ex in s[key].items():
                        e = sympy.parsing.sympy_parser.parse_expr(str(ex), global_dict=dict(ns))
                        per[name] = sorted(str(x) for x in e.free_symbols)
                        ss |= set(per[name])
                    tab[key] = {"all": sorted(ss), "per": per}
            out["syms"].append(tab)
            out["ivs"].append({k: exact_eval(v, {}) if not sympy.parsing.sympy_parser.parse_expr(str(v), global_dict=dict(ns)).free_symbols else None for k, v in s["initial_values"].items()})
            pv = {}
            for k, v in (s.get("parameters") or {}).items():
                try:
                    pv[k] = float(sympy.parsing.sympy_parser.parse_expr(str(v), global_dict=dict(ns)))
                except Exception:
                    pv[k] = None
            out["params"].append(pv)
        return out
    finally:
        Config.config.clear()
        Config.config.update(defaults)


def run_twin(task):
    """analysis() of one presentation under an alarm; returns outcome, analytic set and a numerical
    fingerprint of every update map / initial value (propagators substituted; symbols valued through the
    canonical names supplied by the harness)"""
    import signal
    import sympy
    import odetoolbox
    from odetoolbox.config import Config
    from . import impl_worker
    defaults = dict(Config.config)

    def handler(signum, frame):
        raise _Alarm()
    old = signal.signal(signal.SIGALRM, handler)
    signal.alarm(int(task.get("api_timeout", 30)))
    try:
        try:
            res = odetoolbox.analysis(task["indict"], disable_stiffness_check=True, **task.get("flags", {}))
            signal.alarm(0)
        except _Alarm:
            return {"outcome": "Ok", "api": "Timeout"}
        except BaseException as e:   # noqa
            signal.alarm(0)
            if isinstance(e, KeyboardInterrupt):
                raise
            return {"outcome": "Ok", "api": impl_worker.classify_exception(e), "detail": str(e)[:300]}
        finally:
            signal.alarm(0)
            signal.signal(signal.SIGALRM, old)
        ns = {"Symbol": sympy.Symbol, "Integer": sympy.Integer, "Float": sympy.Float, "Rational": sympy.Rational, "exp": sympy.exp, "log": sympy.log,
              "sin": sympy.sin, "cos": sympy.cos, "e": sympy.E, "E": sympy.E, "sqrt": sympy.sqrt, "cosh": sympy.cosh, "sinh": sympy.sinh}
        canon = task["canon"]            # presentation symbol name -> canonical name
        vals = task["values"]            # canonical name -> float string
        out = {"outcome": "Ok", "api": "Ok", "analytic": [], "numeric": [], "fingerprint": {}, "ivs": {}}
        for s in res:
            (out["analytic"] if s["solver"] == "analytical" else out["numeric"]).extend(canon.get(v, v) for v in s["state_variables"])
            props = {k: sympy.parsing.sympy_parser.parse_expr(v, global_dict=dict(ns)) for k, v in s.get("propagators", {}).items()}
            for nm, ex in s["update_expressions"].items():
                e = sympy.parsing.sympy_parser.parse_expr(ex, global_dict=dict(ns))
                e = e.subs({sympy.Symbol(k): v for k, v in props.items()})
                sub = {}
                for sym in e.free_symbols:
                    cn = canon.get(str(sym), str(sym))
                    sub[sym] = sympy.Float(vals.get(cn, "0.777"), 30)
                v = e.evalf(30, subs=sub)
                out["fingerprint"][canon.get(nm, nm)] = "%.14g" % float(sympy.re(v))
            for nm, ex in s["initial_values"].items():
                e = sympy.parsing.sympy_parser.parse_expr(ex, global_dict=dict(ns))
                sub = {sym: sympy.Float(vals.get(canon.get(str(sym), str(sym)), "0.777"), 30) for sym in e.free_symbols}
                out["ivs"][canon.get(nm, nm)] = "%.14g" % float(sympy.re(e.evalf(30, subs=sub)))
        out["analytic"].sort()
        out["numeric"].sort()
        return out
    finally:
        Config.config.clear()
        Config.config.update(defaults)
