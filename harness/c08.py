"""C08 — returned solver dictionaries are complete, closed and faithful to the input."""
import random
import re
from fractions import Fraction

from . import common as C
from . import sysutil as U
from . import c01

PROP = "C08"
PROPS_FILE = "theories/Props/C08.v"
THEOREMS = ["c08_initial_values_by_name", "c08_initial_values_order_irrelevant", "c08_filter_scans_everything", "c08_params", "c08_one_solver_each", "c08_numeric_symbols_closed", "c08_numeric_update_symbols_closed", "c08_analytic_update_symbols_closed"]
GEN_FILES = ["ParamFilterGen.v"]
TRUSTED = ["Coq 8.16.1 kernel + vm_compute", "theorems closed under the global context",
           "translator harness/translate_more.gen_param_filter: the list of solver-dictionary keys scanned by the parameter filter of _analysis, regenerated from /repo on every run (fail-closed)",
           "correspondence harness (harness/c08.py, sysimpl.run_c08): listed parameters vs Model/Output.filter_params on the symbol table of the returned expressions (decided in Coq); everything else about the dictionaries is checked directly by the probe",
           "modelled not verified: SymPy printing/parsing of the returned strings (symbols are extracted by an independent parse)"]
ASSUMPTIONS = ["'refers to' = occurs as a free symbol of the returned expression strings",
               "the analytic update expressions' symbol closure is checked by the probe only (the propagator strings come from the SymPy oracle)"]

HEADER = """From Coq Require Import List String Bool.
From OdeVerif Require Import Base.Corr Gen.ParamFilterGen Model.Output.
Import ListNotations.
Definition agree (c : (symtab string * list string) * list string) : bool :=
  list_eqb String.eqb (filter_params string String.eqb scanned_keys (fst (fst c)) (snd (fst c))) (snd c).
Definition mism (cases : list ((symtab string * list string) * list string)) : list nat := mism_by agree cases.
"""

HSYMS = [None, "dt", "__dt"]
MARKERS = [None, "_D", "__deriv"]


def cstr(s):
    return '"%s"%%string' % s


HEADER_IV = """From Coq Require Import List String Ascii Bool ZArith.
From OdeVerif Require Import Base.Corr Model.InputCheck Model.InitialValues.
Import ListNotations.
(* case: order, the user's (key, value id) pairs in the order listed, observed value ids for x, x', ... *)
Definition agree (c : (nat * list (string * Z)) * list (option Z)) : bool :=
  list_eqb (option_eqb Z.eqb)
    (output_ivs (fst (fst c)) (map (fun kv => (list_ascii_of_string (fst kv), snd kv)) (snd (fst c)))) (snd c).
Definition mism (cases : list ((nat * list (string * Z)) * list (option Z))) : list nat := mism_by agree cases.
"""


def impl_ivs(task):
    """analysis() on entries of order >= 2 whose initial values are pairwise distinct numbers listed in an arbitrary key order;
    returns, per case, the returned initial value of x, x', ... as floats"""
    import odetoolbox
    from odetoolbox.config import Config
    from . import impl_worker
    outs = []
    for c in task["cases"]:
        defaults = dict(Config.config)
        try:
            res = odetoolbox.analysis(c["indict"], disable_stiffness_check=True, **c.get("flags", {}))
            got = {}
            for so in res:
                for nm, v in so["initial_values"].items():
                    got[nm] = float(v)
            outs.append({"api": "Ok", "ivs": got})
        except BaseException as e:   # noqa
            if isinstance(e, KeyboardInterrupt):
                raise
            outs.append({"api": impl_worker.classify_exception(e), "detail": str(e)[:200]})
        finally:
            Config.config.clear()
            Config.config.update(defaults)
    return {"outcome": "Ok", "outs": outs}


def gen_iv_case(rng):
    name = rng.choice(["x", "V_m", "g", "w_ad", "I", "V_d"])
    order = rng.choice([2, 2, 3, 3, 4])
    numeric_only = order >= 3 or rng.random() < 0.5      # the matrix exponential of a third-order block takes SymPy minutes; routing does not depend on it
    marker = rng.choice(["__d", "__d", "_D", "__deriv"])
    vals = rng.sample([1, 2, 3, 5, 7, 11, -4, -6, 13, 0.5, 0.25, -1.5], order)
    keys = list(range(order))
    rng.shuffle(keys)
    pairs = []
    for k in keys:
        key = name + "'" * k
        q = rng.random()
        if q < 0.15:
            key = " " + key
        elif q < 0.3:
            key = key + " "
        pairs.append((key, vals[k]))
    coefs = {2: [2, 3], 3: [6, 11, 6], 4: [24, 50, 35, 10]}[order]          # real, distinct decay rates 1, 2, ... (no oscillation)
    lin = " - ".join(["0"] + ["%d*%s%s" % (coefs[k], name, "'" * k) for k in range(order)])
    rhs = lin if rng.random() < 0.5 else lin + " - %s**3/8" % name
    ind = {"dynamics": [{"expression": "%s%s = %s" % (name, "'" * order, rhs), "initial_values": {k: repr(v) for k, v in pairs}}]}
    if rng.random() < 0.5:
        ind["dynamics"].insert(rng.randint(0, 1), {"expression": "y' = -y/3", "initial_value": "9"})
    if marker != "__d":
        ind["options"] = {"differential_order_symbol": marker}
    flags = {"disable_analytic_solver": True} if numeric_only else {}
    return {"indict": ind, "flags": flags, "name": name, "order": order, "marker": marker, "pairs": pairs, "vals": vals}


def basic_fails(system, hs, mk, r):
    """kinds, keys, symbol closure, propagator discipline and cover of one analysis result (the part of the probe that the
    replay re-evaluates); returns (key, what) pairs"""
    offs, n = U.offsets(system)
    names = [U.var_name(system, gi, mk) for gi in range(n)]
    fails, allv = [], []
    for si, (so, tab) in enumerate(zip(r["solvers"], r["syms"])):
        kind = so.get("solver", "")
        if not (kind == "analytical" or kind == "numeric" or re.match(r"^numeric-(implicit|explicit|warning)$", kind)):
            fails.append(("kind", "solver kind %r" % kind))
        sv = so.get("state_variables", [])
        allv += sv
        if sorted(so.get("update_expressions", {})) != sorted(sv) or sorted(so.get("initial_values", {})) != sorted(sv):
            fails.append(("keys", "%s: update_expressions %s / initial_values %s do not match state_variables %s" % (kind, sorted(so.get("update_expressions", {})), sorted(so.get("initial_values", {})), sorted(sv))))
        # initial values are the user's
        for e, o in zip(system["entries"], offs):
            for d in range(e["order"]):
                nm = e["name"] + mk * d
                if nm in so.get("initial_values", {}):
                    got = r["ivs"][si].get(nm)
                    want = e["ivs"][d]
                    if got is not None and re.match(r"^-?\d+(/\d+)?$", want) and Fraction(got) != Fraction(want):
                        fails.append(("iv", "initial value of %s is %s, user supplied %s" % (nm, so["initial_values"][nm], want)))
                    if got is None and not re.match(r"^-?\d+(/\d+)?$", want):
                        toks = set(re.findall(r"[A-Za-z_][A-Za-z_0-9]*", want))
                        if not toks <= set(tab["initial_values"]["per"].get(nm, [])):
                            fails.append(("iv", "initial value of %s is %r, user supplied %r" % (nm, so["initial_values"][nm], want)))
        allowed = set(names) | {hs, "t"} | set(system["params"]) | {"x0_iv"} | set(so.get("propagators", {}))
        for key in ("update_expressions", "propagators", "initial_values"):
            if key in tab:
                bad = set(tab[key]["all"]) - allowed
                if bad:
                    fails.append(("closure", "%s of the %s solver mention unknown symbols %s (time-step symbol %s, marker %s)" % (key, kind, sorted(bad), hs, mk)))
        if "propagators" in tab:
            used = set(x for x in tab["update_expressions"]["all"] if x.startswith("__P__"))
            if not used <= set(so["propagators"]):
                fails.append(("propagator", "propagator symbols used but not defined: %s" % sorted(used - set(so["propagators"]))))
            for pk, fs in tab["propagators"]["per"].items():
                if set(fs) & (set(names) | {"t"}):
                    fails.append(("propagator", "propagator %s depends on state or time: %s" % (pk, fs)))
                if not re.match(r"^__P__.+__.+$", pk):
                    fails.append(("propagator", "propagator key %r" % pk))
    if sorted(allv) != sorted(names):
        fails.append(("cover", "state variables %s, expected %s (marker %s)" % (sorted(allv), sorted(names), mk)))
    return fails


def run(ctx):
    rng = random.Random(ctx["seed"] * 8009 + 8)
    quick = ctx["tier"] == "quick"
    systems = c01.corpus()[:9]
    for _ in range(45 if quick else 450):
        if rng.random() < 0.5:
            systems.append(c01.gen_linear(rng))
        else:
            s = U.gen_system(rng, max_entries=3, allow_order=(1, 1, 2), kinds=("lin", "nonlin", "coupled", "off", "lin"), nparams=rng.choice([1, 2, 3]))
            if U.offsets(s)[1] <= 4 and not any(e["order"] > 1 and any(not any(a[0] == "v" for a, _ in t["pows"]) for t in e["rhs"]) for e in s["entries"]):
                systems.append(s)
    tasks, meta = [], []
    for k, s in enumerate(systems):
        nset = 2 if quick else 5
        for _ in range(nset):
            hs, mk = rng.choice(HSYMS), rng.choice(MARKERS)
            options = {}
            if hs:
                options["output_timestep_symbol"] = hs
            if mk:
                options["differential_order_symbol"] = mk
            # parameters block: absent / all used / with unused / parameter used by an initial value only
            mode = rng.choice(["absent", "all", "unused", "ivonly", "ivonly"])
            s2 = s
            parameters = None
            if mode != "absent":
                parameters = {p: repr(rng.choice([0.5, 1.5, 2.0, 10.0, 0.125])) for p in s["params"]}
                if mode in ("unused", "ivonly"):
                    parameters["p_unused"] = "3.25"
                if mode == "ivonly":
                    import copy
                    s2 = copy.deepcopy(s)
                    parameters["x0_iv"] = "0.75"
                    high = [e_ for e_ in s2["entries"] if e_["order"] > 1]
                    e = rng.choice(high) if high and rng.random() < 0.7 else s2["entries"][rng.randrange(len(s2["entries"]))]
                    slot = rng.randrange(1, len(e["ivs"])) if len(e["ivs"]) > 1 and rng.random() < 0.7 else rng.randrange(len(e["ivs"]))   # mostly the initial value of a DERIVATIVE
                    e["ivs"][slot] = rng.choice(["x0_iv", "2*x0_iv", "x0_iv/4"])
                    if e["order"] > 1:
                        e["single_iv"] = False
            ind = U.render(s2, style=rng.choice([0, 1, 2]), rng=random.Random(k), options=options or None, parameters=parameters)
            flags = {"disable_analytic_solver": rng.random() < 0.25}
            if rng.random() < 0.35:      # the user's text is returned for (some) first-order variables: it, too, must use the configured names
                firsts_ = [e_["name"] for e_ in s2["entries"] if e_["order"] == 1 and e_["kind"] == "ode"]
                flags["preserve_expressions"] = True if (rng.random() < 0.5 or not firsts_) else rng.sample(firsts_, rng.randint(1, len(firsts_)))
            tasks.append({"fn": "sysimpl.run_c08", "indict": ind, "flags": flags, "api_timeout": 25, "timeout": 90})
            meta.append((s2, hs or "__h", mk or "__d", mode))
    # the same input analysed in ONE interpreter under several names for the step size and the derivative marker (deterministic
    # counterpart of the workers' sharing): every returned dictionary must use the names configured for ITS call
    import copy as _copy
    seq_tasks, seq_meta = [], []
    for k in rng.sample(range(len(tasks)), min(len(tasks), 8 if quick else 60)):
        s_, hs_, mk_, mode_ = meta[k]
        subs_, metas_ = [], []
        for hs2, mk2 in [(hs_, mk_)] + [(rng.choice(["__h", "dt", "__dt", "Delta"]), rng.choice(["__d", "_D", "__deriv"])) for _ in range(2)] + [(hs_, mk_)]:
            ind_ = _copy.deepcopy(tasks[k]["indict"])
            ind_.setdefault("options", {})["output_timestep_symbol"] = hs2
            ind_["options"]["differential_order_symbol"] = mk2
            subs_.append(dict(tasks[k], indict=ind_))
            metas_.append((s_, hs2, mk2, mode_))
        seq_tasks.append({"fn": "sysimpl.run_c08_seq", "subs": subs_, "timeout": 400, "fresh": True})
        seq_meta.append(metas_)
    allres = C.run_tasks(tasks + seq_tasks, timeout=400)
    res = allres[:len(tasks)]
    for metas_, t_, r_ in zip(seq_meta, seq_tasks, allres[len(tasks):]):
        if r_.get("outcome") != "Ok":
            continue
        for pos_, (m_, sub_, rr_) in enumerate(zip(metas_, t_["subs"], r_["results"])):
            meta.append(m_)
            tasks.append(dict(sub_, sequence=[x_["indict"]["options"] for x_ in t_["subs"][:pos_]]))
            res.append(rr_)
    coq, info, probe_failures, corr_errors = [], [], [], []
    dist = {"api": {}, "hsym": {}, "marker": {}, "param_mode": {}, "solver_kinds": {}, "solvers_checked": 0, "params_listed": 0, "iv_only_param_cases": 0, "same_interpreter_sequences": len(seq_tasks)}
    nontriv = set()
    samples = []
    for (s, hs, mk, mode), t, r in zip(meta, tasks, res):
        api = r.get("api", r.get("outcome"))
        dist["api"][api] = dist["api"].get(api, 0) + 1
        if api != "Ok":
            continue
        dist["hsym"][hs] = dist["hsym"].get(hs, 0) + 1
        dist["marker"][mk] = dist["marker"].get(mk, 0) + 1
        dist["param_mode"][mode] = dist["param_mode"].get(mode, 0) + 1
        offs, n = U.offsets(s)
        names = [U.var_name(s, gi, mk) for gi in range(n)]
        fails = []
        allv = []
        for si, (so, tab) in enumerate(zip(r["solvers"], r["syms"])):
            dist["solvers_checked"] += 1
            kind = so.get("solver", "")
            dist["solver_kinds"][kind] = dist["solver_kinds"].get(kind, 0) + 1
            # parameters
            supplied = list((t["indict"].get("parameters") or {}).keys())
            if "parameters" in t["indict"]:
                listed = list(so.get("parameters", {}).keys())
                ref = set()
                for key in ("update_expressions", "propagators", "initial_values"):
                    if key in tab:
                        ref |= set(tab[key]["all"])
                want = [p for p in supplied if p in ref]
                dist["params_listed"] += len(listed)
                if mode == "ivonly":
                    dist["iv_only_param_cases"] += 1
                if sorted(listed) != sorted(want):
                    onlyiv = [p for p in want if p not in listed and p in set(tab.get("initial_values", {}).get("all", [])) and p not in set(tab.get("update_expressions", {}).get("all", []))]
                    key_ = "parameter referenced only by an initial value is not listed" if onlyiv and sorted(set(want) - set(listed)) == sorted(onlyiv) and not (set(listed) - set(want)) else "parameters: " + C.stable_hash(t["indict"])
                    probe_failures.append({"key": key_, "what": "%s solver lists parameters %s; its expressions and initial values refer to %s of the supplied %s; input %s" % (kind, sorted(listed), sorted(want), supplied, t["indict"]), "replay": {"task": t}})
                for p, v in r["params"][si].items():
                    try:
                        wv = float(t["indict"]["parameters"][p])
                        if v is None or abs(v - wv) > 1e-14 * max(1.0, abs(wv)):
                            fails.append(("paramvalue", "parameter %s listed with value %s, supplied %s" % (p, v, wv)))
                    except Exception:
                        pass
                # model correspondence of the filter
                symtab = C.clist(["(%s, %s)" % (cstr(key), C.clist([cstr(x) for x in tab[key]["all"]])) for key in ("update_expressions", "propagators", "initial_values") if key in tab])
                coq.append("((%s, %s), %s)" % (symtab, C.clist([cstr(p) for p in supplied]), C.clist([cstr(p) for p in listed])))
                info.append({"indict": t["indict"], "solver": kind, "listed": listed})
        fails += basic_fails(s, hs, mk, r)
        for key, what in fails:
            probe_failures.append({"key": "%s: %s" % (key, C.stable_hash(t["indict"])), "what": what + " | input %s" % t["indict"], "replay": {"task": t, "meta": {"system": s, "hs": hs, "mk": mk}}})
        nontriv.add(C.stable_hash(t["indict"]))
        if len(samples) < 3 and mode != "absent":
            samples.append({"indict": t["indict"], "solvers": r["solvers"]})
    # ---- routing of initial values (model: Model/InitialValues.output_ivs)
    iv_cases = [gen_iv_case(rng) for _ in range(40 if quick else 400)]
    chunks = [iv_cases[i::8] for i in range(8)]
    ivres = C.run_tasks([{"fn": "c08.impl_ivs", "cases": ch, "timeout": 600} for ch in chunks if ch], timeout=600)
    coq_iv, info_iv = [], []
    dist["initial_value_routing"] = {"cases": 0, "orders": {}, "keys_not_ascending": 0}
    for ci, r in enumerate(ivres):
        if r.get("outcome") != "Ok":
            corr_errors.append("initial-value worker failed: %s" % str(r)[:200])
            continue
        for c, o in zip([ch for ch in chunks if ch][ci], r["outs"]):
            if o["api"] != "Ok" and o["api"] not in ("Malformed", "Assert"):
                dist["initial_value_routing"]["skipped_" + o["api"]] = dist["initial_value_routing"].get("skipped_" + o["api"], 0) + 1
                continue
            if o["api"] != "Ok":
                probe_failures.append({"key": "valid input with shuffled initial_values keys rejected: " + C.stable_hash(c["indict"]), "what": "analysis() fails with %s (%s) on %s" % (o["api"], o.get("detail"), c["indict"]), "replay": {"iv_case": c}})
                continue
            dist["initial_value_routing"]["cases"] += 1
            dist["initial_value_routing"]["orders"][str(c["order"])] = dist["initial_value_routing"]["orders"].get(str(c["order"]), 0) + 1
            dist["initial_value_routing"]["keys_not_ascending"] += int([k.count("'") for k, _ in c["pairs"]] != sorted(k.count("'") for k, _ in c["pairs"]))
            obs = []
            for k in range(c["order"]):
                v = o["ivs"].get(c["name"] + c["marker"] * k)
                ids = [i for i, (_, val) in enumerate(c["pairs"]) if v is not None and abs(val - v) < 1e-12]
                obs.append("Some (%d)%%Z" % ids[0] if ids else "None")
                if v is None or abs(v - c["vals"][k]) > 1e-12:
                    probe_failures.append({"key": "initial value of a state variable is not the one supplied for it: " + C.stable_hash(c["indict"]),
                                           "what": "%s%s is returned with initial value %s; the input lists %s under the key with %d prime(s) | input %s" % (c["name"], c["marker"] * k, v, c["vals"][k], k, c["indict"]),
                                           "replay": {"iv_case": c}})
                    break
            coq_iv.append("((%d%%nat, %s), %s)" % (c["order"], C.clist(['("%s"%%string, (%d)%%Z)' % (key, i) for i, (key, _) in enumerate(c["pairs"])]), C.clist(obs)))
            info_iv.append({"indict": c["indict"], "returned": o["ivs"]})
            nontriv.add(C.stable_hash(["iv", c["indict"]]))
    mism, errs = ([], [])
    import os
    if os.path.exists(os.path.join(C.COQ, "theories/Gen/ParamFilterGen.vo")):
        mism, errs = C.coq_eval_shards(PROP, HEADER, coq, per=100)
    else:
        errs = ["Gen/ParamFilterGen.vo not built"]
    corr_errors += errs
    mism_iv, errs_iv = C.coq_eval_shards(PROP + "iv", HEADER_IV, coq_iv, per=200)
    corr_errors += errs_iv
    corr_mismatches = [{"layer": "listed parameters vs Model/Output.filter_params with the regenerated scanned keys", "case": info[i]} for i in mism[:6]] + \
                      [{"layer": "returned initial values vs Model/InitialValues.output_ivs (routing by the number of primes of the key)", "case": info_iv[i]} for i in mism_iv[:4]]
    # failures found in the deterministic same-interpreter sequences first: they replay on their own (a failure of an
    # isolated task that was caused by what its worker had analysed before does not)
    probe_failures.sort(key=lambda pf_: 0 if ((pf_.get("replay") or {}).get("task") or {}).get("sequence") else 1)
    return {"evaluations": len(tasks), "distinct_nontrivial": len(nontriv),
            "rule": "corpus + random linear / mixed systems x {default, dt, __dt} time-step symbol x {__d, _D, __deriv} marker x parameters block {absent, all, with unused, with a parameter referenced only by an initial value} x disable_analytic_solver; distinct by hash of the input",
            "samples": samples, "distribution": dist,
            "layers": {"L1 parameter filter (in Coq)": len(coq), "L1b routing of initial values, keys in arbitrary order (in Coq)": len(coq_iv), "probe: kinds/keys/initial values/symbol closure/propagators/parameters": dist["solvers_checked"]},
            "corr_mismatches": corr_mismatches, "corr_errors": corr_errors, "probe_failures": probe_failures}


def replay(payload):
    rp = payload.get("replay") or {}
    if "iv_case" in rp:
        c = rp["iv_case"]
        o = C.run_tasks([{"fn": "c08.impl_ivs", "cases": [c]}], timeout=300)[0]["outs"][0]
        if o["api"] != "Ok":
            return False, "analysis fails: %s" % o["api"]
        bad = [k for k in range(c["order"]) if abs(o["ivs"].get(c["name"] + c["marker"] * k, 1e99) - c["vals"][k]) > 1e-12]
        return (not bad), "initial values returned %s, supplied %s" % (o["ivs"], c["pairs"])
    if "task" not in rp:
        return True, "replay file names a broken obligation (no concrete input): " + str(payload.get("no_longer_checks"))[:500]
    t = rp["task"]
    if t.get("sequence"):
        import copy as _copy
        subs = []
        for opt in t["sequence"]:
            ind = _copy.deepcopy(t["indict"])
            ind["options"] = opt
            subs.append(dict(t, indict=ind, api_timeout=120))
        rr = C.run_tasks([{"fn": "sysimpl.run_c08_seq", "subs": subs + [dict(t, api_timeout=120)], "timeout": 900, "fresh": True}], timeout=900)[0]
        r = rr["results"][-1] if rr.get("outcome") == "Ok" else rr
    else:
        r = C.run_tasks([dict(t, api_timeout=120, timeout=200)], timeout=200)[0]
    if r.get("api") != "Ok":
        return True, "analysis no longer succeeds (%s)" % r.get("api")
    if rp.get("meta"):
        bf = basic_fails(rp["meta"]["system"], rp["meta"]["hs"], rp["meta"]["mk"], r)
        if bf:
            return False, "%s" % bf[:3]
    if "parameters" not in t["indict"]:
        return True, "no parameters block"
    for so, tab in zip(r["solvers"], r["syms"]):
        ref = set()
        for key in ("update_expressions", "propagators", "initial_values"):
            if key in tab:
                ref |= set(tab[key]["all"])
        want = sorted(p for p in t["indict"]["parameters"] if p in ref)
        if sorted(so.get("parameters", {})) != want:
            return False, "%s lists %s, refers to %s" % (so["solver"], sorted(so.get("parameters", {})), want)
    return True, "parameter lists are complete"
