#!/bin/bash
# tools/sweep.sh "<seeds>" [ids...] : run quick checks for several seeds on the unchanged tree; prints only summary lines
SEEDS=${1:-"0 1 2 3"}; shift
IDS=${@:-"C01 C02 C03 C04 C05 C06 C07 C08 C09 C10 C11 C12 C13 C14 C15 C16"}
cd "$(dirname "$(readlink -f "$0")")/.."
for sd in $SEEDS; do for id in $IDS; do
  out=$(VERIF_SEED=$sd ./check $id quick 2>&1 | grep -E "^C[0-9]+ quick|^VIOLATION|^KNOWN" | tr '\n' ' ')
  echo "seed=$sd $out"
done; done
