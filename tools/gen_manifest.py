#!/usr/bin/env python3
"""Writes /verif/MANIFEST.json from the table below (kept in one place so that the manifest is
always valid and `not_applicable` always lists every unclaimed property)."""
import json, os
HERE = os.path.dirname(os.path.dirname(os.path.abspath(__file__)))
BASELINE = "cd /repo && /venv/bin/python -m pytest -ra -q -p no:cacheprovider --timeout=900 --continue-on-collection-errors"

CLAIMED = {
 "C01": dict(
    text="proof (partial): Coq theorems (Props/C01.v) for every dimension and coupling pattern, in any commutative ring with a derivation D=d/dh and the morphism ev0=(h:=0): if each connected component's matrix exponential satisfies the law of the exponential (ev0 P = I, D P = A P: the SymPy oracle) then the assembled update expressions — per-component scatter, non-zero-entry sums, both constant-offset formulas, with exactly the raises of the code as hypotheses — are the identity at h=0 and have h-derivative equal to the right-hand side at the updated state; a Coquelicot development proves uniqueness for u' = Au + b in any dimension, hence these two facts mean 'the state the equations reach after time h' and give the two-step law. Tie: update expressions of the implementation evaluated exactly with each propagator symbol bound to an independent rational vs the model (in Coq); 40-digit probe of the flow, identity at 0 and semigroup law against expm of the user's own equations.",
    note="Partial: SymPy's exp/simplify is an oracle validated per instance, not proved. Trusted: Coq kernel/vm_compute; stdlib real-number axioms + classic + funext (bridge theorems only); scipy connected_components law (coupled indices share a label); harness.",
    technique="Coq proof (differential-ring algebra + Coquelicot uniqueness) + exact correspondence of the assembly", ref="5/C01"),
 "C02": dict(
    text="proof: Coq theorems (Props/C02.v) over a model of split_lin_inhom_nonlin, Shape.from_ode/reconstitute_expr, from_shapes, get_sub_system and the numeric re-assembly, in an arbitrary commutative ring and for EVERY classifier: the split re-assembles to the split expression, the row of each highest derivative equals the user's right-hand side, lower rows equal the next derivative, cutting any sub-system and rebuilding the update expression loses nothing. Tie: (A,b,c) and numeric update expressions of the implementation evaluated exactly at rational points and compared with the model inside Coq; probe compares with the user's text directly (exact; 40 digits for function atoms / float literals) under all flag settings.",
    note="Trusted: Coq kernel/vm_compute; harness (rendering, exact evaluation); SymPy parse/expand/simplify/collect/print assumed meaning-preserving and validated per case; exact layer restricted to Laurent polynomials with dyadic coefficients.",
    technique="Coq proof (ring algebra over term lists) + exact rational-point correspondence", ref="5/C02"),
 "C03": dict(
    text="proof: Coq theorems (Props/C03.v): the worklist of propagate_lin_cc_judgements returns exactly the greatest dependency-closed subset of the initially linear nodes for every graph and marking; analytic membership in the model of _find_analytically_solvable_equations is sound (empty nonlinear part, coefficients/offset made of parameters only) and closed under dependencies; the analytic/numeric partition is an exact cover. Tie: per-variable verdict of the implementation (API partition, hook H1 or internal pipeline when exponentiation fails) vs the model, and the worklist called directly on random graphs, both decided in Coq; probes check cover/soundness/closure on API results and a brute-force gfp.",
    note="Trusted: Coq kernel/vm_compute; harness; SymPy expand/_is_zero on canonical Laurent polynomials (zero = no terms) and scipy SCC (own reachability in the model) modelled not verified; worklist fuel validated by correspondence.",
    technique="Coq proof (worklist invariant, gfp characterisation) + verdict correspondence", ref="5/C03"),
 "C04": dict(
    text="proof: Coq theorems (Props/C04.v): the shape-level verdict after both splits is 'linear, constant coefficients' exactly when every term of the canonical right-hand side is constant or a constant times one state variable (independent of term order and of the other shapes); a variable is analytic iff everything reachable from it along dependencies is so recognised and hits neither documented exception (c04_complete, via the worklist gfp theorem). Tie: 7 algebraically equivalent spellings x entry orders of each canonical system, observed analytic set vs the model decided in Coq; probes: an independent differential criterion (sympy.diff on the spelled text + exceptions + closure) and equality of the analytic set across spellings.",
    note="Trusted: Coq kernel/vm_compute; harness; oracle: SymPy expand() canonicalises every spelling (validated per case, not proved); probe oracle sympy.diff/simplify.",
    technique="Coq proof (idempotence of the two-level split, gfp completeness) + spelling correspondence", ref="5/C04"),
 "C05": dict(
    text="proof (partial): Coq theorems (Props/C05.v): whatever SymPy answers inside the order search, an accepted result has an order between 1 and the documented maximum at which the identity f^(n) = sum a_k f^(k) was verified (and at no lower solvable order), otherwise the entry is rejected; and (Coquelicot, any order n) if f satisfies such an identity with constant coefficients then ANY update family that is the identity at step 0 and obeys the companion system reproduces f and its derivatives from (f(0),...,f^(n-1)(0)) exactly for every T >= 0 and over any split into steps. Tie: functions with minimal order known by construction (orders 1-5, out-of-class functions, identically vanishing ones) — Shape.from_function outcome vs the model run with the ideal oracle (in Coq); probe: stepping with the returned propagators from the returned initial values over random step sequences vs f(T), f'(T), ... at 30 digits, initial values = f^(k)(0), no t in the factors, order <= 4.",
    note="Partial: SymPy's diff/solve/simplify inside the search are oracles. Trusted: Coq kernel/vm_compute; stdlib real-number axioms + classic + funext (exactness theorems); harness; mpmath as probe oracle. Functions exceeding the time limit are excluded and counted.",
    technique="Coq proof (search-loop invariant + Coquelicot uniqueness for companion systems) + known-minimal-order correspondence", ref="5/C05"),
 "C06": dict(
    text="proof (partial): Coq theorems (Props/C06.v): which variables are solved analytically is equivariant under any injective relabelling of the dependency graph and initial verdicts (via the worklist gfp characterisation); two presentations whose right-hand sides are the same function give rows with the same meaning (C02); two update families for one linear system that are the identity at step 0 and obey the equations coincide for every state and step (Coquelicot uniqueness). In the model names are indices, so consistent renaming is invisible by construction; the string-level handling of names is tied by twin runs: every generated system (some with bounds) vs entry permutations, injective renamings from an adversarial pool (names that exist in SymPy's own namespace, prefixes of each other) and function-of-time / n-th order / first-order-chain formulations — success, analytic set, numerical fingerprints of all update maps and initial values compared after mapping.",
    note="Partial: SymPy's exp/simplify assumed equivariant (validated by the twins). Trusted: Coq kernel/vm_compute; stdlib real-number axioms + classic + funext (c06_updates_agree only); harness.",
    technique="Coq proof (graph-relabelling equivariance, uniqueness corollaries) + twin-run differential test", ref="5/C06"),
 "C07": dict(
    text="proof + translator: the option store's defaults, Config.reset, the exact sequence of store operations one call of _analysis performs, the shape of _read_global_config and the absence of any other write to the store in odetoolbox/*.py are regenerated from /repo on every run; Props/C07.v proves that this sequence starts with a real reset (no return before it), hence the store a call works with is independent of every earlier call (successful or failing, incl. unknown-option assertions half-way through), and that every option the call does not specify has its default. Tie: Config.config observed after every call of random histories vs the model (in Coq). The remaining assumption — analysis reads no other mutable global — and the other two clauses (input not modified, hash-seed independence) are probed: last call of each history vs the same call first in a fresh interpreter, deep equality of the input, several PYTHONHASHSEEDs compared mathematically.",
    note="Trusted: Coq kernel/vm_compute; translator (fail-closed); harness. Process-level behaviour (fresh interpreter, hash seeds) is differential testing, not proof.",
    technique="Coq proof over translated store operations + history/fresh-interpreter differential probe", ref="5/C07"),
 "C08": dict(
    text="proof + translator: the list of solver-dictionary keys scanned by the parameter filter is regenerated from /repo on every run and proved to contain update expressions, propagators and initial values, whence (c08_params) a supplied parameter is listed iff any of them refers to it, for every symbol table; the partition gives each state variable to exactly one solver; the numeric update expressions are proved to contain no symbol that is neither a state variable nor a symbol of the user's own right-hand sides. Everything else the property says about the dictionaries (kinds, keys, initial values, symbol closure incl. propagators, configured marker and time-step symbol, parameter values) is checked directly on the returned dictionaries for every accepted generated input x 3 time-step symbols x 3 markers x 4 parameter-block modes.",
    note="Trusted: Coq kernel/vm_compute; translator (fail-closed); harness (independent parse of the returned strings); analytic update/propagator strings come from the SymPy oracle and are covered by the probe only.",
    technique="Coq proof over translated code + direct structural checks of every returned dictionary", ref="5/C08"),
 "C09": dict(
    text="proof + translator: Coq theorems (Props/C09.v) over a character-level model of Shape.from_json / _parse_defining_expression / the name checks: for EVERY identifier, order k (not only 0..3), surrounding whitespace and right-hand side without '=', the defining expression parses to (identifier, k); the entry check accepts an entry iff it satisfies the documented format (full two-way decision table c09_accepted_iff), so every well-formed entry of any order is accepted (c09_accepts) and every '='/initial-value inconsistency gives the malformed-input error while name clashes (reserved names regenerated from Shape._sympy_globals) give an error (c09_rejects); a system is accepted iff each entry is. Tie: exhaustive enumeration of corruption kinds x entry positions x initial-value slots x orders 0..3 (+ whitespace/naming variants) — implementation outcome vs the model, decided in Coq, and vs the property text.",
    note="Trusted: Coq kernel/vm_compute; translator for the reserved names; harness; Python's str/re functions modelled by folds over characters (tied by the exhaustive correspondence); SymPy parsing of right-hand sides outside the structural checks.",
    technique="Coq proof (string-level parser correctness + decision table) + exhaustive enumeration correspondence", ref="5/C09"),
 "C10": dict(
    text="proof: Coq theorem (Props/C10.v): in any commutative ring with derivations, d/dx_j of the COMPLETE right-hand side sum_k A_ik x_k + b_i + c_i equals A_ij + d_j c_i for every dimension, which is what the model of get_jacobian_matrix assembles; the pinned tree's variant (summing A_ik without x_k) is proved to lose the linear part. Tie: full-system and numeric-sub-system Jacobians of the implementation evaluated exactly at rational points vs the model inside Coq; probes: exact derivative of the user's right-hand side, and numerical_jacobian vs finite differences of MixedIntegrator.step through the pygsl stand-in.",
    note="Trusted: Coq kernel/vm_compute; harness; sympy.diff modelled by a formal derivative (not proved to be a derivation); cython autowrap and GSL (stand-in) not verified; finite-difference half is a test.",
    technique="Coq proof (differential-ring algebra) + exact entrywise correspondence", ref="5/C10"),
 "C16": dict(
    text="proof + translator: the argument table, the keyword mapping of the analysis() call, the handling of a bare --preserve-expressions, the order of the error exits and the rule naming the result file are regenerated from ode_analyzer.py on every run; Props/C16.v proves that any sequence of flag groups after the input file parses to exactly the documented settings (c16_kwargs, any order/repetition), that exit status 0 and a written result happen iff the file exists, is valid JSON and analysis returns (c16_output), and that the result file is '<basename>_result.json' for every directory, stem (dots allowed) and extension (c16_name_*). Tie and probe: real subprocess runs over the product of the flags, an input pool (valid, missing, invalid JSON, empty, malformed, exiting) and tricky paths; parsed flags and file name vs the model (in Coq); result file compared with in-process analysis(**kwargs); non-zero exit and no file otherwise.",
    note="Trusted: Coq kernel/vm_compute; translator (fail-closed); harness; argparse/json/OS modelled not verified (token-wise parser for the documented usage FILE [flags]). Mostly an exhaustive differential test of glue, with the name/flag logic proved.",
    technique="Coq proof over translated CLI tables + subprocess differential test", ref="5/C16"),
 "C15": dict(
    text="proof: Coq theorems (Props/C15.v) over a model of the three generators and the dispatch, generic in a totally ordered number type with monotone addition: a regular train is exactly the multiples k*isi <= T (none missing, nothing else); a Poisson train, for every sequence of draws, has gaps >= min_isi, is strictly increasing and lies in (0,T]; a list stimulus is the sorted permutation of the listed times <= T for any length; each renamed target gets the in-order concatenation of the trains of all stimuli targeting it. Tie: the same Gallina functions instantiated with PrimFloat are compared bit-exactly (in Coq) with spike_times_from_json on generated stimuli sets; property text probed directly.",
    note="Trusted: Coq kernel/vm_compute, PrimFloat only in the executable instance; correspondence harness (draw replay, hex-float printing); np.loadtxt/np.sort/set order/random/math.log modelled not verified; theorems over exact ordered arithmetic.",
    technique="Coq proof generic in the number type + bit-exact PrimFloat correspondence", ref="5/C15"),
 "C13": dict(
    text="proof (partial): Coq theorems (Props/C13.v) over a model of integrate_ode with the numeric stepper as an oracle whose answers are data: for every event list, answer sequence and bound setting, a run that completes has a strictly increasing time log from 0; in precise mode it ends exactly at the requested duration and every spike before the end is applied exactly once, in order, at a log time equal to its own time (later ones never); in aliased mode it ends at a grid time not before the duration and every spike up to it is applied exactly once at the first grid boundary not before it; a variable beyond its upper/lower bound after a step equals its initial value; the analytic values the numeric part sees are the exact solution (via C12) for any pattern of cache toggles. Tie: real MixedIntegrator objects driven through a scripted stand-in for pygsl (exact arithmetic), t_log/y_log/upper_bound_crossed equal to the model fed the recorded stepper answers (in Coq); probes of time, bounds and spike bookkeeping.",
    note="Partial: GSL is absent; 'follows the equations within the requested accuracy' is not proved and only exercised through the stand-in. Trusted: Coq kernel/vm_compute; harness; cython autowrap evaluation; stepper answers are checked for progress by the model.",
    technique="Coq proof (loop invariants over an oracle stepper) + exact trajectory-log correspondence", ref="5/C13"),
 "C14": dict(
    text="proof + translator: _draw_decision is re-translated from /repo into Gallina on every run and proved (Props/C14.v) to be the documented table for every ordered carrier, all ratio settings and all non-tie inputs; the generator sets seeded before / drawn from during spike generation are re-extracted and proved to make each candidate's spike train a function of the seed alone; name suffix lemma. Grid of all 27 below/at/above patterns decided in Coq over Qc; benchmark fairness, reproducibility and the name suffix probed through a pygsl stand-in.",
    note="Trusted: Coq kernel/vm_compute; translator (fail-closed ast walker); hypothesis that spike generation reads only the generators found by the translator; GSL replaced by a scripted stand-in (nothing claimed about GSL).",
    technique="Coq proof over code regenerated by a translator + exhaustive grid correspondence", ref="5/C14"),
 "C11": dict(
    text="proof (partial): Coq theorems (Props/C11.v): an expression is undefined at a parameter point exactly when one of the collected denominators (bases of negative powers, pre-order) vanishes there; de-duplication loses and repeats nothing; the report is exactly 'solutions of the collected denominators that leave the system matrix defined', each once; under the stated law of the solve oracle every reported condition is genuine (c11_sound) and every point where a propagator entry is undefined satisfies a condition that is reported unless it makes A undefined (c11_complete); symbolic exponents make detection fail exactly where the code raises. Tie: find_singularities(P, A) on triangular chains/trees vs the model with the oracle answers as tables (in Coq, order included); probe: each reported condition substituted into P (some entry zoo/nan) and A (finite), and completeness against the closed-form singular set {a_k = a_l on a common dependency path}.",
    note="Partial: sympy.solve and the substitution-definedness test are oracles (law stated as hypotheses, validated per instance). Trusted: Coq kernel/vm_compute; harness incl. the structural SymPy-tree translator.",
    technique="Coq proof (structural induction on expression trees) + oracle-table correspondence", ref="5/C11"),
 "C12": dict(
    text="proof: Coq theorems (Props/C12.v) over an executable model of set_spike_times/get_value/reset: for every flow with phi 0 = id, every spike map, both caching modes and every finite operation history the query returns the exact spike-driven solution; merge keeps every listed spike with multiplicity and is strictly time-sorted. Tie: hand-written model + correspondence decided in Coq on real AnalyticIntegrator runs (exact-in-binary systems) + independent Fraction probe.",
    note="Trusted: Coq kernel/vm_compute; correspondence harness; SymPy/cython evaluate the propagator update (phi is a Section variable with phi 0 = id); theorems over exact arithmetic, floats exercised only on exact-in-binary systems.",
    technique="Coq proof (invariant over op histories) + model/implementation correspondence in vm_compute", ref="5/C12"),
}
PENDING_REASON = "check not built yet in this round (claimed in DESIGN.md; will be moved to checks when its machinery is committed)"

def main():
    props = [json.loads(l)["id"] for l in open(os.path.join(HERE, "properties.jsonl"))]
    checks = []
    for pid in props:
        if pid in CLAIMED:
            c = CLAIMED[pid]
            checks.append({
                "property_id": pid,
                "quick_cmd": "./check %s quick" % pid,
                "thorough_cmd": "./check %s thorough" % pid,
                "evidence_file": "/verif/evidence/%s.json" % pid,
                "replay_cmd_template": "./check %s --replay {path}" % pid,
                "engine": "coq-model+correspondence",
                "level_claimed": {"category": "proof", "text": c["text"], "design_ref": "DESIGN.md " + c["ref"]},
                "level_note": c["note"],
                "technique": c["technique"]})
    na = [{"property_id": p, "reason": PENDING_REASON} for p in props if p not in CLAIMED]
    man = {
        "version": 1,
        "setup_cmd": "./setup.sh",
        "hooks": {"guard": "ODETOOLBOX_VERIF", "enable": "checks run the implementation with ODETOOLBOX_VERIF=1 in the environment (PYTHONPATH=/repo)",
                  "baseline_off_cmd": BASELINE, "source_commits": HOOK_COMMITS, "add_only": True},
        "engines": [
            {"name": "coq-model", "path": "coq/", "serves_properties": sorted(CLAIMED), "kind_free_text": "Coq 8.16 development: executable Gallina model + property theorems (Props/Cxx.v), full .vo build on every run"},
            {"name": "correspondence", "path": "harness/", "serves_properties": sorted(CLAIMED), "kind_free_text": "runs model (vm_compute inside Coq) and implementation on the same generated inputs/histories; translator regenerates Gen/*.v from /repo on every run"},
            {"name": "probes", "path": "harness/", "serves_properties": sorted(CLAIMED), "kind_free_text": "direct, model-independent checks of the property on the implementation; supply the failing input for replays"}],
        "checks": checks,
        "not_applicable": na,
        "notes": "Technique: machine-checked proof in Coq; see DESIGN.md. VERIF_SEED seeds every generator."}
    if not na:
        del man["not_applicable"]
    json.dump(man, open(os.path.join(HERE, "MANIFEST.json"), "w"), indent=1)

HOOK_COMMITS = ["36a1ba6"]
if __name__ == "__main__":
    main()
