#!/usr/bin/env python3
"""Writes /verif/MANIFEST.json from the table below (kept in one place so that the manifest is
always valid and `not_applicable` always lists every unclaimed property)."""
import json, os
HERE = os.path.dirname(os.path.dirname(os.path.abspath(__file__)))
BASELINE = "cd /repo && /venv/bin/python -m pytest -ra -q -p no:cacheprovider --timeout=900 --continue-on-collection-errors"

CLAIMED = {
 "C12": dict(
    text="proof: Coq theorems (Props/C12.v) over an executable model of set_spike_times/get_value/reset: for every flow with phi 0 = id, every spike map, both caching modes and every finite operation history the query returns the exact spike-driven solution; merge keeps every listed spike with multiplicity and is strictly time-sorted. Tie: hand-written model + correspondence decided in Coq on real AnalyticIntegrator runs (exact-in-binary systems) + independent Fraction probe.",
    note="Trusted: Coq kernel/vm_compute; correspondence harness; SymPy/cython evaluate the propagator update (phi is a Section variable with phi 0 = id); theorems over exact arithmetic, floats exercised only on exact-in-binary systems.",
    technique="Coq proof (invariant over op histories) + model/implementation correspondence in vm_compute", ref="5/C12"),
}
PENDING_REASON = "check not built yet in this round (claimed in DESIGN.md; will be moved to checks when its machinery is committed)"

def main():
    props = [json.loads(l)["id"] for l in open(os.path.join(HERE, "properties.jsonl"))]
    checks = []
    for pid in props:
        if pid in CLAIMED:
            c = CLAIMED[pid]
            checks.append({
                "property_id": pid,
                "quick_cmd": "./check %s quick" % pid,
                "thorough_cmd": "./check %s thorough" % pid,
                "evidence_file": "/verif/evidence/%s.json" % pid,
                "replay_cmd_template": "./check %s --replay {path}" % pid,
                "engine": "coq-model+correspondence",
                "level_claimed": {"category": "proof", "text": c["text"], "design_ref": "DESIGN.md " + c["ref"]},
                "level_note": c["note"],
                "technique": c["technique"]})
    na = [{"property_id": p, "reason": PENDING_REASON} for p in props if p not in CLAIMED]
    man = {
        "version": 1,
        "setup_cmd": "./setup.sh",
        "hooks": {"guard": "ODETOOLBOX_VERIF", "enable": "checks run the implementation with ODETOOLBOX_VERIF=1 in the environment (PYTHONPATH=/repo)",
                  "baseline_off_cmd": BASELINE, "source_commits": HOOK_COMMITS, "add_only": True},
        "engines": [
            {"name": "coq-model", "path": "coq/", "serves_properties": sorted(CLAIMED), "kind_free_text": "Coq 8.16 development: executable Gallina model + property theorems (Props/Cxx.v), full .vo build on every run"},
            {"name": "correspondence", "path": "harness/", "serves_properties": sorted(CLAIMED), "kind_free_text": "runs model (vm_compute inside Coq) and implementation on the same generated inputs/histories; translator regenerates Gen/*.v from /repo on every run"},
            {"name": "probes", "path": "harness/", "serves_properties": sorted(CLAIMED), "kind_free_text": "direct, model-independent checks of the property on the implementation; supply the failing input for replays"}],
        "checks": checks,
        "not_applicable": na,
        "notes": "Technique: machine-checked proof in Coq; see DESIGN.md. VERIF_SEED seeds every generator."}
    if not na:
        del man["not_applicable"]
    json.dump(man, open(os.path.join(HERE, "MANIFEST.json"), "w"), indent=1)

HOOK_COMMITS = []
if __name__ == "__main__":
    main()
