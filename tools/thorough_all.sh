#!/bin/bash
# tools/thorough_all.sh [ids...] : run the thorough tier of every (or the given) property check in turn; summary lines on stdout
cd "$(dirname "$(readlink -f "$0")")/.."
IDS=${@:-C01 C02 C03 C04 C05 C06 C07 C08 C09 C10 C11 C12 C13 C14 C15 C16}
for id in $IDS; do
  s=$(date +%s)
  timeout 14400 ./check $id thorough > /tmp/thorough_$id.log 2>&1; rc=$?
  echo "$id rc=$rc $(( $(date +%s) - s ))s :: $(grep "^$id thorough" /tmp/thorough_$id.log | tail -1 | cut -c1-200) $(grep -c '^VIOLATION' /tmp/thorough_$id.log) violation line(s)"
done
echo THOROUGHDONE
