#!/usr/bin/env python3
"""tools/keep_seed.py <ID> '<what it needs to manifest>' '<which checks caught it / what was strengthened>' [suffix]
Re-verifies a seeded change delivered in /tmp/seed_<ID>/_seed (test suite passes with it; demo fails with it
and passes without) and stores it under /verif/seeded/<ID><suffix>/."""
import json, os, shutil, subprocess, sys
ID, needs, caught = sys.argv[1], sys.argv[2], sys.argv[3]
suffix = sys.argv[4] if len(sys.argv) > 4 else ""
wt = os.environ.get("SEED_PREFIX", "/tmp/seed_") + ID
sd = os.path.join(wt, "_seed")
dst = "/verif/seeded/%s%s" % (ID, suffix)
def sh(cmd, cwd=None, timeout=3000):
    p = subprocess.run(cmd, shell=True, cwd=cwd, stdout=subprocess.PIPE, stderr=subprocess.STDOUT, text=True, timeout=timeout)
    return p.returncode, p.stdout
sh("git checkout -- .", cwd=wt)
rc0, out0 = sh("PYTHONPATH=%s timeout 900 /venv/bin/python demo.py" % wt, cwd=sd)
rca, _ = sh("git apply _seed/patch.diff", cwd=wt)
rc1, out1 = sh("PYTHONPATH=%s timeout 900 /venv/bin/python demo.py" % wt, cwd=sd)
rct, outt = sh("env -u ODETOOLBOX_VERIF PYTHONPATH=%s /venv/bin/python -m pytest -q -p no:cacheprovider --timeout=900 -n 8 2>&1 | tail -3" % wt, cwd=wt)
sh("git checkout -- .", cwd=wt)
summary = [l for l in outt.strip().split("\n") if "passed" in l or "failed" in l]
os.makedirs(dst, exist_ok=True)
for fn in os.listdir(sd):
    src = os.path.join(sd, fn)
    if os.path.isdir(src):
        if fn == "__pycache__":
            continue
        shutil.copytree(src, os.path.join(dst, fn), dirs_exist_ok=True, ignore=shutil.ignore_patterns("__pycache__", "*.pyc", "*.so", "*.c", "build"))
    else:
        shutil.copy(src, os.path.join(dst, fn))
meta = {"property": ID, "breaks": open("/tmp/prompt_%s.txt" % ID).read().split("\n")[0],
        "needs_to_manifest": needs,
        "what_i_ran": {"demo_on_unchanged_tree_exit": rc0, "patch_applies": rca == 0, "demo_on_changed_tree_exit": rc1,
                       "demo_tail_changed": out1.strip().split("\n")[-3:],
                       "test_suite_with_change": summary[-1] if summary else outt[-200:],
                       "commands": ["cd <scratch worktree>/_seed && PYTHONPATH=<worktree> /venv/bin/python demo.py  (before / after `git apply _seed/patch.diff`)",
                                    "cd <worktree> && PYTHONPATH=<worktree> /venv/bin/python -m pytest -q -p no:cacheprovider --timeout=900 -n 8",
                                    "git -C /repo apply seeded/%s%s/patch.diff && ./check <ID> quick ; git -C /repo checkout -- ." % (ID, suffix)]},
        "our_checks": caught,
        "confirmed": rc0 == 0 and rc1 != 0 and rca == 0 and bool(summary) and (" failed" not in summary[-1] and " error" not in summary[-1])}
json.dump(meta, open(os.path.join(dst, "meta.json"), "w"), indent=1)
print(json.dumps(meta["what_i_ran"], indent=1)[:900]); print("confirmed:", meta["confirmed"])
