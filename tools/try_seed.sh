#!/bin/bash
# [SEED_PREFIX=/tmp/seed2_] tools/try_seed.sh <ID> [check-id ...] : verify a seeded change delivered in /tmp/seed_<ID>/_seed and run our check(s) against it
ID=$1; shift
CHECKS=${@:-$ID}
WT=${SEED_PREFIX:-/tmp/seed_}$ID
SD=$WT/_seed
[ -f $SD/patch.diff ] || { echo "no patch"; exit 2; }
cd $WT
# state: patch applied by the agent? normalise: revert everything tracked, then apply
git -C $WT checkout -- . 2>/dev/null
echo "== demo on unchanged code"; (cd $SD && PYTHONPATH=$WT timeout 900 /venv/bin/python demo.py > /tmp/seed_${ID}_demo0.log 2>&1; echo "exit=$?")
git -C $WT apply $SD/patch.diff || { echo "patch does not apply"; exit 2; }
echo "== demo on changed code"; (cd $SD && PYTHONPATH=$WT timeout 900 /venv/bin/python demo.py > /tmp/seed_${ID}_demo1.log 2>&1; echo "exit=$?"; tail -3 /tmp/seed_${ID}_demo1.log)
git -C $WT checkout -- .
# our checks against the change in /repo
git -C /repo status --short | grep -v '^??' && { echo "/repo dirty"; exit 2; }
git -C /repo apply $SD/patch.diff || { echo "patch does not apply to /repo"; exit 2; }
for c in $CHECKS; do echo "== ./check $c quick"; (cd "$(dirname "$(readlink -f "$0")")/.." && timeout 3000 ./check $c quick 2>&1 | tail -4); done
git -C /repo checkout -- .
git -C /repo status --short | grep -v '^??'
echo "== done"
