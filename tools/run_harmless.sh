#!/bin/bash
# tools/run_harmless.sh : apply each behaviour-preserving patch under harmless/*/ to /repo, run all quick checks (each must exit 0), restore /repo
cd "$(dirname "$(readlink -f "$0")")/.."
git -C /repo status --short | grep -v '^??' && { echo "/repo dirty"; exit 2; }
bad=0
for d in harmless/*/; do
  echo "######## $d"
  git -C /repo apply "$PWD/$d/patch.diff" || { echo "does not apply"; bad=1; continue; }
  for id in C01 C02 C03 C04 C05 C06 C07 C08 C09 C10 C11 C12 C13 C14 C15 C16; do
    timeout 3000 ./check $id quick > /tmp/harmless_$id.log 2>&1; rc=$?
    echo "$id exit=$rc $(grep "^$id quick" /tmp/harmless_$id.log | tail -1 | cut -c1-150)"
    [ $rc -ne 0 ] && bad=1
  done
  git -C /repo checkout -- .
done
rm -rf replays/*
exit $bad
