#!/bin/bash
# run the repository's pinned test suite on a scratch worktree of /repo's HEAD (guard off); prints the summary line
set -e
SHA=$(git -C /repo rev-parse --short HEAD)
WT=/tmp/baseline_$SHA
rm -rf $WT; git -C /repo worktree prune; git -C /repo worktree add -q --detach $WT HEAD
cd $WT && env -u ODETOOLBOX_VERIF PYTHONPATH=$WT /venv/bin/python -m pytest -ra -q -p no:cacheprovider --timeout=900 --continue-on-collection-errors -x -n 8 2>/dev/null | tail -5 || \
  (cd $WT && env -u ODETOOLBOX_VERIF PYTHONPATH=$WT /venv/bin/python -m pytest -ra -q -p no:cacheprovider --timeout=900 --continue-on-collection-errors | tail -8)
cd / && git -C /repo worktree remove --force $WT
echo "baseline done for $SHA"
