#!/bin/bash
# tools/run_seeded.sh [dir ...] : for every stored seeded change (default: all of seeded/*/), apply it to /repo, run the
# quick check of its property, restore /repo, and record whether the check reported a violation.  Writes seeded/RESULTS.md.
cd "$(dirname "$(readlink -f "$0")")/.."
git -C /repo status --short | grep -v '^??' && { echo "/repo dirty"; exit 2; }
DIRS=${@:-$(ls -d seeded/*/ | sort)}
OUT=seeded/RESULTS.md
[ $# -eq 0 ] && { echo "# Seeded changes vs. quick checks (written by tools/run_seeded.sh on $(date -u +%F))"; echo; echo "| seed | check | exit | summary line | first VIOLATION line |"; echo "|---|---|---|---|---|"; } > $OUT
for d in $DIRS; do
  d=${d%/}; name=$(basename $d); id=${name%%_*}
  [ -f $d/patch.diff ] || continue
  git -C /repo apply "$PWD/$d/patch.diff" || { echo "| $name | $id | patch does not apply | | |" >> $OUT; continue; }
  log=$(mktemp)
  timeout 3000 ./check $id quick > $log 2>&1; rc=$?
  git -C /repo checkout -- .
  echo "| $name | $id | $rc | $(grep "^$id quick" $log | tail -1 | cut -c1-160) | $(grep -m1 '^VIOLATION' $log | sed 's|/verif/replays/||') |" | tee -a $OUT
  rm -f $log; rm -rf replays/*
done
git -C /repo status --short | grep -v '^??'
