#!/bin/bash
# tools/run_seeded.sh [dir ...] : for every stored seeded change (default: all of seeded/*/), apply it to /repo, run the
# quick check of its property, and (REPLAY=1) re-run the first reported replay file on the changed and on the restored tree;
# restore /repo.  Writes seeded/RESULTS.md (RESULTS_seed<k>.md when VERIF_SEED=k is set).
cd "$(dirname "$(readlink -f "$0")")/.."
git -C /repo status --short | grep -v '^??' && { echo "/repo dirty"; exit 2; }
DIRS=${@:-$(ls -d seeded/*/ | sort)}
OUT=seeded/RESULTS${VERIF_SEED:+_seed$VERIF_SEED}.md
[ $# -eq 0 ] && { echo "# Seeded changes vs. quick checks (written by tools/run_seeded.sh on $(date -u +%F)${VERIF_SEED:+, VERIF_SEED=$VERIF_SEED})"; echo; echo "| seed | check | exit | summary line | first VIOLATION line | replay on changed tree (exit) | replay on restored tree (exit) |"; echo "|---|---|---|---|---|---|---|"; } > $OUT
for d in $DIRS; do
  d=${d%/}; name=$(basename $d); id=${name%%_*}
  [ -f $d/patch.diff ] || continue
  git -C /repo apply "$PWD/$d/patch.diff" || { echo "| $name | $id | patch does not apply | | | | |" >> $OUT; continue; }
  log=$(mktemp)
  rm -rf replays/$id
  timeout 3000 ./check $id quick > $log 2>&1; rc=$?
  r1="-"; r0="-"
  first=$(grep -m1 '^VIOLATION' $log | sed -n 's/.*replay=\([^ ]*\).*/\1/p')
  if [ -n "$REPLAY" ] && [ -n "$first" ] && ! grep -m1 '^VIOLATION' $log | grep -q no-failing-input-found; then
    cp "$first" /tmp/replay_under_test.json
    timeout 1800 ./check $id --replay /tmp/replay_under_test.json > /dev/null 2>&1; r1=$?
  fi
  git -C /repo checkout -- .
  if [ "$r1" != "-" ]; then timeout 1800 ./check $id --replay /tmp/replay_under_test.json > /dev/null 2>&1; r0=$?; fi
  echo "| $name | $id | $rc | $(grep "^$id quick" $log | tail -1 | cut -c1-160) | $(grep -m1 '^VIOLATION' $log | sed 's|/verif/replays/||') | $r1 | $r0 |" | tee -a $OUT
  rm -f $log; rm -rf replays/*
done
git -C /repo status --short | grep -v '^??'
