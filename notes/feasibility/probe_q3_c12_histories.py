import random, sys, time
from fractions import Fraction as Fr
from odetoolbox.analytic_integrator import AnalyticIntegrator
sd = {"solver":"analytical","state_variables":["x","y","z"],
      "initial_values":{"x":"1","y":"2","z":"3"},
      "propagators":{"__P__x__x":"1","__P__x__y":"__h","__P__x__z":"__h**2","__P__y__y":"1","__P__y__z":"2*__h","__P__z__z":"1"},
      "update_expressions":{"x":"__P__x__x*x+__P__x__y*y+__P__x__z*z","y":"__P__y__y*y+__P__y__z*z","z":"__P__z__z*z"}}
init = {"x":Fr(1),"y":Fr(2),"z":Fr(3)}
def flow(h, s): return {"x": s["x"]+h*s["y"]+h*h*s["z"], "y": s["y"]+2*h*s["z"], "z": s["z"]}
def ref(spk, t):
    ev = {}
    for v, ts in spk.items():
        for s_ in ts:
            if 0 < s_ <= t: ev.setdefault(Fr(s_), []).append(v)
    s = dict(init); tc = Fr(0)
    for te in sorted(ev):
        s = flow(te-tc, s); tc = te
        for v in ev[te]: s[v] += init[v]
    return flow(Fr(t)-tc, s)
rnd = random.Random(5)
ais = {c: AnalyticIntegrator(sd, {}, enable_caching=c) for c in (True, False)}
nq=0; bad=0
for trial in range(300):
    spk = {v: [rnd.randint(-2, 70)/8 for _ in range(rnd.randint(0,5))] for v in rnd.sample(["x","y","z"], rnd.randint(0,3))}
    for c, ai in ais.items():
        ai.set_spike_times(spk); ai.reset(); ai.enable_cache_update()
        qs = []
        for _ in range(rnd.randint(1,12)):
            r = rnd.random()
            if r < 0.15 and qs: t = rnd.choice(qs)
            elif r < 0.3 and any(spk.values()): t = max(0, rnd.choice([s for l in spk.values() for s in l] ))
            else: t = rnd.randint(0, 64)/8
            if rnd.random()<0.1: (ai.disable_cache_update if rnd.random()<0.5 else ai.enable_cache_update)()
            qs.append(t)
            got = dict(ai.get_value(t)); exp = ref(spk, t); nq+=1
            if any(Fr(got[k]) != exp[k] for k in exp):
                bad+=1; print("MISMATCH caching", c, spk, qs, got, {k: float(v) for k,v in exp.items()})
print("queries", nq, "bad", bad)
