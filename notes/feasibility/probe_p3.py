from odetoolbox.spike_generator import SpikeGenerator
import traceback
for lst in ["5E-3 10E-3 20E-3 15E-3 50E-3", "5E-3", "", "0.2 0.05"]:
    try:
        print(repr(lst), SpikeGenerator.spike_times_from_json([{"type":"list","list":lst,"variables":["I'","I'","g"]}], 0.1))
    except BaseException as e:
        print(repr(lst), "EXC", type(e).__name__, e)
print(SpikeGenerator._generate_regular_spikes(0.3, 10.), SpikeGenerator._generate_regular_spikes(1.0, 10.))
