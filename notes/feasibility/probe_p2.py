import json, sys, time, traceback, logging
import odetoolbox, sympy
from odetoolbox.config import Config
def run(name, d, **kw):
    t=time.time()
    try:
        r = odetoolbox.analysis(d, disable_stiffness_check=True, **kw)
        print("==", name, "OK %.1fs"%(time.time()-t))
        for s in r:
            print("   ", s["solver"], s["state_variables"], "iv", s["initial_values"], "par", s.get("parameters"))
            for k,v in s["update_expressions"].items(): print("      upd", k, "=", v)
            for k,v in s.get("propagators",{}).items(): print("      P", k, "=", v)
        return r
    except BaseException as e:
        print("==", name, "EXC", type(e).__name__, str(e)[:200])

# time-dependent coefficient
run("t_coeff", {"dynamics":[{"expression":"x' = -t*x","initial_value":"1"}]})
run("t_offset", {"dynamics":[{"expression":"x' = -x + sin(t)","initial_value":"1"}]})
run("heav", {"dynamics":[{"expression":"x' = -x*Heaviside(t - t0)","initial_value":"1"}]})
# param only in iv
run("par_iv", {"dynamics":[{"expression":"x' = -x/tau","initial_value":"x0"}], "parameters":{"tau":"2.","x0":"3.","unused":"7"}})
# Jacobian
r = odetoolbox._analysis({"dynamics":[{"expression":"V' = -V/tau + V**2 + I","initial_value":"0"},{"expression":"I' = -I/ts + V","initial_value":"0"}]}, disable_stiffness_check=True)
print("J =", r[1].get_jacobian_matrix(), " x=", r[1].x_, "A=", r[1].A_, "c=", r[1].c_)
# config leak
print(Config.config["output_timestep_symbol"])
run("leak1", {"dynamics":[{"expression":"x' = -x/tau","initial_value":"1"}], "options":{"output_timestep_symbol":"dt", "differential_order_symbol":"_D"}})
run("leak2", {"dynamics":[{"expression":"x'' = -x/tau - x'","initial_values":{"x":"1","x'":"0"}}]})
print(Config.config)
