From Coq Require Import ZArith QArith Qcanon List PrimFloat Uint63.
Import ListNotations.
Open Scope Z_scope.
(* generic accumulate loop, instantiated with Qc and with primitive floats *)
Section Gen.
  Variable num : Type.
  Variable add : num -> num -> num.
  Variable ltb leb : num -> num -> bool.
  Fixpoint regular (fuel : nat) (isi T t : num) : list num :=
    match fuel with
    | O => []
    | S f => if ltb t T then let t' := add t isi in
                              if leb t' T then t' :: regular f isi T t' else regular f isi T t'
             else []
    end.
End Gen.
Definition qlt (a b : Qc) : bool := match (a ?= b)%Qc with Lt => true | _ => false end.
Definition qle (a b : Qc) : bool := match (a ?= b)%Qc with Gt => false | _ => true end.
Definition regQ := regular Qc Qcplus qlt qle.
Definition regF := regular float PrimFloat.add PrimFloat.ltb PrimFloat.leb.
Eval vm_compute in map (fun q => Qcanon.this q) (regQ 50 (Q2Qc (1#10)) (Q2Qc (3#10)) (Q2Qc 0)).
Eval vm_compute in regF 50 0x1.999999999999ap-4%float 0x1.3333333333333p-2%float 0%float.
Definition mism := filter (fun p => negb (PrimFloat.eqb (fst p) (snd p)))
   (combine (regF 50 0x1.999999999999ap-4%float 0x1.3333333333333p-2%float 0%float) [0x1.999999999999ap-4%float; 0x1.999999999999ap-3%float]).
Eval vm_compute in length mism.
