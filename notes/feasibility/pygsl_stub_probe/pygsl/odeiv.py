import numpy as np
LOG = []
SCRIPT = {"fracs": [1.0]}
class _Stepper:
    def __init__(self, dim, func, jac=None, args=None):
        self.dim, self.func, self.jac, self.args = dim, func, jac, args
    def name(self): return type(self).__name__
class step_rk4(_Stepper): pass
class step_bsimp(_Stepper): pass
class control_y_new:
    def __init__(self, stepper, eps_abs, eps_rel): self.eps_abs, self.eps_rel = eps_abs, eps_rel
class evolve:
    def __init__(self, stepper, control, dim):
        self.stepper, self.control, self.k = stepper, control, 0
    def apply(self, t, t1, h, y):
        frac = SCRIPT["fracs"][self.k % len(SCRIPT["fracs"])]; self.k += 1
        hh = min(h, t1 - t) * frac
        f = np.array(self.stepper.func(t, np.array(y, dtype=float), self.stepper.args), dtype=float)
        if self.stepper.jac is not None and isinstance(self.stepper, step_bsimp):
            J, dfdt = self.stepper.jac(t, np.array(y, dtype=float), self.stepper.args)
            LOG.append(("jac", t, J.tolist()))
        y1 = np.array(y, dtype=float) + hh * f
        LOG.append(("apply", t, t1, h, t + hh))
        return t + hh, hh, y1
