import random, sys, json, time
import sympy, odetoolbox
rnd = random.Random(int(sys.argv[1]) if len(sys.argv)>1 else 0)
VARS = ["x","y","z","w"]
def coef(): return rnd.choice([("1",None),("-2",None),("0.5",None),("-1/tau",None),("a/C",None),("1/(a+b)",None),("-(a+b)/C",None),("3.25e-1",None)])[0]
def spellings(lin, const):
    # lin: list of (coef, var), const: coef or None
    ts = ["%s*%s"%(c,v) for c,v in lin] + ([const] if const else [])
    out = []
    out.append(" + ".join("(%s)"%t for t in ts))
    out.append(" + ".join("%s*(%s)"%(v,c) for c,v in lin) + (" + (%s)"%const if const else ""))
    out.append("(" + " + ".join("(%s)*tau*C"%t for t in ts) + ")/(tau*C)")
    out.append("-(" + " + ".join("-(%s)"%t for t in ts) + ")")
    out.append("(" + " + ".join("(%s)"%t for t in ts) + " + q*x) - q*x")
    out.append(" + ".join("((%s)*%s)"%(c,v) for c,v in lin) + (" + %s"%const if const else "") + " + 0*x**2")
    if const: out.append(" + ".join("(%s)*(%s + (%s)/(%s)/%d)"%(c,v,const,c,len(lin)) for c,v in lin))   # x'=a(x+k)
    return out
nfail=0; ncase=0
for it in range(int(sys.argv[2]) if len(sys.argv)>2 else 20):
    n = rnd.randint(1,3); vs = VARS[:n]
    # lower-triangular dependencies to keep exp fast
    sysdef = []
    for i,v in enumerate(vs):
        deps = [v] + [u for u in vs[:i] if rnd.random()<0.6]
        lin = [(coef(), u) for u in deps]
        const = coef() if rnd.random()<0.3 else None
        sysdef.append((v, lin, const))
    sp = [spellings(lin,const) for (_,lin,const) in sysdef]
    results = []
    for k in range(6):
        dyn = [{"expression":"%s' = %s"%(v, sp[i][k % len(sp[i])]), "initial_value":"1"} for i,(v,_,_) in enumerate(sysdef)]
        try:
            r = odetoolbox.analysis({"dynamics":dyn}, disable_stiffness_check=True)
            an = sorted(sum([s["state_variables"] for s in r if s["solver"]=="analytical"], []))
        except BaseException as e:
            an = "EXC "+type(e).__name__+" "+str(e)[:60]
        results.append((an, [d["expression"] for d in dyn]))
    ncase+=1
    if len(set(str(a) for a,_ in results))>1:
        nfail+=1
        print("DIFF"); 
        for a,d in results: print("   ", a, d)
print("cases", ncase, "diff", nfail)
