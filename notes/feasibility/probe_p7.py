import time, sympy
from odetoolbox.analytic_integrator import AnalyticIntegrator
sd = {"solver":"analytical","state_variables":["x","y","z"],
      "initial_values":{"x":"1","y":"2","z":"3"},
      "propagators":{"__P__x__x":"1","__P__x__y":"__h","__P__x__z":"__h**2","__P__y__y":"1","__P__y__z":"2*__h","__P__z__z":"1"},
      "update_expressions":{"x":"__P__x__x*x+__P__x__y*y+__P__x__z*z","y":"__P__y__y*y+__P__y__z*z","z":"__P__z__z*z"}}
t0=time.time()
ai = AnalyticIntegrator(sd, {"y":[0.5, 1.0, 1.0], "z":[1.0, 0.25]})
print("construct %.1fs"%(time.time()-t0))
t0=time.time()
for t in [0.125, 2.0, 1.0, 1.0, 0.0, 3.5]:
    print(t, ai.get_value(t))
print("queries %.3fs"%(time.time()-t0))
t0=time.time()
ai2 = AnalyticIntegrator(sd, {"y":[0.5]}, enable_caching=False)
print("construct again %.1fs"%(time.time()-t0))
