import odetoolbox, sympy, time
from odetoolbox.shapes import Shape
for f in ["exp(-t/tau)", "(e/tau)*t*exp(-t/tau)", "exp(-t/a) - exp(-t/b)", "t**2*exp(-t/tau)", "sin(w*t)", "cos(2*t)*exp(-t)", "t", "t**3", "1", "t*sin(t)", "exp(-t)*t**3", "exp(-t**2)", "1/(1+t)", "sin(t)*sin(2*t)", "t**4", "exp(-t/tau)*sin(w*t)", "0"]:
    t0=time.time()
    try:
        s = Shape.from_function("f", f)
        print(f, "-> order", s.order, "factors", list(s.derivative_factors), "iv", s.initial_values, "%.1fs"%(time.time()-t0))
    except BaseException as e:
        print(f, "-> EXC", type(e).__name__, str(e)[:100], "%.1fs"%(time.time()-t0))
