From Coq Require Import List Arith Lia Ring Bool.
Import ListNotations.

Section DR.
  Variable T : Type.
  Variables (zero one : T) (add mul sub : T -> T -> T) (opp : T -> T).
  Hypothesis Rth : ring_theory zero one add mul sub opp (@eq T).
  Add Ring TR : Rth.
  Notation "0" := zero. Notation "1" := one.
  Infix "+" := add. Infix "*" := mul. Notation "- x" := (opp x).

  Variable D : T -> T.
  Hypothesis D_add : forall a b, D (a + b) = D a + D b.
  Hypothesis D_mul : forall a b, D (a * b) = D a * b + a * D b.
  Hypothesis D_0 : D 0 = 0.

  Fixpoint sum (l : list nat) (f : nat -> T) : T :=
    match l with [] => 0 | i :: l' => f i + sum l' f end.

  Lemma sum_ext l f g : (forall i, In i l -> f i = g i) -> sum l f = sum l g.
  Proof. induction l as [|a l IH]; simpl; intros H; [reflexivity|].
         rewrite (H a) by (left; reflexivity). rewrite IH; [reflexivity|]. intros; apply H; right; assumption. Qed.

  Lemma sum_zero l f : (forall i, In i l -> f i = 0) -> sum l f = 0.
  Proof. induction l as [|a l IH]; simpl; intros H; [reflexivity|].
         rewrite (H a) by (left; reflexivity). rewrite IH; [ring|]. intros; apply H; right; assumption. Qed.

  Lemma sum_filter (p : nat -> bool) l f :
    (forall i, In i l -> p i = false -> f i = 0) -> sum l f = sum (filter p l) f.
  Proof. induction l as [|a l IH]; simpl; intros H; [reflexivity|].
         destruct (p a) eqn:E; simpl.
         - rewrite IH; [reflexivity|]. intros; apply H; [right|]; assumption.
         - rewrite (H a (or_introl eq_refl) E). rewrite IH; [ring|]. intros; apply H; [right|]; assumption. Qed.

  Lemma D_sum l f : D (sum l f) = sum l (fun i => D (f i)).
  Proof. induction l as [|a l IH]; simpl; [apply D_0|]. rewrite D_add, IH. reflexivity. Qed.

  (* block assembly *)
  Variable n : nat.
  Variable A Pk : nat -> nat -> T.
  Variable lab : nat -> nat.
  Definition P i j := if lab i =? lab j then Pk i j else 0.
  Definition blk i := filter (fun k => lab k =? lab i) (seq 0 n).
  Hypothesis cover : forall i j, lab i <> lab j -> A i j = 0.
  Hypothesis Hexp : forall i j, i < n -> j < n -> lab i = lab j ->
     D (Pk i j) = sum (blk i) (fun k => A i k * Pk k j).

  Lemma P_ode i j : i < n -> j < n -> D (P i j) = sum (seq 0 n) (fun k => A i k * P k j).
  Proof.
    intros Hi Hj. unfold P at 1. destruct (lab i =? lab j) eqn:E.
    - apply Nat.eqb_eq in E. rewrite (Hexp i j Hi Hj E).
      rewrite (sum_filter (fun k => lab k =? lab i) (seq 0 n) (fun k => A i k * P k j)).
      + apply sum_ext. intros k Hk. apply filter_In in Hk. destruct Hk as [_ Hk].
        apply Nat.eqb_eq in Hk. unfold P. replace (lab k =? lab j) with true; [reflexivity|].
        symmetry. apply Nat.eqb_eq. congruence.
      + intros k _ Hk. apply Nat.eqb_neq in Hk. rewrite (cover i k) by congruence. ring.
    - apply Nat.eqb_neq in E. rewrite D_0. symmetry. apply sum_zero. intros k _.
      destruct (Nat.eq_dec (lab i) (lab k)) as [e|ne].
      + unfold P. replace (lab k =? lab j) with false; [ring|]. symmetry. apply Nat.eqb_neq. congruence.
      + rewrite (cover i k ne). ring.
  Qed.
End DR.
Check P_ode.
Print Assumptions P_ode.
