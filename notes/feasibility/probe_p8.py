import sys, time
import os; sys.path.insert(0, os.path.join(os.path.dirname(os.path.abspath(__file__)), "pygsl_stub_probe"))
import pygsl.odeiv as odeiv
import odetoolbox, sympy, numpy as np
print("PYGSL_AVAILABLE", odetoolbox.PYGSL_AVAILABLE)
from odetoolbox.mixed_integrator import MixedIntegrator
indict = {"dynamics":[{"expression":"x' = 1 + 0*x**2","initial_value":"0","upper_bound":"2", "lower_bound":"-1"},
                      {"expression":"y' = 0*y**2","initial_value":"4"}]}
t0=time.time()
r, sys_, shapes = odetoolbox._analysis(indict, disable_stiffness_check=True, disable_analytic_solver=True)
print(r)
t0=time.time()
mi = MixedIntegrator(odeiv.step_rk4, sys_, shapes, analytic_solver_dict=None, parameters={}, spike_times={"y":[0.5, 1.25, 1.25], "x":[0.75]},
                     max_step_size=0.5, sim_time=3.0, alias_spikes=False)
print("construct %.1fs"%(time.time()-t0))
for alias in [False, True]:
    mi.alias_spikes = alias
    odeiv.SCRIPT["fracs"] = [1.0, 0.5]
    out = mi.integrate_ode(debug=True, h_min_lower_bound=1e-12)
    h_min, h_avg, rt, ubc, t_log, h_log, y_log, syms = out
    print("alias", alias, "h_min", h_min, "h_avg", h_avg, "ubc", ubc)
    for t, y in zip(t_log, y_log): print("   ", t, y)
from odetoolbox.stiffness import StiffnessTester
t0=time.time()
st = StiffnessTester(sys_, shapes, parameters={}, stimuli=[{"type":"poisson_generator","rate":"5.","variables":["y"]}], random_seed=7, max_step_size=0.5, sim_time=3.0)
import odetoolbox.stiffness as S
orig = S.SpikeGenerator.spike_times_from_json
rec = []
def wrap(stimuli, sim_time):
    r = orig(stimuli, sim_time); rec.append(r); return r
S.SpikeGenerator.spike_times_from_json = staticmethod(wrap)
print("decision", st.check_stiffness(), "%.1fs"%(time.time()-t0))
print("trains", rec)
