import json, sys, time, traceback, logging
import odetoolbox
def run(name, d, **kw):
    t=time.time()
    try:
        r = odetoolbox.analysis(d, disable_stiffness_check=True, **kw)
        print("==", name, "OK %.1fs"%(time.time()-t))
        for s in r:
            print("   ", s["solver"], s["state_variables"])
            for k,v in s["update_expressions"].items(): print("      upd", k, "=", v)
            for k,v in s.get("propagators",{}).items(): print("      P", k, "=", v)
    except BaseException as e:
        print("==", name, "EXC", type(e).__name__, str(e)[:200])

# antisymmetric oscillator
run("osc", {"dynamics":[{"expression":"x' = y","initial_value":"1"},{"expression":"y' = -x","initial_value":"0"}]})
run("osc_w", {"dynamics":[{"expression":"x' = w*y","initial_value":"1"},{"expression":"y' = -w*x","initial_value":"0"}]})
run("osc2", {"dynamics":[{"expression":"x'' = -x","initial_values":{"x":"1","x'":"0"}}]})
run("osc3", {"dynamics":[{"expression":"x' = 2*y","initial_value":"1"},{"expression":"y' = -x","initial_value":"0"}]})
# non adjacent coupling
run("nonadj", {"dynamics":[{"expression":"x' = -x + z","initial_value":"1"},{"expression":"y' = -y","initial_value":"1"},{"expression":"z' = -z","initial_value":"1"}]})
run("adj", {"dynamics":[{"expression":"x' = -x + z","initial_value":"1"},{"expression":"z' = -z","initial_value":"1"},{"expression":"y' = -y","initial_value":"1"}]})
# cyclic
run("cyc3", {"dynamics":[{"expression":"x' = -x + y","initial_value":"1"},{"expression":"y' = -y + z","initial_value":"1"},{"expression":"z' = -z + x","initial_value":"1"}]})
# antisym partial: x'=-x+y, y'=-y-x  (A+A.T diag only)
run("antisym_damped", {"dynamics":[{"expression":"x' = -x + y","initial_value":"1"},{"expression":"y' = -y - x","initial_value":"0"}]})
run("antisym_mixed", {"dynamics":[{"expression":"x' = -x + a*y","initial_value":"1"},{"expression":"y' = -y - a*x","initial_value":"0"}]})
