import odetoolbox, sympy
def run(name, d, **kw):
    try:
        r = odetoolbox.analysis(d, disable_stiffness_check=True, **kw)
        print("==", name, "OK", [(s["solver"], s["state_variables"], s["update_expressions"], s.get("parameters")) for s in r])
    except BaseException as e:
        print("==", name, "EXC", type(e).__name__, str(e)[:150])
for nm in ["tau", "beta", "gamma", "lambda", "N", "S", "I", "Q", "pi", "zeta", "Symbol", "x1", "_a", "P", "__P__x__x"]:
    run("param "+nm, {"dynamics":[{"expression":"x' = -x/%s + x**2"%nm,"initial_value":"1","upper_bound":nm}], "parameters":{nm:"2."}})
for nm in ["beta", "gamma", "N", "S", "I", "pi", "y_", "x1x"]:
    run("var "+nm, {"dynamics":[{"expression":"%s' = -%s/tau"%(nm,nm),"initial_value":"1"}]})
