import sympy, time
from odetoolbox.singularity_detection import SingularityDetection as SD
h = sympy.Symbol("__h")
def go(name, A):
    t0=time.time()
    P = sympy.simplify(sympy.exp(A*h))
    try:
        c = SD.find_singularities(P, A)
    except Exception as e:
        c = "EXC "+type(e).__name__
    print(name, "conds:", c, "%.1fs"%(time.time()-t0))
    return P
a,b,c_,d,C,tm,ts,tr = sympy.symbols("a b c d C tau_m tau_s tau_r")
go("chain2 distinct", sympy.Matrix([[-a,0],[1,-b]]))
go("chain3", sympy.Matrix([[-a,0,0],[1,-b,0],[0,1,-c_]]))
go("chain2 inv", sympy.Matrix([[-1/ts,0],[1/C,-1/tm]]))
go("alpha+mem", sympy.Matrix([[-1/ts,0,0],[1,-1/ts,0],[0,1/C,-1/tm]]))
go("tree", sympy.Matrix([[-a,0,0],[0,-b,0],[1,1,-c_]]))
go("repeated", sympy.Matrix([[-a,0],[1,-a]]))
go("numeric", sympy.Matrix([[-1,0],[1,-2]]))
go("disconnected", sympy.Matrix([[-a,0],[0,-b]]))
P = go("param both", sympy.Matrix([[-1/a,0],[1/(a-b),-1/b]]))
print(P)
