import random, itertools, sys, time, json
import sympy, mpmath
import odetoolbox
from odetoolbox.shapes import Shape
mpmath.mp.dps = 50
rnd = random.Random(int(sys.argv[1]) if len(sys.argv)>1 else 0)
G = Shape._sympy_globals
def P(s, marker="__d"): return sympy.parsing.sympy_parser.parse_expr(s.replace("'", marker), global_dict=G)

VARS = ["x","y","z","V_m","g"]
PARS = ["tau","a","b","C_m","E_L"]
def term(vars_, kind):
    c = rnd.choice(["1","2","-1","-3","0.5","1/3","-1/tau","a","-a/C_m","1/(a+b)","2.5e-3","-b"])
    if kind=="const": return c
    if kind=="lin": return "%s*%s"%(c, rnd.choice(vars_))
    if kind=="nonlin":
        v, w = rnd.choice(vars_), rnd.choice(vars_)
        return rnd.choice(["%s*%s*%s"%(c,v,w), "%s*%s**2"%(c,v), "%s*exp(-%s)"%(c,v), "%s*tanh(%s)*%s"%(c,v,w), "%s*max(%s, E_L)"%(c,v), "%s*Heaviside(%s - E_L)*%s"%(c,v,w), "%s/(1+%s**2)"%(c,v)])
def spell(terms):
    mode = rnd.choice(["plain","factored","nested","shuffled"])
    ts = list(terms); rnd.shuffle(ts)
    if mode=="factored": return "(" + " + ".join("(%s)*b"%t for t in ts) + ")/b"
    if mode=="nested": return "((" + ") + ((".join(ts) + "))" + ")"*0 if False else " + ".join("((%s))"%t for t in ts)
    return " + ".join("(%s)"%t for t in ts)
def gen():
    n = rnd.randint(1,4); vs = VARS[:n]; dyn = []; rhs = {}
    for v in vs:
        order = rnd.choice([1,1,1,2])
        kinds = [rnd.choice(["lin","lin","const","nonlin"]) for _ in range(rnd.randint(1,4))]
        allv = vs + ([v+"'"] if order==2 else [])
        ts = [term(allv,k) for k in kinds]
        e = spell(ts)
        rhs[v] = (order, e)
        if order==1: dyn.append({"expression":"%s' = %s"%(v,e), "initial_value": rnd.choice(["0","1","a"])})
        else: dyn.append({"expression":"%s'' = %s"%(v,e), "initial_values": {v:"0", v+"'":"1"}})
    return {"dynamics":dyn}, rhs
def evalnum(expr, env):
    f = sympy.lambdify(list(env.keys()), expr, modules=["mpmath", {"Heaviside": lambda x: mpmath.mpf(1) if x>0 else mpmath.mpf(0), "Max": max, "Min": min}])
    return f(*env.values())
nfail=0; nrun=0; nexc=0
for it in range(int(sys.argv[2]) if len(sys.argv)>2 else 30):
    d, rhs = gen()
    for das, pres, simp in [(False,False,None),(True,False,None),(True,True,None),(False,True,None),(True,False,"sympy.logcombine(sympy.powsimp(sympy.expand(expr)))")]:
        try:
            r = odetoolbox.analysis(json.loads(json.dumps(d)), disable_stiffness_check=True, disable_analytic_solver=das, preserve_expressions=pres, simplify_expression=simp)
        except BaseException as e:
            nexc+=1; print("EXC", type(e).__name__, str(e)[:80], json.dumps(d)); continue
        finally:
            from odetoolbox.config import Config; Config.config["simplify_expression"]="sympy.simplify(expr)"
        for s in r:
            if not s["solver"].startswith("numeric"): continue
            for v, u in s["update_expressions"].items():
                nrun+=1
                base = v.replace("__d","")
                order, e = rhs[base]
                k = v.count("__d")
                if k < order-1: expected = sympy.Symbol(v+"__d")
                else: expected = P(e)
                got = P(u)
                syms = sorted((expected.free_symbols|got.free_symbols), key=str)
                env = {str(s_): mpmath.mpf(rnd.randint(1,9999))/mpmath.mpf(rnd.randint(1,9999)) + (2 if str(s_)=="V_m" else 0) for s_ in syms}
                try:
                    ev_e = evalnum(expected, {sympy.Symbol(k_):v_ for k_,v_ in env.items()}); ev_g = evalnum(got, {sympy.Symbol(k_):v_ for k_,v_ in env.items()})
                except Exception as ex:
                    print("EVALERR", ex, u); continue
                if abs(ev_e-ev_g) > mpmath.mpf(10)**-12 * (1+abs(ev_e)):
                    nfail+=1; print("MISMATCH", (das,pres,simp), v, "user:", e, "got:", u, float(ev_e), float(ev_g), json.dumps(d))
print("runs", nrun, "fail", nfail, "exc", nexc)
