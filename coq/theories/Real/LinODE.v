(* Real-analysis bridge (Coquelicot): uniqueness of solutions of linear systems on [0, oo), hence
   'identity at h = 0 and h-derivative = right-hand side at the updated state' characterises the
   exact flow, gives the semigroup law, and reproduces every trajectory of the user's equations. *)
From Coq Require Import Reals Lra Lia.
From Coquelicot Require Import Coquelicot.
Open Scope R_scope.

Fixpoint rsum (n : nat) (f : nat -> R) : R :=
  match n with O => 0 | S k => rsum k f + f k end.

Lemma rsum_le n f g : (forall i, (i < n)%nat -> f i <= g i) -> rsum n f <= rsum n g.
Proof. induction n as [|n IH]; simpl; intros H; [lra|].
  assert (rsum n f <= rsum n g) by (apply IH; intros; apply H; lia).
  assert (f n <= g n) by (apply H; lia). lra. Qed.
Lemma rsum_ext n f g : (forall i, (i < n)%nat -> f i = g i) -> rsum n f = rsum n g.
Proof. induction n as [|n IH]; simpl; intros H; [reflexivity|].
  rewrite IH by (intros; apply H; lia). rewrite (H n) by lia. reflexivity. Qed.
Lemma rsum_plus n f g : rsum n (fun i => f i + g i) = rsum n f + rsum n g.
Proof. induction n as [|n IH]; simpl; [lra|]. rewrite IH; lra. Qed.
Lemma rsum_scal n c f : rsum n (fun i => c * f i) = c * rsum n f.
Proof. induction n as [|n IH]; simpl; [lra|]. rewrite IH; lra. Qed.
Lemma rsum_const n c : rsum n (fun _ => c) = INR n * c.
Proof. induction n as [|n IH]; [simpl; lra|]. rewrite S_INR. simpl. rewrite IH. lra. Qed.
Lemma rsum_nonneg n f : (forall i, (i < n)%nat -> 0 <= f i) -> 0 <= rsum n f.
Proof. intros H. replace 0 with (rsum n (fun _ => 0)) by (rewrite rsum_const; lra). apply rsum_le, H. Qed.
Lemma rsum_zero_terms n f : (forall i, (i < n)%nat -> 0 <= f i) -> rsum n f = 0 -> forall i, (i < n)%nat -> f i = 0.
Proof. induction n as [|n IH]; simpl; intros Hp Hz i Hi; [lia|].
  assert (0 <= rsum n f) by (apply rsum_nonneg; intros; apply Hp; lia).
  assert (0 <= f n) by (apply Hp; lia).
  destruct (Nat.eq_dec i n) as [->|ne]; [lra|]. apply IH; [intros; apply Hp; lia|lra|lia]. Qed.
Lemma rsum_term_le n f i : (forall j, (j < n)%nat -> 0 <= f j) -> (i < n)%nat -> f i <= rsum n f.
Proof. induction n as [|n IH]; simpl; intros Hp Hi; [lia|].
  assert (0 <= rsum n f) by (apply rsum_nonneg; intros; apply Hp; lia).
  assert (0 <= f n) by (apply Hp; lia).
  destruct (Nat.eq_dec i n) as [->|ne]; [lra|].
  assert (f i <= rsum n f) by (apply IH; [intros; apply Hp; lia|lia]). lra. Qed.

Lemma is_derive_rsum (m : nat) (F dF : R -> nat -> R) (s : R) :
  (forall i, (i < m)%nat -> is_derive (fun s => F s i) s (dF s i)) ->
  is_derive (fun s => rsum m (F s)) s (rsum m (dF s)).
Proof. induction m as [|m IH]; simpl; intros H.
  - apply (@is_derive_const R_AbsRing R_NormedModule 0 s).
  - apply (is_derive_plus (fun s => rsum m (F s)) (fun s => F s m)).
    + apply IH. intros; apply H; lia.
    + apply H; lia. Qed.

Lemma nonincr_from_deriv (g dg : R -> R) :
  (forall s, is_derive g s (dg s)) -> (forall s, 0 <= s -> dg s <= 0) -> forall s, 0 <= s -> g s <= g 0.
Proof.
  intros Hd Hn s Hs. destruct (Req_dec s 0) as [->|Hne]; [lra|].
  destruct (MVT_gen g 0 s dg) as [c [Hc Heq]].
  - intros x _. apply Hd.
  - intros x _. apply derivable_continuous_pt. exists (dg x). apply is_derive_Reals, Hd.
  - assert (Hc0 : 0 <= c). { unfold Rmin in Hc. destruct (Rle_dec 0 s); lra. }
    specialize (Hn c Hc0). nra. Qed.

Section Uniq.
  Variable n : nat.
  Variable C : nat -> nat -> R.
  Variable w : R -> nat -> R.
  Hypothesis Hw : forall s i, (i < n)%nat -> is_derive (fun s => w s i) s (rsum n (fun j => C i j * w s j)).
  Hypothesis H0 : forall i, (i < n)%nat -> w 0 i = 0.

  Let K := rsum n (fun i => rsum n (fun j => Rabs (C i j))).
  Let L := 2 * INR n * K.
  Let N s := rsum n (fun i => w s i * w s i).
  Let dN s := rsum n (fun i => 2 * (w s i * rsum n (fun j => C i j * w s j))).

  Lemma K_bound i j : (i < n)%nat -> (j < n)%nat -> Rabs (C i j) <= K.
  Proof. intros Hi Hj. unfold K.
    apply Rle_trans with (rsum n (fun j => Rabs (C i j))).
    - apply (rsum_term_le n (fun j => Rabs (C i j))); [intros; apply Rabs_pos|assumption].
    - apply (rsum_term_le n (fun i => rsum n (fun j => Rabs (C i j)))); [|assumption].
      intros; apply rsum_nonneg; intros; apply Rabs_pos. Qed.
  Lemma K_nonneg : 0 <= K.
  Proof. unfold K. apply rsum_nonneg; intros; apply rsum_nonneg; intros; apply Rabs_pos. Qed.

  Lemma N_deriv s : is_derive N s (dN s).
  Proof. unfold N, dN. apply (is_derive_rsum n (fun s i => w s i * w s i) (fun s i => 2 * (w s i * rsum n (fun j => C i j * w s j))) s). intros i Hi.
    evar_last. apply (is_derive_mult (fun s => w s i) (fun s => w s i) s _ _ (Hw s i Hi) (Hw s i Hi)).
    intros; apply Rmult_comm. unfold plus, mult; simpl. ring. Qed.

  Lemma N_nonneg s : 0 <= N s.
  Proof. unfold N. apply rsum_nonneg. intros. nra. Qed.

  Lemma dN_bound s : dN s <= L * N s.
  Proof.
    unfold dN.
    (* each term: 2 w_i Σ_j C_ij w_j = Σ_j 2 C_ij w_i w_j <= Σ_j K (w_i² + w_j²) = n K w_i² + K N *)
    apply Rle_trans with (rsum n (fun i => INR n * K * (w s i * w s i) + K * N s)).
    - apply rsum_le. intros i Hi.
      rewrite <- rsum_scal. rewrite <- rsum_scal.
      apply Rle_trans with (rsum n (fun j => K * (w s i * w s i) + K * (w s j * w s j))).
      + apply rsum_le. intros j Hj.
        pose proof (K_bound i j Hi Hj) as Hb.
        assert (Ha : - Rabs (C i j) <= C i j <= Rabs (C i j)).
        { split; [pose proof (Rle_abs (- C i j)); rewrite Rabs_Ropp in *; lra | apply Rle_abs]. }
        pose proof (Rabs_pos (C i j)).
        set (a := w s i). set (b := w s j). set (c := C i j) in *.
        assert (Hsq1 : 0 <= (a - b) * (a - b)) by (apply Rle_0_sqr).
        assert (Hsq2 : 0 <= (a + b) * (a + b)) by (apply Rle_0_sqr).
        assert (Ha2 : 0 <= a * a) by (apply Rle_0_sqr).
        assert (Hb2 : 0 <= b * b) by (apply Rle_0_sqr).
        apply Rle_trans with (Rabs c * (a * a + b * b)).
        * destruct (Rle_dec 0 c) as [Hp|Hn].
          -- rewrite (Rabs_pos_eq _ Hp).
             assert (0 <= c * ((a - b) * (a - b))) by (apply Rmult_le_pos; assumption). lra.
          -- rewrite (Rabs_left c) by lra.
             assert (0 <= (- c) * ((a + b) * (a + b))) by (apply Rmult_le_pos; lra). lra.
        * assert (0 <= (K - Rabs c) * (a * a + b * b)) by (apply Rmult_le_pos; lra). lra.
      + rewrite rsum_plus, rsum_const, rsum_scal. fold (N s). lra.
    - rewrite rsum_plus, rsum_scal, rsum_const. fold (N s). unfold L. lra.
  Qed.

  Theorem lin_ode_zero s : 0 <= s -> forall i, (i < n)%nat -> w s i = 0.
  Proof.
    intros Hs.
    pose (g := fun s => exp (- L * s) * N s).
    pose (dg := fun s => exp (- L * s) * (dN s - L * N s)).
    assert (Hg : forall s, is_derive g s (dg s)).
    { intros x. unfold g, dg. evar_last.
      apply (is_derive_mult (fun s => exp (- L * s)) N x (- L * exp (- L * x)) (dN x)).
      - evar_last. apply is_derive_comp. apply is_derive_Reals, derivable_pt_lim_exp.
        evar_last. apply (is_derive_scal (fun s => s) x (- L)). apply is_derive_id.
        reflexivity. unfold scal, mult, one; simpl; unfold mult; simpl. ring.
      - apply N_deriv.
      - intros; apply Rmult_comm.
      - unfold plus, mult; simpl. ring. }
    assert (Hle : g s <= g 0).
    { apply (nonincr_from_deriv g dg Hg); [|exact Hs]. intros x _. unfold dg.
      pose proof (exp_pos (- L * x)). pose proof (dN_bound x).
      assert (Hq : dN x - L * N x <= 0) by lra.
      generalize dependent (dN x - L * N x). intros q Hq.
      generalize dependent (exp (- L * x)). intros E HE. nra. }
    assert (HN0 : N 0 = 0).
    { unfold N. rewrite (rsum_ext n (fun i => w 0 i * w 0 i) (fun _ => 0)).
      - rewrite rsum_const; lra.
      - intros i Hi. rewrite (H0 i Hi). ring. }
    unfold g in Hle. rewrite HN0 in Hle.
    pose proof (exp_pos (- L * s)). pose proof (N_nonneg s).
    assert (HNs : N s = 0) by nra.
    intros i Hi.
    assert (w s i * w s i = 0).
    { apply (rsum_zero_terms n (fun i => w s i * w s i)); [intros; nra|exact HNs|exact Hi]. }
    nra.
  Qed.
End Uniq.

(* ---- affine systems  u' = A u + b ---- *)
Section Affine.
  Variable n : nat.
  Variable A : nat -> nat -> R.
  Variable b : nat -> R.

  Definition solves (u : R -> nat -> R) : Prop :=
    forall s i, (i < n)%nat -> is_derive (fun s => u s i) s (rsum n (fun j => A i j * u s j) + b i).

  Theorem lin_ode_unique u v : solves u -> solves v -> (forall i, (i < n)%nat -> u 0 i = v 0 i) ->
    forall s, 0 <= s -> forall i, (i < n)%nat -> u s i = v s i.
  Proof.
    intros Hu Hv H0 s Hs i Hi.
    assert (forall s i, (i < n)%nat -> is_derive (fun s => u s i - v s i) s (rsum n (fun j => A i j * (u s j - v s j)))) as Hw.
    { intros x k Hk. evar_last. apply (is_derive_minus (fun s => u s k) (fun s => v s k) x _ _ (Hu x k Hk) (Hv x k Hk)).
      unfold minus, plus, opp; simpl.
      rewrite (rsum_ext n (fun j => A k j * (u x j - v x j)) (fun j => A k j * u x j + (-1) * (A k j * v x j))) by (intros; ring).
      rewrite rsum_plus, rsum_scal. ring. }
    pose proof (lin_ode_zero n A (fun s i => u s i - v s i) Hw) as Z.
    assert (u s i - v s i = 0) as E.
    { apply Z; [|exact Hs|exact Hi]. intros k Hk. rewrite (H0 k Hk). ring. }
    lra.
  Qed.

  (* shifting the argument of a solution gives a solution *)
  Lemma solves_shift u t0 : solves u -> solves (fun s => u (t0 + s)).
  Proof.
    intros Hu s i Hi. evar_last.
    apply (is_derive_comp (fun s => u s i) (fun s => t0 + s) s (rsum n (fun j => A i j * u (t0 + s) j) + b i) 1).
    - apply Hu. exact Hi.
    - auto_derive; [exact I|ring].
    - unfold scal; simpl. unfold mult; simpl. ring.
  Qed.

  (* A flow: for every old state x, step -> new state, the identity at step 0 and satisfying the
     differential equation in the step size (this is what c01_identity_at_zero / c01_derivative say of
     the update expressions, read over the reals). *)
  Variable Phi : (nat -> R) -> R -> nat -> R.
  Hypothesis Phi_0 : forall x i, (i < n)%nat -> Phi x 0 i = x i.
  Hypothesis Phi_ode : forall x, solves (Phi x).
  (* the update only reads the first n components of the old state *)
  Hypothesis Phi_ext : forall x y, (forall i, (i < n)%nat -> x i = y i) -> forall s i, (i < n)%nat -> Phi x s i = Phi y s i.

  (* every trajectory of the user's equations is reproduced exactly, for every step size h >= 0 *)
  Theorem flow_is_trajectory y t0 : solves y -> forall h, 0 <= h -> forall i, (i < n)%nat ->
    Phi (y t0) h i = y (t0 + h) i.
  Proof.
    intros Hy h Hh i Hi.
    apply (lin_ode_unique (Phi (y t0)) (fun s => y (t0 + s))); [apply Phi_ode|apply solves_shift; exact Hy| |exact Hh|exact Hi].
    intros k Hk. rewrite (Phi_0 _ k Hk). f_equal. ring.
  Qed.

  (* a step of h1 followed by a step of h2 equals one step of h1 + h2 *)
  Theorem flow_semigroup x h1 h2 : 0 <= h1 -> 0 <= h2 -> forall i, (i < n)%nat ->
    Phi (Phi x h1) h2 i = Phi x (h1 + h2) i.
  Proof.
    intros H1 H2 i Hi.
    apply (flow_is_trajectory (Phi x) h1 (Phi_ode x) h2 H2 i Hi).
  Qed.
End Affine.

(* ---- companion systems: a function that satisfies f^(n) = sum_k a_k f^(k) with constant a_k is
        reproduced exactly, together with its derivatives, by ANY flow of the companion system ---- *)
Section Companion.
  Variable n : nat.
  Variable a : nat -> R.                       (* constant coefficients *)
  Definition companion (i j : nat) : R :=
    if Nat.eqb (S i) n then a j else (if Nat.eqb j (S i) then 1 else 0).

  Variable F : R -> nat -> R.                  (* F t k = k-th derivative of f at t *)
  Hypothesis F_chain : forall t k, (S k < n)%nat -> is_derive (fun s => F s k) t (F t (S k)).
  Hypothesis F_top : forall t k, S k = n -> is_derive (fun s => F s k) t (rsum n (fun j => a j * F t j)).

  Lemma rsum_single m (g : nat -> R) k : (k < m)%nat -> (forall j, (j < m)%nat -> j <> k -> g j = 0) -> rsum m g = g k.
  Proof.
    induction m as [|m IH]; intros Hk Hz; [lia|]. cbn [rsum]. destruct (Nat.eq_dec k m) as [->|ne].
    - rewrite (rsum_ext m g (fun _ => 0)); [rewrite rsum_const; lra|]. intros j Hj. apply Hz; lia.
    - rewrite IH; [rewrite (Hz m); [lra|lia|lia]|lia|]. intros j Hj Hne. apply Hz; [lia|exact Hne].
  Qed.

  Lemma F_solves : solves n companion (fun _ => 0) F.
  Proof.
    intros t i Hi. unfold companion. destruct (Nat.eqb_spec (S i) n) as [e|ne].
    - evar_last. apply (F_top t i e). lra.
    - evar_last; [apply (F_chain t i); lia|].
      rewrite (rsum_single n (fun j => (if Nat.eqb j (S i) then 1 else 0) * F t j) (S i)).
      + rewrite Nat.eqb_refl. lra.
      + lia.
      + intros j Hj Hne. destruct (Nat.eqb_spec j (S i)); [contradiction|lra].
  Qed.

  Variable Phi : (nat -> R) -> R -> nat -> R.
  Hypothesis Phi_0 : forall x i, (i < n)%nat -> Phi x 0 i = x i.
  Hypothesis Phi_ode : forall x, solves n companion (fun _ => 0) (Phi x).

  (* stepping from (f(0), f'(0), ...) over any sequence of steps totalling T yields f(T) and its derivatives *)
  Theorem function_reproduced T : 0 <= T -> forall k, (k < n)%nat -> Phi (F 0) T k = F T k.
  Proof.
    intros HT k Hk. rewrite (flow_is_trajectory n companion (fun _ => 0) Phi Phi_0 Phi_ode F 0 F_solves T HT k Hk).
    f_equal. lra.
  Qed.

  Theorem function_reproduced_two_steps h1 h2 : 0 <= h1 -> 0 <= h2 -> forall k, (k < n)%nat ->
    Phi (Phi (F 0) h1) h2 k = F (h1 + h2) k.
  Proof.
    intros H1 H2 k Hk. rewrite (flow_semigroup n companion (fun _ => 0) Phi Phi_0 Phi_ode (F 0) h1 h2 H1 H2 k Hk).
    apply function_reproduced; [lra|exact Hk].
  Qed.
End Companion.
