From Coq Require Import List Bool Arith Lia.
From OdeVerif Require Import Model.FromFunction.
Import ListNotations.

Section P.
  Variable max_t max_order : nat.
  Variable nonzero : nat -> bool.
  Variable verify1 : bool.
  Variable invertible : nat -> nat -> bool.
  Variable verify : nat -> bool.
  Notation search := (search max_t max_order invertible verify).
  Notation from_function := (from_function max_t max_order nonzero verify1 invertible verify).

  Definition accepted_at (n : nat) : Prop :=
    (n = 1 /\ verify1 = true) \/ (1 < n /\ verify n = true /\ exists t, invertible n t = true).

  Lemma search_spec fuel : forall order n, search fuel order = FoundOrder n ->
    order < n <= max_order /\ verify n = true /\ (exists t, invertible n t = true) /\
    forall k, order < k < n -> verify k = false \/ forall t, In t (seq 1 (max_t - 1)) -> invertible k t = false.
  Proof.
    induction fuel as [|f IH]; intros order n H; cbn [FromFunction.search] in H; [discriminate|].
    destruct (order <? max_order) eqn:E; [|discriminate]. apply Nat.ltb_lt in E.
    destruct (first_invertible max_t invertible (S order)) as [t|] eqn:F.
    - destruct (verify (S order)) eqn:V.
      + inversion H; subst. split; [lia|]. split; [exact V|]. split.
        * unfold first_invertible in F. apply find_some in F. exists t. tauto.
        * intros k Hk. lia.
      + destruct (IH (S order) n H) as [A [B [C0 D]]]. split; [lia|]. split; [exact B|]. split; [exact C0|].
        intros k Hk. destruct (Nat.eq_dec k (S order)) as [->|ne]; [left; exact V|apply D; lia].
    - destruct (IH (S order) n H) as [A [B [C0 D]]]. split; [lia|]. split; [exact B|]. split; [exact C0|].
      intros k Hk. destruct (Nat.eq_dec k (S order)) as [->|ne]; [|apply D; lia].
      right. intros t Ht. unfold first_invertible in F. exact (find_none _ _ F t Ht).
  Qed.

  (* shape of an accepted result: the order is between 1 and the documented maximum, the identity was
     verified at that order, and at no lower order *)
  Theorem from_function_spec n : from_function = FoundOrder n ->
    1 <= n <= Nat.max 1 max_order /\ accepted_at n /\ (exists t, nonzero t = true) /\
    (1 < n -> verify1 = false /\ forall k, 1 < k < n -> verify k = false \/ forall t, In t (seq 1 (max_t - 1)) -> invertible k t = false).
  Proof.
    unfold FromFunction.from_function. destruct (first_nonzero max_t nonzero) as [t0|] eqn:F; [|discriminate].
    assert (exists t, nonzero t = true) as Hnz by (unfold first_nonzero in F; apply find_some in F; exists t0; tauto).
    destruct verify1 eqn:V1.
    - intros H; inversion H; subst. split; [lia|]. split; [left; tauto|]. split; [exact Hnz|]. intros; lia.
    - intros H. destruct (search_spec max_order 1 n H) as [A [B [C0 D]]].
      split; [lia|]. split; [right; split; [lia|tauto]|]. split; [exact Hnz|]. intros _. split; [reflexivity|exact D].
  Qed.

  (* rejection is total: whatever the oracle answers, the search ends with an order or an error *)
  Theorem from_function_total : exists r, from_function = r.
  Proof. eexists; reflexivity. Qed.
End P.
