(* Proofs about Model/InputCheck.v: the parser recovers (identifier, order) from every well-formed
   left-hand side, whatever the surrounding whitespace and whatever the right-hand side; and the
   entry check accepts exactly the entries that satisfy the documented format. *)
From Coq Require Import List Bool Arith Ascii String Lia.
From OdeVerif Require Import Model.InputCheck.
Import ListNotations.

(* ---- characters ---- *)
Lemma ch_eqb_eq a b : ch_eqb a b = true <-> a = b.
Proof. unfold ch_eqb. apply Ascii.eqb_eq. Qed.

Lemma ws_not_eq c : is_ws c = true -> ch_eqb c eqc = false.
Proof. intros H. destruct (ch_eqb c eqc) eqn:E; [|reflexivity]. apply ch_eqb_eq in E. subst. vm_compute in H. discriminate. Qed.
Lemma ws_not_prime c : is_ws c = true -> ch_eqb prime c = false.
Proof. intros H. destruct (ch_eqb prime c) eqn:E; [|reflexivity]. apply ch_eqb_eq in E. subst. vm_compute in H. discriminate. Qed.
Lemma ws_not_alpha c : is_ws c = true -> is_alpha_ c = false.
Proof.
  unfold is_ws, is_alpha_. intros H. destruct (nat_of_ascii c =? 32) eqn:E.
  - apply Nat.eqb_eq in E. rewrite E. reflexivity.
  - cbn [orb] in H. apply andb_true_iff in H. destruct H as [H1 H2]. apply Nat.leb_le in H1, H2.
    repeat match goal with |- context [?a <=? ?b] => destruct (Nat.leb_spec a b) end;
    repeat match goal with |- context [?a =? ?b] => destruct (Nat.eqb_spec a b) end; cbn; try reflexivity; lia.
Qed.
Lemma idch_not_ws c : is_idch c = true -> is_ws c = false.
Proof.
  unfold is_idch, is_alpha_, is_digit, is_ws. intros H.
  repeat match goal with |- context [?a <=? ?b] => destruct (Nat.leb_spec a b) end;
  repeat match goal with |- context [?a =? ?b] => destruct (Nat.eqb_spec a b) end; cbn; try reflexivity; exfalso;
  repeat match type of H with context [?a <=? ?b] => destruct (Nat.leb_spec a b) end;
  repeat match type of H with context [?a =? ?b] => destruct (Nat.eqb_spec a b) end; cbn in H; try discriminate; lia.
Qed.
Lemma idch_not_eq c : is_idch c = true -> ch_eqb c eqc = false.
Proof. intros H. destruct (ch_eqb c eqc) eqn:E; [|reflexivity]. apply ch_eqb_eq in E. subst. vm_compute in H. discriminate. Qed.
Lemma idch_not_prime c : is_idch c = true -> ch_eqb prime c = false.
Proof. intros H. destruct (ch_eqb prime c) eqn:E; [|reflexivity]. apply ch_eqb_eq in E. subst. vm_compute in H. discriminate. Qed.
Lemma alpha_idch c : is_alpha_ c = true -> is_idch c = true.
Proof. unfold is_idch. intros ->. reflexivity. Qed.

Definition all (f : ascii -> bool) (s : str) : Prop := forallb f s = true.
Definition valid_ident (id : str) : Prop :=
  match id with [] => False | c :: r => is_alpha_ c = true /\ all is_idch r end.
Definition primes (k : nat) : str := repeat prime k.

Lemma all_app f a b : all f (a ++ b) <-> all f a /\ all f b.
Proof. unfold all. rewrite forallb_app, andb_true_iff. reflexivity. Qed.
Lemma all_cons f c r : all f (c :: r) <-> f c = true /\ all f r.
Proof. unfold all. cbn [forallb]. rewrite andb_true_iff. reflexivity. Qed.
Lemma all_impl (f g : ascii -> bool) s : (forall c, f c = true -> g c = true) -> all f s -> all g s.
Proof. unfold all. rewrite !forallb_forall. intros H H1 c Hc. apply H, H1, Hc. Qed.
Lemma valid_ident_idch id : valid_ident id -> all is_idch id.
Proof. destruct id as [|c r]; [intros []|]. intros [H1 H2]. apply all_cons. split; [apply alpha_idch; exact H1|exact H2]. Qed.

(* ---- count ---- *)
Lemma count_app c a b : count c (a ++ b) = count c a + count c b.
Proof. unfold count. rewrite filter_app, app_length. reflexivity. Qed.
Lemma count_zero c s : (forall x, In x s -> ch_eqb c x = false) -> count c s = 0.
Proof.
  unfold count. induction s as [|x s IH]; intros H; cbn [filter]; [reflexivity|].
  rewrite (H x (or_introl eq_refl)). apply IH. intros y Hy. apply H. right. exact Hy.
Qed.
Lemma count_all_not c f s : all f s -> (forall x, f x = true -> ch_eqb c x = false) -> count c s = 0.
Proof. intros H Hf. apply count_zero. intros x Hx. apply Hf. unfold all in H. rewrite forallb_forall in H. apply H, Hx. Qed.
Lemma count_primes k : count prime (primes k) = k.
Proof. unfold count, primes. induction k as [|k IH]; cbn [repeat filter]; [reflexivity|]. unfold ch_eqb at 1. rewrite Ascii.eqb_refl. cbn [List.length]. rewrite IH. reflexivity. Qed.
Lemma ch_eqb_sym a b : ch_eqb a b = ch_eqb b a.
Proof. unfold ch_eqb. apply Ascii.eqb_sym. Qed.

(* ---- take_while / drop_while over concatenations ---- *)
Lemma take_while_app_all f a b : all f a -> take_while f (a ++ b) = a ++ take_while f b.
Proof.
  induction a as [|c a IH]; intros H; cbn [app take_while]; [reflexivity|].
  apply all_cons in H. destruct H as [H1 H2]. rewrite H1, IH by exact H2. reflexivity.
Qed.
Lemma take_while_stop f c r : f c = false -> take_while f (c :: r) = [].
Proof. intros H. cbn. rewrite H. reflexivity. Qed.
Lemma drop_while_app_all f a b : all f a -> drop_while f (a ++ b) = drop_while f b.
Proof.
  induction a as [|c a IH]; intros H; cbn [app drop_while]; [reflexivity|].
  apply all_cons in H. destruct H as [H1 H2]. rewrite H1. apply IH. exact H2.
Qed.

(* ---- tokens ---- *)
Lemma ntokens_ws b ws r : all is_ws ws -> ntokens_aux b (ws ++ r) = ntokens_aux false r \/ (ws = [] /\ ntokens_aux b (ws ++ r) = ntokens_aux b r).
Proof.
  intros H. destruct ws as [|c ws]; [right; split; reflexivity|left].
  revert b c H. induction ws as [|d ws IH]; intros b c H; apply all_cons in H; destruct H as [H1 H2]; cbn [app ntokens_aux]; rewrite H1.
  - reflexivity.
  - specialize (IH false d H2). cbn [app] in IH. exact IH.
Qed.
Lemma ntokens_word w r : all (fun c => negb (is_ws c)) w -> ntokens_aux true (w ++ r) = ntokens_aux true r.
Proof.
  induction w as [|c w IH]; intros H; cbn [app]; [reflexivity|].
  apply all_cons in H. destruct H as [H1 H2]. cbn [ntokens_aux]. apply negb_true_iff in H1. rewrite H1. cbn. apply IH. exact H2.
Qed.
Lemma ntokens_all_ws b ws : all is_ws ws -> ntokens_aux b ws = 0.
Proof.
  revert b. induction ws as [|c ws IH]; intros b H; [reflexivity|]. apply all_cons in H. destruct H as [H1 H2].
  cbn [ntokens_aux]. rewrite H1. apply IH. exact H2.
Qed.

Lemma one_token ws1 w ws2 : all is_ws ws1 -> all is_ws ws2 -> w <> [] -> all (fun c => negb (is_ws c)) w ->
  ntokens (ws1 ++ w ++ ws2) = 1.
Proof.
  intros H1 H2 Hne Hw. unfold ntokens.
  assert (ntokens_aux false (ws1 ++ w ++ ws2) = ntokens_aux false (w ++ ws2)) as E.
  { destruct (ntokens_ws false ws1 (w ++ ws2) H1) as [E|[-> E]]; exact E. }
  rewrite E. destruct w as [|c w]; [contradiction|]. apply all_cons in Hw. destruct Hw as [Hc Hw].
  cbn [app ntokens_aux]. apply negb_true_iff in Hc. rewrite Hc. rewrite (ntokens_word w ws2 Hw), (ntokens_all_ws true ws2 H2). reflexivity.
Qed.

(* ---- first identifier ---- *)
Lemma first_ident_found ws id rest : all (fun c => negb (is_alpha_ c)) ws -> valid_ident id ->
  (match rest with [] => True | c :: _ => is_idch c = false end) ->
  first_ident (ws ++ id ++ rest) = Some id.
Proof.
  intros Hws Hid Hrest. unfold first_ident. rewrite (drop_while_app_all _ ws _ Hws).
  destruct id as [|c r]; [destruct Hid|]. destruct Hid as [Hc Hr].
  cbn [app drop_while]. rewrite Hc. cbn [negb].
  change (c :: r ++ rest) with ((c :: r) ++ rest).
  rewrite (take_while_app_all is_idch (c :: r) rest) by (apply all_cons; split; [apply alpha_idch; exact Hc|exact Hr]).
  destruct rest as [|d rest]; [cbn; rewrite app_nil_r; reflexivity|]. rewrite (take_while_stop _ _ _ Hrest), app_nil_r. reflexivity.
Qed.

(* ---- the well-formed defining expression ---- *)
Definition wf_lhs (ws1 id : str) (k : nat) (ws2 : str) : str := ws1 ++ id ++ primes k ++ ws2.

Lemma primes_not_ws k : all (fun c => negb (is_ws c)) (primes k).
Proof. unfold all, primes. apply forallb_forall. intros c Hc. apply repeat_spec in Hc. subst. reflexivity. Qed.
Lemma primes_not_eq k : all (fun c => negb (ch_eqb c eqc)) (primes k).
Proof. unfold all, primes. apply forallb_forall. intros c Hc. apply repeat_spec in Hc. subst. reflexivity. Qed.

Theorem parse_wellformed ws1 id k ws2 rhs :
  all is_ws ws1 -> all is_ws ws2 -> valid_ident id -> count eqc rhs = 0 ->
  let s := wf_lhs ws1 id k ws2 ++ [eqc] ++ rhs in
  count eqc s = 1 /\ parse_lhs s = Some (id, k).
Proof.
  intros H1 H2 Hid Hrhs s. pose proof (valid_ident_idch id Hid) as Hidc.
  assert (all (fun c => negb (ch_eqb c eqc)) (wf_lhs ws1 id k ws2)) as Hnoeq.
  { unfold wf_lhs. rewrite !all_app. repeat split.
    - eapply all_impl; [|exact H1]. intros c Hc. rewrite (ws_not_eq c Hc). reflexivity.
    - eapply all_impl; [|exact Hidc]. intros c Hc. rewrite (idch_not_eq c Hc). reflexivity.
    - apply primes_not_eq.
    - eapply all_impl; [|exact H2]. intros c Hc. rewrite (ws_not_eq c Hc). reflexivity. }
  split.
  - unfold s. rewrite !count_app, Hrhs.
    rewrite (count_all_not eqc _ _ Hnoeq) by (intros x Hx; apply negb_true_iff in Hx; rewrite ch_eqb_sym; exact Hx).
    reflexivity.
  - assert (take_while (fun c => negb (ch_eqb c eqc)) s = wf_lhs ws1 id k ws2) as Etw.
    { unfold s. rewrite (take_while_app_all _ _ _ Hnoeq). cbn [app]. rewrite take_while_stop; [apply app_nil_r|].
      unfold ch_eqb. rewrite Ascii.eqb_refl. reflexivity. }
    unfold parse_lhs. rewrite Etw. unfold s.
    assert (ntokens (wf_lhs ws1 id k ws2) = 1) as Et.
    { unfold wf_lhs. rewrite (app_assoc id). apply one_token; try assumption.
      - destruct id; [destruct Hid|discriminate].
      - apply all_app. split; [|apply primes_not_ws]. eapply all_impl; [|exact Hidc]. intros c Hc. rewrite (idch_not_ws c Hc). reflexivity. }
    rewrite Et. cbn [Nat.eqb negb].
    unfold wf_lhs. rewrite <- !app_assoc. cbn [app].
    rewrite (first_ident_found ws1 id (primes k ++ ws2 ++ eqc :: rhs)); [| |exact Hid|].
    + f_equal. f_equal. rewrite !count_app, count_primes.
      rewrite (count_all_not prime _ ws1 H1 ws_not_prime), (count_all_not prime _ id Hidc idch_not_prime), (count_all_not prime _ ws2 H2 ws_not_prime). lia.
    + eapply all_impl; [|exact H1]. intros c Hc. rewrite (ws_not_alpha c Hc). reflexivity.
    + destruct k as [|k]; [|reflexivity]. cbn [primes repeat app].
      destruct ws2 as [|c ws2]; [reflexivity|]. apply all_cons in H2. destruct H2 as [Hc _]. cbn [app].
      destruct (is_idch c) eqn:E; [|reflexivity]. rewrite (idch_not_ws c E) in Hc. discriminate.
Qed.

(* a well-formed initial-value key: the same identifier with j primes, optional surrounding whitespace *)
Theorem key_wellformed ws1 id j ws2 : all is_ws ws1 -> all is_ws ws2 -> valid_ident id ->
  first_ident (wf_lhs ws1 id j ws2) = Some id /\ count prime (wf_lhs ws1 id j ws2) = j.
Proof.
  intros H1 H2 Hid. pose proof (valid_ident_idch id Hid) as Hidc. unfold wf_lhs. split.
  - apply first_ident_found; [|exact Hid|].
    + eapply all_impl; [|exact H1]. intros c Hc. rewrite (ws_not_alpha c Hc). reflexivity.
    + destruct j as [|j]; [|reflexivity]. cbn [primes repeat app].
      destruct ws2 as [|c ws2]; [exact I|]. apply all_cons in H2. destruct H2 as [Hc _].
      destruct (is_idch c) eqn:E; [|reflexivity]. rewrite (idch_not_ws c E) in Hc. discriminate.
  - rewrite !count_app, count_primes.
    rewrite (count_all_not prime _ ws1 H1 ws_not_prime), (count_all_not prime _ id Hidc idch_not_prime), (count_all_not prime _ ws2 H2 ws_not_prime). lia.
Qed.

(* ---- the loop over the initial-value keys ---- *)
Lemma str_eqb_eq a b : str_eqb a b = true <-> a = b.
Proof.
  revert b. induction a as [|x a IH]; intros [|y b]; cbn [str_eqb]; split; intros H; try reflexivity; try discriminate.
  - apply andb_true_iff in H. destruct H as [H1 H2]. apply ch_eqb_eq in H1. apply IH in H2. congruence.
  - inversion H; subst. apply andb_true_iff. split; [apply ch_eqb_eq; reflexivity|apply IH; reflexivity].
Qed.

Definition good_key (sym : str) (order : nat) (key : str) : Prop := first_ident key = Some sym /\ count prime key < order.

Lemma check_ivs_spec sym order keys : forall seen seen',
  check_ivs sym order keys seen = Some seen' <->
  (forall key, In key keys -> good_key sym order key) /\ NoDup (map (count prime) keys)
  /\ (forall o, In o (map (count prime) keys) -> ~ In o seen) /\ seen' = rev (map (count prime) keys) ++ seen.
Proof.
  induction keys as [|k keys IH]; intros seen seen'; cbn [check_ivs map rev app].
  - split.
    + intros H. inversion H; subst. split; [intros ? []|]. split; [apply NoDup_nil|]. split; [intros ? []|reflexivity].
    + intros [_ [_ [_ ->]]]. reflexivity.
  - destruct (first_ident k) as [ivs|] eqn:F.
    2:{ split; [discriminate|]. intros [H _]. destruct (H k (or_introl eq_refl)) as [H1 _]. congruence. }
    destruct (str_eqb ivs sym) eqn:Es; cbn [negb].
    2:{ split; [discriminate|]. intros [H _]. destruct (H k (or_introl eq_refl)) as [H1 _]. rewrite F in H1. inversion H1; subst.
        assert (str_eqb sym sym = true) by (apply str_eqb_eq; reflexivity). congruence. }
    apply str_eqb_eq in Es. subst ivs.
    destruct (order <=? count prime k) eqn:Eo.
    { split; [discriminate|]. intros [H _]. destruct (H k (or_introl eq_refl)) as [_ H2]. apply Nat.leb_le in Eo. lia. }
    apply Nat.leb_gt in Eo.
    destruct (existsb (Nat.eqb (count prime k)) seen) eqn:Ee.
    { split; [discriminate|]. intros [_ [_ [H _]]]. exfalso. apply (H (count prime k) (or_introl eq_refl)).
      apply existsb_exists in Ee. destruct Ee as [x [Hx1 Hx2]]. apply Nat.eqb_eq in Hx2. subst. exact Hx1. }
    rewrite IH. split.
    + intros [H1 [H2 [H3 H4]]]. split; [|split; [|split]].
      * intros key0 [<-|Hk]; [split; [exact F|exact Eo]|apply H1; exact Hk].
      * constructor; [|exact H2]. intros Hin. apply (H3 _ Hin). left. reflexivity.
      * intros o [<-|Ho] Hs.
        -- assert (existsb (Nat.eqb (count prime k)) seen = true) as X by (apply existsb_exists; exists (count prime k); split; [exact Hs|apply Nat.eqb_refl]). congruence.
        -- apply (H3 o Ho). right. exact Hs.
      * rewrite H4, <- app_assoc. reflexivity.
    + intros [H1 [H2 [H3 H4]]]. inversion H2 as [|? ? Hn Hnd]; subst. split; [|split; [|split]].
      * intros key0 Hk. apply H1. right. exact Hk.
      * exact Hnd.
      * intros o Ho [Hs|Hs]; [subst; contradiction|]. apply (H3 o (or_intror Ho) Hs).
      * rewrite <- app_assoc. reflexivity.
Qed.

(* ---- the decision table of the entry check, both directions ---- *)
Definition iv_ok (e : entry) (sym : str) (order : nat) : Prop :=
  match e_has_iv e, e_ivs e with
  | false, None => order = 0
  | true, None => order = 1
  | true, Some _ => False
  | false, Some keys => List.length keys = order /\ (forall key, In key keys -> good_key sym order key)
                        /\ NoDup (map (count prime) keys)
  end.

Theorem check_entry_accepts_iff reserved marker e sym order :
  check_entry reserved marker e = Accepted sym order <->
  exists s, e_expr e = Some s /\ count eqc s = 1 /\ parse_lhs s = Some (sym, order) /\ iv_ok e sym order
            /\ existsb (str_eqb sym) reserved = false /\ contains marker sym = false.
Proof.
  unfold check_entry, iv_ok. destruct (e_expr e) as [s|]; [|split; [discriminate|intros [s [H _]]; discriminate]].
  destruct (count eqc s =? 1) eqn:Ec; cbn [negb].
  2:{ split; [discriminate|]. intros [s' [H [H1 _]]]. inversion H; subst. apply Nat.eqb_neq in Ec. contradiction. }
  apply Nat.eqb_eq in Ec.
  destruct (parse_lhs s) as [[sym' order']|] eqn:Ep.
  2:{ split; [discriminate|]. intros [s' [H [_ [H2 _]]]]. inversion H; subst. congruence. }
  destruct (e_has_iv e) eqn:Ei; destruct (e_ivs e) as [keys|] eqn:Ek; cbn [negb andb].
  - (* both spellings *) split; [discriminate|]. intros [s' [_ [_ [_ [[] _]]]]].
  - (* single value *)
    destruct (order' =? 1) eqn:E1; cbn [negb].
    + apply Nat.eqb_eq in E1. subst order'.
      destruct (existsb (str_eqb sym') reserved || contains marker sym') eqn:En.
      * split; [discriminate|]. intros [s' [H [_ [H2 [_ [H4 H5]]]]]]. inversion H; subst s'. rewrite Ep in H2. injection H2 as Hs1 Hs2; rewrite <- ?Hs1, <- ?Hs2 in *; clear Hs1 Hs2. rewrite H4, H5 in En. discriminate.
      * apply orb_false_iff in En. destruct En as [En1 En2]. split.
        -- intros H. inversion H; subst. exists s. repeat split; try assumption; reflexivity.
        -- intros [s' [H [_ [H2 _]]]]. inversion H; subst s'. rewrite Ep in H2. injection H2 as Hs1 Hs2; rewrite <- ?Hs1, <- ?Hs2 in *; clear Hs1 Hs2. reflexivity.
    + split; [discriminate|]. intros [s' [H [_ [H2 [H3 _]]]]]. inversion H; subst s'. rewrite Ep in H2. injection H2 as Hs1 Hs2; rewrite <- ?Hs1, <- ?Hs2 in *; clear Hs1 Hs2. apply Nat.eqb_neq in E1. contradiction.
  - (* initial_values *)
    destruct (List.length keys =? order') eqn:El; cbn [negb].
    2:{ split; [discriminate|]. intros [s' [H [_ [H2 [[H3 _] _]]]]]. inversion H; subst s'. rewrite Ep in H2. injection H2 as Hs1 Hs2; rewrite <- ?Hs1, <- ?Hs2 in *; clear Hs1 Hs2. apply Nat.eqb_neq in El. contradiction. }
    apply Nat.eqb_eq in El.
    destruct (check_ivs sym' order' keys []) as [seen|] eqn:Ecv.
    2:{ split; [discriminate|]. intros [s' [H [_ [H2 [[_ [H3 H4]] _]]]]]. inversion H; subst s'. rewrite Ep in H2. injection H2 as Hs1 Hs2; rewrite <- ?Hs1, <- ?Hs2 in *; clear Hs1 Hs2.
        assert (check_ivs sym' order' keys [] = Some (rev (map (count prime) keys) ++ [])) as X.
        { apply check_ivs_spec. split; [exact H3|]. split; [exact H4|]. split; [intros ? _ []|reflexivity]. }
        congruence. }
    apply check_ivs_spec in Ecv. destruct Ecv as [C1 [C2 [_ C4]]].
    assert (List.length seen = order') as Els by (rewrite C4, app_nil_r, rev_length, map_length; exact El).
    rewrite Els, Nat.eqb_refl. cbn [negb].
    destruct (existsb (str_eqb sym') reserved || contains marker sym') eqn:En.
    + split; [discriminate|]. intros [s' [H [_ [H2 [_ [H4 H5]]]]]]. inversion H; subst s'. rewrite Ep in H2. injection H2 as Hs1 Hs2; rewrite <- ?Hs1, <- ?Hs2 in *; clear Hs1 Hs2. rewrite H4, H5 in En. discriminate.
    + apply orb_false_iff in En. destruct En as [En1 En2]. split.
      * intros H. inversion H; subst. exists s. split; [reflexivity|]. split; [assumption|]. split; [assumption|].
        split; [split; [reflexivity|split; assumption]|]. split; assumption.
      * intros [s' [H [_ [H2 _]]]]. inversion H; subst s'. rewrite Ep in H2. injection H2 as Hs1 Hs2; rewrite <- ?Hs1, <- ?Hs2 in *; clear Hs1 Hs2. reflexivity.
  - (* no initial values at all *)
    destruct (0 <? order') eqn:E0.
    + split; [discriminate|]. intros [s' [H [_ [H2 [H3 _]]]]]. inversion H; subst s'. rewrite Ep in H2. injection H2 as Hs1 Hs2; rewrite <- ?Hs1, <- ?Hs2 in *; clear Hs1 Hs2. rewrite H3 in E0. discriminate.
    + apply Nat.ltb_ge in E0. assert (order' = 0) by lia. subst order'.
      destruct (existsb (str_eqb sym') reserved || contains marker sym') eqn:En.
      * split; [discriminate|]. intros [s' [H [_ [H2 [_ [H4 H5]]]]]]. inversion H; subst s'. rewrite Ep in H2. injection H2 as Hs1 Hs2; rewrite <- ?Hs1, <- ?Hs2 in *; clear Hs1 Hs2. rewrite H4, H5 in En. discriminate.
      * apply orb_false_iff in En. destruct En as [En1 En2]. split.
        -- intros H. inversion H; subst. exists s. repeat split; try assumption; reflexivity.
        -- intros [s' [H [_ [H2 _]]]]. inversion H; subst s'. rewrite Ep in H2. injection H2 as Hs1 Hs2; rewrite <- ?Hs1, <- ?Hs2 in *; clear Hs1 Hs2. reflexivity.
Qed.

(* the malformed-input error, as opposed to a name error, is raised exactly when the structure is wrong *)
Theorem check_entry_name_error reserved marker e :
  check_entry reserved marker e = NameError ->
  exists s sym order, e_expr e = Some s /\ parse_lhs s = Some (sym, order) /\ iv_ok e sym order
    /\ (existsb (str_eqb sym) reserved = true \/ contains marker sym = true).
Proof.
  unfold check_entry, iv_ok. destruct (e_expr e) as [s|]; [|discriminate].
  destruct (count eqc s =? 1); cbn [negb]; [|discriminate].
  destruct (parse_lhs s) as [[sym order]|] eqn:Ep; [|discriminate].
  destruct (e_has_iv e) eqn:Ei; destruct (e_ivs e) as [keys|] eqn:Ek; cbn [negb andb]; try discriminate.
  - destruct (order =? 1) eqn:E1; cbn [negb]; [|discriminate]. apply Nat.eqb_eq in E1.
    destruct (existsb (str_eqb sym) reserved || contains marker sym) eqn:En; [|discriminate].
    intros _. exists s, sym, order. apply orb_true_iff in En. repeat split; try assumption; reflexivity.
  - destruct (List.length keys =? order) eqn:El; cbn [negb]; [|discriminate]. apply Nat.eqb_eq in El.
    destruct (check_ivs sym order keys []) as [seen|] eqn:Ecv; [|discriminate].
    apply check_ivs_spec in Ecv. destruct Ecv as [C1 [C2 [_ C4]]].
    destruct (negb (List.length seen =? order)); [discriminate|].
    destruct (existsb (str_eqb sym) reserved || contains marker sym) eqn:En; [|discriminate].
    intros _. exists s, sym, order. apply orb_true_iff in En.
    split; [reflexivity|]. split; [exact Ep|]. split; [split; [exact El|split; [exact C1|exact C2]]|exact En].
  - destruct (0 <? order) eqn:E0; [discriminate|]. apply Nat.ltb_ge in E0.
    destruct (existsb (str_eqb sym) reserved || contains marker sym) eqn:En; [|discriminate].
    intros _. exists s, sym, order. apply orb_true_iff in En. repeat split; try assumption; try reflexivity. lia.
Qed.
