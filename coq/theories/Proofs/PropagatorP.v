(* C01 algebra.  In a commutative ring T with a derivation D (= d/dh) and a ring morphism ev0
   (= h := 0):  if the propagator entries satisfy  ev0 P = I  and  D P = A P  (the law of the
   matrix exponential) then every accepted update satisfies
        ev0 (u r) = x r           (identity at h = 0)
        D (u r) = sum_j A r j * u j + b r     (h-derivative = right-hand side at the updated state)
   for every dimension n, every coupling pattern, with or without first-order constant offsets. *)
From Coq Require Import List Bool Arith Lia Ring.
From OdeVerif Require Import Model.Propagator.
Import ListNotations.

Section C01.
  Variable T : Type.
  Variables (rO rI : T) (radd rmul rsub : T -> T -> T) (ropp : T -> T).
  Hypothesis RT : ring_theory rO rI radd rmul rsub ropp (@eq T).
  Add Ring TRing4 : RT.
  Notation "a + b" := (radd a b). Notation "a * b" := (rmul a b). Notation "- a" := (ropp a).

  Variable D : T -> T.
  Hypothesis D_add : forall a b, D (a + b) = D a + D b.
  Hypothesis D_mul : forall a b, D (a * b) = D a * b + a * D b.
  Hypothesis D_zero : D rO = rO.
  Variable ev0 : T -> T.
  Hypothesis ev0_add : forall a b, ev0 (a + b) = ev0 a + ev0 b.
  Hypothesis ev0_mul : forall a b, ev0 (a * b) = ev0 a * ev0 b.
  Hypothesis ev0_zero : ev0 rO = rO.

  Variable n : nat.
  Variable A : nat -> nat -> T.
  Variables b x ps : nat -> T.
  Variable P : nat -> nat -> T.
  Variable h : T.
  Variable Pnz : nat -> nat -> bool.
  Variables bnz annz cz scc_gt1 : nat -> bool.

  (* constants: no dependence on h *)
  Hypothesis A_const : forall i j, D (A i j) = rO /\ ev0 (A i j) = A i j.
  Hypothesis b_const : forall i, D (b i) = rO /\ ev0 (b i) = b i.
  Hypothesis x_const : forall i, D (x i) = rO /\ ev0 (x i) = x i.
  Hypothesis ps_const : forall i, D (ps i) = rO /\ ev0 (ps i) = ps i.
  Hypothesis h_law : D h = rI /\ ev0 h = rO.
  (* zero tests are sound in the direction that is used *)
  Hypothesis Pnz_sound : forall i j, Pnz i j = false -> P i j = rO.
  Hypothesis bnz_sound : forall i, bnz i = false -> b i = rO.
  Hypothesis annz_sound : forall i, annz i = false -> A i i = rO.
  (* the particular solution solves  A_rr ps + b_r = 0  (division defined) *)
  Hypothesis ps_law : forall i, bnz i = true -> annz i = true -> A i i * ps i + b i = rO.
  (* the oracle law: P is the matrix exponential of A h *)
  Notation S := (sumn T rO radd n).
  Hypothesis P_at_0 : forall i j, (i < n)%nat -> (j < n)%nat -> ev0 (P i j) = if Nat.eqb i j then rI else rO.
  Hypothesis P_ode : forall i j, (i < n)%nat -> (j < n)%nat -> D (P i j) = S (fun k => A i k * P k j).

  Notation update := (update T rO radd rmul ropp n b x P h ps Pnz bnz annz).
  Notation offset := (offset T rO radd rmul ropp b x P h ps bnz annz).
  Hypothesis Hacc : accepted n Pnz bnz cz scc_gt1 = true.

  (* ---- finite sums ---- *)
  Definition sum (l : list nat) (f : nat -> T) : T := fold_right (fun k acc => f k + acc) rO l.
  Lemma S_sum f : S f = sum (seq 0 n) f. Proof. reflexivity. Qed.
  Lemma sum_nil f : sum [] f = rO. Proof. reflexivity. Qed.
  Lemma sum_cons k l f : sum (k :: l) f = f k + sum l f. Proof. reflexivity. Qed.

  Lemma sum_ext l f g : (forall k, In k l -> f k = g k) -> sum l f = sum l g.
  Proof.
    induction l as [|k l IH]; intros H; [reflexivity|]. rewrite !sum_cons, (H k (or_introl eq_refl)), IH; [reflexivity|].
    intros j Hj; apply H; right; exact Hj.
  Qed.
  Lemma sum_zero l f : (forall k, In k l -> f k = rO) -> sum l f = rO.
  Proof.
    induction l as [|k l IH]; intros H; [reflexivity|]. rewrite sum_cons, (H k (or_introl eq_refl)), IH; [ring|].
    intros j Hj; apply H; right; exact Hj.
  Qed.
  Lemma sum_add l f g : sum l (fun k => f k + g k) = sum l f + sum l g.
  Proof. induction l as [|k l IH]; [rewrite !sum_nil; ring|]. rewrite !sum_cons, IH. ring. Qed.
  Lemma sum_scal_l a l f : sum l (fun k => a * f k) = a * sum l f.
  Proof. induction l as [|k l IH]; [rewrite !sum_nil; ring|]. rewrite !sum_cons, IH. ring. Qed.
  Lemma sum_scal_r a l f : sum l (fun k => f k * a) = sum l f * a.
  Proof. induction l as [|k l IH]; [rewrite !sum_nil; ring|]. rewrite !sum_cons, IH. ring. Qed.
  Lemma sum_swap l1 l2 (f : nat -> nat -> T) : sum l1 (fun i => sum l2 (fun j => f i j)) = sum l2 (fun j => sum l1 (fun i => f i j)).
  Proof.
    induction l1 as [|i l1 IH]; [rewrite sum_nil; symmetry; apply sum_zero; intros; apply sum_nil|].
    rewrite sum_cons, IH, <- sum_add. apply sum_ext. intros j _. rewrite sum_cons. reflexivity.
  Qed.
  Lemma D_sum l f : D (sum l f) = sum l (fun k => D (f k)).
  Proof. induction l as [|k l IH]; [exact D_zero|]. rewrite !sum_cons, D_add, IH. reflexivity. Qed.
  Lemma ev0_sum l f : ev0 (sum l f) = sum l (fun k => ev0 (f k)).
  Proof. induction l as [|k l IH]; [exact ev0_zero|]. rewrite !sum_cons, ev0_add, IH. reflexivity. Qed.
  Lemma sum_single r l f : NoDup l -> In r l -> (forall k, In k l -> k <> r -> f k = rO) -> sum l f = f r.
  Proof.
    induction 1 as [|k l Hnin Hnd IH]; intros Hin Hz; [destruct Hin|]. rewrite sum_cons.
    destruct Hin as [->|Hin].
    - rewrite sum_zero; [ring|]. intros j Hj. apply Hz; [right; exact Hj|]. intros ->. contradiction.
    - rewrite IH; [|exact Hin|intros j Hj Hne; apply Hz; [right; exact Hj|exact Hne]].
      rewrite (Hz k (or_introl eq_refl)); [ring|]. intros ->. contradiction.
  Qed.
  Lemma in_seqn k : In k (seq 0 n) <-> (k < n)%nat.
  Proof. rewrite in_seq. lia. Qed.
  Lemma S_single r f : (r < n)%nat -> (forall k, (k < n)%nat -> k <> r -> f k = rO) -> S f = f r.
  Proof.
    intros Hr Hz. rewrite S_sum. apply sum_single; [apply seq_NoDup|apply in_seqn; exact Hr|].
    intros k Hk. apply Hz. apply in_seqn. exact Hk.
  Qed.

  (* ---- consequences of acceptance ---- *)
  Lemma accepted_row r c : (r < n)%nat -> (c < n)%nat -> r <> c -> bnz c = true -> P r c = rO.
  Proof.
    intros Hr Hc Hne Hb. apply Pnz_sound.
    unfold accepted in Hacc. rewrite forallb_forall in Hacc. specialize (Hacc r (proj2 (in_seqn r) Hr)).
    unfold row_ok in Hacc. apply andb_true_iff in Hacc. destruct Hacc as [_ H].
    rewrite forallb_forall in H. specialize (H c (proj2 (in_seqn c) Hc)).
    destruct (Pnz r c); [|reflexivity]. rewrite Hb in H. destruct (Nat.eqb_spec r c); [contradiction|discriminate].
  Qed.

  (* (ii): a row never refers, through A, to another row that has an offset *)
  Lemma A_zero_to_offset r j : (r < n)%nat -> (j < n)%nat -> r <> j -> bnz j = true -> A r j = rO.
  Proof.
    intros Hr Hj Hne Hb.
    pose proof (accepted_row r j Hr Hj Hne Hb) as HP.
    pose proof (P_ode r j Hr Hj) as HD. rewrite HP, D_zero in HD.
    assert (ev0 (S (fun k => A r k * P k j)) = A r j) as E.
    { rewrite S_sum, ev0_sum. rewrite (sum_single j); [|apply seq_NoDup|apply in_seqn; exact Hj|].
      - rewrite ev0_mul, (proj2 (A_const r j)), (P_at_0 j j Hj Hj), Nat.eqb_refl. ring.
      - intros k Hk Hkj. apply in_seqn in Hk. rewrite ev0_mul, (P_at_0 k j Hk Hj).
        destruct (Nat.eqb_spec k j); [contradiction|ring]. }
    rewrite <- HD, ev0_zero in E. symmetry. exact E.
  Qed.

  Definition U (r : nat) : T := S (fun c => P r c * x c).

  Lemma update_U r : update r = U r + offset r.
  Proof.
    unfold Propagator.update, U. f_equal. rewrite !S_sum. apply sum_ext. intros c _.
    destruct (Pnz r c) eqn:E; [reflexivity|]. rewrite (Pnz_sound r c E). ring.
  Qed.

  Lemma D_U r : (r < n)%nat -> D (U r) = S (fun j => A r j * U j).
  Proof.
    intros Hr. unfold U. rewrite !S_sum, D_sum.
    transitivity (sum (seq 0 n) (fun c => sum (seq 0 n) (fun j => A r j * (P j c * x c)))).
    - apply sum_ext. intros c Hc. apply in_seqn in Hc. rewrite D_mul, (proj1 (x_const c)), (P_ode r c Hr Hc), S_sum.
      rewrite <- sum_scal_r. transitivity (sum (seq 0 n) (fun k => A r k * P k c * x c) + rO); [|rewrite (sum_ext _ _ (fun j => A r j * (P j c * x c))); [ring|intros; ring]].
      ring_simplify. reflexivity.
    - rewrite sum_swap. apply sum_ext. intros j _. rewrite S_sum, <- sum_scal_l. reflexivity.
  Qed.

  Lemma ev0_U r : (r < n)%nat -> ev0 (U r) = x r.
  Proof.
    intros Hr. unfold U. rewrite S_sum, ev0_sum. rewrite (sum_single r); [|apply seq_NoDup|apply in_seqn; exact Hr|].
    - rewrite ev0_mul, (P_at_0 r r Hr Hr), Nat.eqb_refl, (proj2 (x_const r)). ring.
    - intros k Hk Hne. apply in_seqn in Hk. rewrite ev0_mul, (P_at_0 r k Hr Hk).
      destruct (Nat.eqb_spec r k); [congruence|ring].
  Qed.

  (* column r of P is a unit column when row r has an offset *)
  Lemma D_Prr r : (r < n)%nat -> bnz r = true -> D (P r r) = A r r * P r r.
  Proof.
    intros Hr Hb. rewrite (P_ode r r Hr Hr). rewrite (S_single r (fun k => A r k * P k r) Hr); [reflexivity|].
    intros k Hk Hne. cbv beta. rewrite (accepted_row k r Hk Hr Hne Hb). ring.
  Qed.

  Lemma offset_simpl r : offset r =
    if bnz r then (if annz r then ps r + - (P r r * ps r) else h * b r) else rO.
  Proof. unfold Propagator.offset. destruct (bnz r); [|reflexivity]. destruct (annz r); [ring|reflexivity]. Qed.

  Lemma A_offset r j : (r < n)%nat -> (j < n)%nat -> j <> r -> A r j * offset j = rO.
  Proof.
    intros Hr Hj Hne. rewrite offset_simpl. destruct (bnz j) eqn:E; [|ring].
    rewrite (A_zero_to_offset r j Hr Hj (fun e => Hne (eq_sym e)) E). ring.
  Qed.

  Lemma D_offset r : (r < n)%nat -> D (offset r) = A r r * offset r + b r.
  Proof.
    intros Hr. rewrite !offset_simpl. destruct (bnz r) eqn:Eb.
    - destruct (annz r) eqn:Ea.
      + rewrite D_add, (proj1 (ps_const r)).
        assert (D (- (P r r * ps r)) = - (A r r * P r r * ps r)) as E.
        { assert (forall a, D (- a) = - D a) as Dopp.
          { intros a. assert (D (a + - a) = rO) as Z by (replace (a + - a) with rO by ring; exact D_zero).
            rewrite D_add in Z. transitivity ((D a + D (- a)) + - D a); [ring|rewrite Z; ring]. }
          rewrite Dopp, D_mul, (proj1 (ps_const r)), (D_Prr r Hr Eb). ring. }
        rewrite E. pose proof (ps_law r Eb Ea) as L.
        assert (b r = - (A r r * ps r)) as Hb'.
        { transitivity (A r r * ps r + b r + - (A r r * ps r)); [ring|]. rewrite L. ring. }
        rewrite Hb'. ring.
      + rewrite D_mul, (proj1 h_law), (proj1 (b_const r)), (annz_sound r Ea). ring.
    - rewrite D_zero, (bnz_sound r Eb). ring.
  Qed.

  Lemma ev0_offset r : (r < n)%nat -> ev0 (offset r) = rO.
  Proof.
    intros Hr. rewrite offset_simpl. destruct (bnz r); [|exact ev0_zero]. destruct (annz r).
    - assert (forall a, ev0 (- a) = - ev0 a) as Eopp.
      { intros a. assert (ev0 (a + - a) = rO) as Z by (replace (a + - a) with rO by ring; exact ev0_zero).
        rewrite ev0_add in Z. transitivity ((ev0 a + ev0 (- a)) + - ev0 a); [ring|rewrite Z; ring]. }
      rewrite ev0_add, Eopp, ev0_mul, (P_at_0 r r Hr Hr), Nat.eqb_refl, (proj2 (ps_const r)). ring.
    - rewrite ev0_mul, (proj2 h_law). ring.
  Qed.

  Theorem update_identity_at_zero r : (r < n)%nat -> ev0 (update r) = x r.
  Proof. intros Hr. rewrite update_U, ev0_add, (ev0_U r Hr), (ev0_offset r Hr). ring. Qed.

  Theorem update_derivative r : (r < n)%nat -> D (update r) = S (fun j => A r j * update j) + b r.
  Proof.
    intros Hr. rewrite update_U, D_add, (D_U r Hr), (D_offset r Hr).
    assert (S (fun j => A r j * update j) = S (fun j => A r j * U j) + A r r * offset r) as E.
    { rewrite !S_sum. rewrite (sum_ext _ (fun j => A r j * update j) (fun j => A r j * U j + A r j * offset j)).
      - rewrite sum_add. f_equal.
        rewrite (sum_single r (seq 0 n) (fun k => A r k * offset k)); [reflexivity|apply seq_NoDup|apply in_seqn; exact Hr|].
        intros k Hk Hne. apply in_seqn in Hk. apply A_offset; assumption.
      - intros j _. rewrite update_U. ring. }
    rewrite E. ring.
  Qed.
End C01.
