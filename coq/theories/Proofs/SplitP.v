(* split_lin_inhom_nonlin is lossless for EVERY classifier [par]: the three buckets re-assemble to
   the expression that was split, in any commutative ring; and the buckets are what they claim
   to be (constant / constant coefficient of one symbol / the rest). *)
From Coq Require Import List Bool ZArith Arith Lia Ring.
From OdeVerif Require Import Model.Term Model.Split.
Import ListNotations.

Lemma atom_eqb_eq a b : atom_eqb a b = true <-> a = b.
Proof.
  destruct a, b; cbn; try (split; intros; congruence); rewrite Nat.eqb_eq; split; intros; congruence.
Qed.

Definition is_var (a : atom) : bool := match a with AVar _ => true | _ => false end.

Section SplitP.
  Variable K T : Type.
  Variables (rO rI : T) (radd rmul rsub : T -> T -> T) (ropp : T -> T).
  Hypothesis RT : ring_theory rO rI radd rmul rsub ropp (@eq T).
  Add Ring TRing : RT.
  Variable inj : K -> T.
  Variable pw : T -> Z -> T.
  Hypothesis pw_1 : forall a, pw a 1%Z = a.
  Variable rho : atom -> T.
  Variable fdeps : nat -> list atom.
  Variable par : atom -> bool.

  Notation "a + b" := (radd a b). Notation "a * b" := (rmul a b).
  Notation evp := (ev_poly K T rO rI radd rmul inj pw rho).
  Notation evt := (ev_term K T rI rmul inj pw rho).
  Notation evw := (ev_pows T rI rmul pw rho).

  Lemma evp_nil : evp [] = rO.
  Proof. reflexivity. Qed.

  Lemma evp_cons t p : evp (t :: p) = evt t + evp p.
  Proof. reflexivity. Qed.

  Lemma evp_app p q : evp (p ++ q) = evp p + evp q.
  Proof.
    induction p as [|t p IH]; cbn [app].
    - rewrite evp_nil. ring.
    - rewrite !evp_cons, IH. ring.
  Qed.

  Lemma evp_snoc p t : evp (p ++ [t]) = evp p + evt t.
  Proof. rewrite evp_app, evp_cons, evp_nil. ring. Qed.

  Lemma evw_cons a e r : evw ((a, e) :: r) = pw (rho a) e * evw r.
  Proof. reflexivity. Qed.

  (* dividing by a non-parameter symbol and finding a constant quotient means the symbol occurred
     with exponent exactly one *)
  Lemma div_pows_sound l x : par x = false -> is_var x = true ->
    forallb par (flat_map (fun p => atom_syms fdeps (fst p)) (div_pows l x)) = true ->
    evw l = evw (div_pows l x) * rho x.
  Proof.
    intros Hx Hv. induction l as [|[a e] r IH]; cbn [div_pows].
    - cbn [flat_map fst forallb]. destruct x; try discriminate. cbn [atom_syms app forallb].
      rewrite Hx. discriminate.
    - destruct (atom_eqb a x) eqn:E.
      + apply atom_eqb_eq in E. subst a. destruct (Z.eqb e 1) eqn:E1.
        * apply Z.eqb_eq in E1. subst e. intros _. rewrite evw_cons, pw_1. ring.
        * cbn [flat_map fst forallb]. destruct x; try discriminate. cbn [atom_syms app forallb].
          rewrite Hx. discriminate.
      + cbn [flat_map fst]. rewrite forallb_app. intros H. apply andb_true_iff in H. destruct H as [_ H].
        rewrite !evw_cons, (IH H). ring.
  Qed.

  Lemma div_atom_sound t x : par x = false -> is_var x = true ->
    is_const fdeps par (div_atom t x) = true -> evt t = evt (div_atom t x) * rho x.
  Proof.
    intros Hx Hv Hc. unfold ev_term, div_atom in *. cbn [coef pows] in *.
    unfold is_const, term_syms in Hc. cbn [pows] in Hc.
    rewrite (div_pows_sound (pows t) x Hx Hv Hc). ring.
  Qed.

  Definition ev_lin (lins : list (poly K)) (xs : list atom) : T :=
    fold_right (fun px acc => evp (fst px) * rho (snd px) + acc) rO (combine lins xs).

  Definition ev_split (xs : list atom) (s : split_res K) : T :=
    ev_lin (lin s) xs + evp (inhom s) + evp (nonlin s).

  Lemma first_lin_spec xs : forall j0 (t : term K) j (q : term K), first_lin fdeps par xs j0 t = Some (j, q) ->
    exists k x, j = (j0 + k)%nat /\ nth_error xs k = Some x /\ q = div_atom t x /\ is_const fdeps par q = true.
  Proof.
    induction xs as [|x r IH]; intros j0 t j q; cbn [first_lin]; [discriminate|].
    destruct (is_const fdeps par (div_atom t x)) eqn:E.
    - intros H; inversion H; subst. exists 0, x. repeat split; [lia|exact E].
    - intros H. destruct (IH _ _ _ _ H) as [k [x' [H1 [H2 [H3 H4]]]]].
      exists (S k), x'. repeat split; [lia|exact H2|exact H3|exact H4].
  Qed.

  Lemma add_at_ev (lins : list (poly K)) : forall xs k x q, length lins = length xs -> nth_error xs k = Some x ->
    ev_lin (add_at lins k q) xs = ev_lin lins xs + evt q * rho x.
  Proof.
    unfold ev_lin. induction lins as [|p lins IH]; intros xs k x q Hl Hn.
    - destruct xs; [destruct k; discriminate|discriminate].
    - destruct xs as [|y xs]; [discriminate|]. destruct k as [|k]; cbn [add_at combine fold_right fst snd].
      + cbn in Hn. inversion Hn; subst. rewrite evp_snoc. ring.
      + cbn in Hn. rewrite (IH xs k x q) by (cbn in Hl; try lia; assumption). ring.
  Qed.

  Lemma add_at_length (lins : list (poly K)) k q : length (add_at lins k q) = length lins.
  Proof. revert k; induction lins as [|p r IH]; intros k; destruct k; cbn; auto. Qed.

  Lemma classify_ev xs acc t :
    (forall x, In x xs -> par x = false /\ is_var x = true) -> length (lin acc) = length xs ->
    ev_split xs (classify fdeps par xs acc t) = ev_split xs acc + evt t
    /\ length (lin (classify fdeps par xs acc t)) = length xs.
  Proof.
    intros Hxs Hl. unfold classify. destruct (is_const fdeps par t) eqn:E.
    - unfold ev_split; cbn [lin inhom nonlin]. rewrite evp_snoc. split; [ring|exact Hl].
    - destruct (first_lin fdeps par xs 0 t) as [[j q]|] eqn:F.
      + destruct (first_lin_spec xs 0 t j q F) as [k [x [H1 [H2 [H3 H4]]]]]. cbn in H1. subst j.
        unfold ev_split; cbn [lin inhom nonlin]. rewrite (add_at_ev (lin acc) xs k x q Hl H2).
        destruct (Hxs x (nth_error_In _ _ H2)) as [Hp Hv].
        subst q. rewrite (div_atom_sound t x Hp Hv H4). split; [ring|rewrite add_at_length; exact Hl].
      + unfold ev_split; cbn [lin inhom nonlin]. rewrite evp_snoc. split; [ring|exact Hl].
  Qed.

  Lemma ev_lin_repeat_nil xs n : ev_lin (repeat [] n) xs = rO.
  Proof.
    unfold ev_lin. revert xs; induction n as [|n IH]; intros xs; cbn [repeat combine fold_right]; [reflexivity|].
    destruct xs as [|x xs]; cbn [combine fold_right fst snd]; [reflexivity|]. rewrite IH. cbn. ring.
  Qed.

  Theorem split_lossless xs p :
    (forall x, In x xs -> par x = false /\ is_var x = true) ->
    ev_split xs (split fdeps par xs p) = evp p /\ length (lin (split fdeps par xs p)) = length xs.
  Proof.
    intros Hxs. unfold split.
    assert (forall acc, length (lin acc) = length xs ->
              ev_split xs (fold_left (classify fdeps par xs) p acc) = ev_split xs acc + evp p
              /\ length (lin (fold_left (classify fdeps par xs) p acc)) = length xs) as G.
    { induction p as [|t p IH]; intros acc Hl; cbn [fold_left].
      - split; [cbn; ring|exact Hl].
      - destruct (classify_ev xs acc t Hxs Hl) as [H1 H2].
        destruct (IH _ H2) as [H3 H4]. split; [|exact H4]. rewrite H3, H1, evp_cons. ring. }
    destruct (G (empty_split (length xs))) as [H1 H2]; [cbn; apply repeat_length|].
    split; [|exact H2]. rewrite H1. unfold ev_split, empty_split; cbn [lin inhom nonlin].
    rewrite ev_lin_repeat_nil. cbn. ring.
  Qed.

  (* the buckets are what they claim to be *)
  Definition buckets_const (s : split_res K) : Prop :=
    Forall (fun t => is_const fdeps par t = true) (inhom s) /\
    Forall (Forall (fun t => is_const fdeps par t = true)) (lin s).

  Lemma add_at_forall (P : term K -> Prop) (lins : list (poly K)) : forall k q, P q -> Forall (Forall P) lins -> Forall (Forall P) (add_at lins k q).
  Proof.
    induction lins as [|p r IH]; intros k q Hq H; destruct k; cbn [add_at]; try exact H.
    - inversion H; subst. constructor; [|assumption]. apply Forall_app. split; [assumption|constructor; [exact Hq|constructor]].
    - inversion H; subst. constructor; [assumption|]. apply IH; assumption.
  Qed.

  Lemma classify_buckets xs acc t : buckets_const acc -> buckets_const (classify fdeps par xs acc t).
  Proof.
    intros [H1 H2]. unfold classify. destruct (is_const fdeps par t) eqn:E.
    - split; cbn [inhom lin]; [|exact H2]. apply Forall_app. split; [exact H1|constructor; [exact E|constructor]].
    - destruct (first_lin fdeps par xs 0 t) as [[j q]|] eqn:F.
      + destruct (first_lin_spec xs 0 t j q F) as [k [x [_ [_ [_ H4]]]]].
        split; cbn [inhom lin]; [exact H1|]. apply add_at_forall; assumption.
      + split; cbn [inhom lin]; assumption.
  Qed.

  Theorem split_buckets xs p : buckets_const (split fdeps par xs p).
  Proof.
    unfold split. assert (buckets_const (empty_split (length xs))) as H0.
    { split; cbn; [constructor|]. induction (length xs); cbn; constructor; [constructor|assumption]. }
    revert H0. generalize (empty_split (K:=K) (length xs)). induction p as [|t p IH]; intros acc H; cbn [fold_left]; [exact H|].
    apply IH. apply classify_buckets. exact H.
  Qed.
End SplitP.
