From Coq Require Import List Bool String Arith ZArith Lia.
From OdeVerif Require Import Model.Term Model.Split Model.System Model.Output Proofs.SplitP.
Import ListNotations.

Section ParamFilterP.
  Variable name : Type.
  Variable name_eqb : name -> name -> bool.
  Hypothesis name_eqb_eq : forall a b, name_eqb a b = true <-> a = b.

  Lemma referred_spec scanned tab p :
    referred name name_eqb scanned tab p = true <-> exists key, In key scanned /\ In p (syms_under name tab key).
  Proof.
    unfold referred. rewrite existsb_exists. split.
    - intros [key [H1 H2]]. exists key. split; [exact H1|]. apply existsb_exists in H2. destruct H2 as [q [Hq1 Hq2]].
      apply name_eqb_eq in Hq2. subst. exact Hq1.
    - intros [key [H1 H2]]. exists key. split; [exact H1|]. apply existsb_exists. exists p. split; [exact H2|]. apply name_eqb_eq. reflexivity.
  Qed.

  Theorem filter_params_spec scanned tab supplied p :
    In p (filter_params name name_eqb scanned tab supplied) <->
    In p supplied /\ exists key, In key scanned /\ In p (syms_under name tab key).
  Proof. unfold filter_params. rewrite filter_In, referred_spec. reflexivity. Qed.
End ParamFilterP.

(* ---- no symbol is invented: every atom of a numeric update expression occurs in the user's
        right-hand sides or is a state variable ---- *)
Section SymbolsP.
  Variable K : Type.
  Variable kone : K.
  Variable fdeps : nat -> list atom.
  Variable par : atom -> bool.

  Definition atoms_in (ok : atom -> Prop) (p : poly K) : Prop := forall a, In a (poly_atoms p) -> ok a.

  Lemma atoms_in_app (ok : atom -> Prop) p q : atoms_in ok p -> atoms_in ok q -> atoms_in ok (p ++ q).
  Proof. unfold atoms_in, poly_atoms. intros Hp Hq a Ha. rewrite flat_map_app in Ha. apply in_app_or in Ha. destruct Ha; auto. Qed.

  Lemma atoms_in_nil (ok : atom -> Prop) : atoms_in ok [].
  Proof. intros a []. Qed.

  Lemma atoms_in_cons (ok : atom -> Prop) t p : atoms_in ok (t :: p) <-> atoms_in ok [t] /\ atoms_in ok p.
  Proof.
    unfold atoms_in, poly_atoms. cbn [flat_map]. rewrite app_nil_r. split.
    - intros H. split; intros a Ha; apply H; apply in_or_app; [left|right]; exact Ha.
    - intros [H1 H2] a Ha. apply in_app_or in Ha. destruct Ha; auto.
  Qed.

  Lemma div_pows_atoms l x a : In a (map fst (div_pows l x)) -> In a (map fst l) \/ a = x.
  Proof.
    induction l as [|[b e] r IH]; cbn [div_pows map fst In].
    - intros [H|[]]. right. congruence.
    - destruct (atom_eqb b x) eqn:E.
      + destruct (Z.eqb e 1); cbn [map fst In]; intros H; [left; right; exact H|left; exact H].
      + cbn [map fst In]. intros [H|H]; [left; left; exact H|]. destruct (IH H); [left; right; assumption|right; assumption].
  Qed.

  Lemma div_atom_atoms (ok : atom -> Prop) (t : term K) x : ok x -> atoms_in ok [t] -> atoms_in ok [div_atom t x].
  Proof.
    unfold atoms_in, poly_atoms, term_atoms. cbn [flat_map]. rewrite !app_nil_r. intros Hx H a Ha.
    unfold div_atom in Ha. cbn [pows] in Ha. destruct (div_pows_atoms _ _ _ Ha) as [H1|H1]; [apply H; exact H1|subst; exact Hx].
  Qed.

  Lemma mulvar_atoms (ok : atom -> Prop) (p : poly K) x : ok x -> atoms_in ok p -> atoms_in ok (mulvar p x).
  Proof.
    unfold atoms_in, poly_atoms, mulvar. intros Hx H a Ha. apply in_flat_map in Ha. destruct Ha as [t' [Ht' Ha]].
    apply in_map_iff in Ht'. destruct Ht' as [t [<- Ht]]. unfold term_atoms, mul_atom in Ha. cbn [pows map fst In] in Ha.
    destruct Ha as [<-|Ha]; [exact Hx|]. apply H. apply in_flat_map. exists t. split; [exact Ht|exact Ha].
  Qed.

  Definition split_atoms_in (ok : atom -> Prop) (s : split_res K) : Prop :=
    atoms_in ok (inhom s) /\ atoms_in ok (nonlin s) /\ Forall (atoms_in ok) (lin s).

  Lemma add_at_atoms (ok : atom -> Prop) (lins : list (poly K)) : forall k q, atoms_in ok [q] -> Forall (atoms_in ok) lins -> Forall (atoms_in ok) (add_at lins k q).
  Proof.
    induction lins as [|p r IH]; intros k q Hq H; destruct k; cbn [add_at]; try exact H; inversion H; subst; constructor; try assumption.
    - apply atoms_in_app; assumption.
    - apply IH; assumption.
  Qed.

  Lemma split_atoms (ok : atom -> Prop) xs (p : poly K) : (forall x, In x xs -> ok x) -> atoms_in ok p -> split_atoms_in ok (split fdeps par xs p).
  Proof.
    intros Hxs. unfold split.
    assert (split_atoms_in ok (empty_split (K:=K) (List.length xs))) as H0.
    { repeat split; try apply atoms_in_nil. cbn. induction (List.length xs); cbn; constructor; [apply atoms_in_nil|assumption]. }
    revert H0. generalize (empty_split (K:=K) (List.length xs)). induction p as [|t p IH]; intros acc Hacc Hp; cbn [fold_left]; [exact Hacc|].
    apply atoms_in_cons in Hp. destruct Hp as [Ht Hp]. apply IH; [|exact Hp].
    destruct Hacc as [A1 [A2 A3]]. unfold classify. destruct (is_const fdeps par t).
    - repeat split; cbn [inhom nonlin lin]; try assumption. apply atoms_in_app; assumption.
    - destruct (first_lin fdeps par xs 0 t) as [[j q]|] eqn:F.
      + destruct (first_lin_spec K fdeps par xs 0 t j q F) as [k [x [_ [H2 [H3 _]]]]].
        repeat split; cbn [inhom nonlin lin]; try assumption. apply add_at_atoms; [|assumption].
        subst q. apply div_atom_atoms; [apply Hxs; eapply nth_error_In; exact H2|exact Ht].
      + repeat split; cbn [inhom nonlin lin]; try assumption. apply atoms_in_app; assumption.
  Qed.

  Lemma pnth_atoms (ok : atom -> Prop) (l : list (poly K)) j : Forall (atoms_in ok) l -> atoms_in ok (pnth l j).
  Proof.
    intros H. unfold pnth. destruct (Nat.lt_ge_cases j (List.length l)) as [Hl|Hl].
    - rewrite Forall_forall in H. apply H. apply nth_In. exact Hl.
    - rewrite nth_overflow by exact Hl. apply atoms_in_nil.
  Qed.

  Lemma flat_map_atoms (ok : atom -> Prop) (g : nat -> poly K) l : (forall j, In j l -> atoms_in ok (g j)) -> atoms_in ok (flat_map g l).
  Proof.
    induction l as [|a l IH]; intros H; cbn [flat_map]; [apply atoms_in_nil|].
    apply atoms_in_app; [apply H; left; reflexivity|apply IH; intros j Hj; apply H; right; exact Hj].
  Qed.

  (* the row of the highest derivative contains only atoms of the user's right-hand side and state variables *)
  Theorem final_row_atoms (ok : atom -> Prop) n sh p : (forall i, ok (AVar i)) -> sh_def sh = ODE p -> atoms_in ok p ->
    let r := final_row K fdeps par n sh in
    Forall (atoms_in ok) (rA r) /\ atoms_in ok (rb r) /\ atoms_in ok (rc r).
  Proof.
    intros Hv Hd Hp. cbv zeta. unfold final_row. cbn [rA rb rc].
    assert (forall x, In x (xs n) -> ok x) as Hxs.
    { intros x Hx. unfold xs in Hx. apply in_map_iff in Hx. destruct Hx as [i [<- _]]. apply Hv. }
    assert (atoms_in ok (reconstitute K sh (level1 K fdeps par n sh))) as Hr.
    { unfold reconstitute, level1. rewrite Hd. cbn [sp_inhom sp_nonlin sp_factors].
      destruct (split_atoms ok (xs n) p Hxs Hp) as [S1 [S2 S3]].
      apply atoms_in_app; [exact S1|]. apply atoms_in_app; [apply atoms_in_app; [exact S2|]|].
      - apply flat_map_atoms. intros j _. destruct (is_local K sh j); [apply atoms_in_nil|].
        apply mulvar_atoms; [apply Hv|apply pnth_atoms; exact S3].
      - apply flat_map_atoms. intros d Hd'. apply in_seq in Hd'. apply mulvar_atoms; [apply Hv|].
        unfold pnth at 1. destruct (Nat.lt_ge_cases d (sh_order sh)) as [Hl|Hl]; [|lia].
        rewrite (nth_indep _ [] (pnth (lin (split fdeps par (xs n) p)) (sh_off sh + 0))) by (rewrite map_length, seq_length; exact Hl).
        rewrite (map_nth (fun d0 => pnth (lin (split fdeps par (xs n) p)) (sh_off sh + d0))), seq_nth by exact Hl.
        apply pnth_atoms. exact S3. }
    destruct (split_atoms ok (xs n) _ Hxs Hr) as [S1 [S2 S3]]. tauto.
  Qed.

  (* and so does the numeric update expression rebuilt from any sub-system row whose entries do *)
  Theorem numeric_update_atoms (ok : atom -> Prop) (s : subsys K) (r : row K) : (forall i, ok (AVar i)) ->
    Forall (atoms_in ok) (rA r) -> atoms_in ok (rb r) -> atoms_in ok (rc r) -> atoms_in ok (numeric_update K s r).
  Proof.
    intros Hv HA Hb Hc. unfold numeric_update. apply atoms_in_app; [|apply atoms_in_app; assumption].
    generalize (sx s) as idx. induction HA as [|p l Hp Hl IH]; intros idx; destruct idx as [|g idx]; cbn [combine flat_map]; try apply atoms_in_nil.
    apply atoms_in_app; [apply mulvar_atoms; [apply Hv|exact Hp]|apply IH].
  Qed.
End SymbolsP.
