(* C10 algebra: in any commutative ring with a family of derivations d_j such that d_j x_k = delta_jk
   and the entries of A and b are d-constant,  d_j ( sum_k A_ik x_k + b_i + c_i ) = A_ij + d_j c_i. *)
From Coq Require Import List Arith Lia Ring.
Import ListNotations.

Section DRing.
  Variable T : Type.
  Variables (rO rI : T) (radd rmul rsub : T -> T -> T) (ropp : T -> T).
  Hypothesis RT : ring_theory rO rI radd rmul rsub ropp (@eq T).
  Add Ring TRing3 : RT.
  Notation "a + b" := (radd a b). Notation "a * b" := (rmul a b).

  Variable d : nat -> T -> T.                                  (* d j = partial derivative w.r.t. x_j *)
  Hypothesis d_add : forall j a b, d j (a + b) = d j a + d j b.
  Hypothesis d_mul : forall j a b, d j (a * b) = d j a * b + a * d j b.
  Hypothesis d_zero : forall j, d j rO = rO.

  Variable n : nat.
  Variable x : nat -> T.
  Hypothesis d_x : forall j k, d j (x k) = if Nat.eqb j k then rI else rO.
  Variable A : nat -> nat -> T.
  Variables b c : nat -> T.
  Hypothesis A_const : forall i k j, d j (A i k) = rO.
  Hypothesis b_const : forall i j, d j (b i) = rO.

  Fixpoint sum (l : list nat) (f : nat -> T) : T := match l with [] => rO | k :: r => f k + sum r f end.

  Lemma d_sum j l f : d j (sum l f) = sum l (fun k => d j (f k)).
  Proof. induction l as [|k l IH]; cbn [sum]; [apply d_zero|]. rewrite d_add, IH. reflexivity. Qed.

  Lemma sum_delta j l (f : nat -> T) : NoDup l ->
    sum l (fun k => if Nat.eqb j k then f k else rO) = if existsb (Nat.eqb j) l then f j else rO.
  Proof.
    induction 1 as [|k l Hnin Hnd IH]; cbn [sum existsb]; [reflexivity|]. rewrite IH.
    destruct (Nat.eqb_spec j k) as [->|Hne]; cbn [orb].
    - replace (existsb (Nat.eqb k) l) with false; [ring|].
      symmetry. apply Bool.not_true_is_false. intros H. apply existsb_exists in H. destruct H as [y [Hy1 Hy2]].
      apply Nat.eqb_eq in Hy2. subst y. contradiction.
    - ring.
  Qed.

  Definition rhs (i : nat) : T := sum (seq 0 n) (fun k => A i k * x k) + b i + c i.

  Theorem jacobian_entry i j : (j < n)%nat -> d j (rhs i) = A i j + d j (c i).
  Proof.
    intros Hj. unfold rhs. rewrite !d_add, d_sum, b_const.
    assert (sum (seq 0 n) (fun k => d j (A i k * x k)) = sum (seq 0 n) (fun k => if Nat.eqb j k then A i k else rO)) as E.
    { clear Hj. induction (seq 0 n) as [|k l IH]; cbn [sum]; [reflexivity|]. rewrite IH, d_mul, A_const, d_x.
      destruct (Nat.eqb j k); ring. }
    rewrite E, (sum_delta j (seq 0 n) (fun k => A i k) (seq_NoDup n 0)).
    replace (existsb (Nat.eqb j) (seq 0 n)) with true; [ring|].
    symmetry. apply existsb_exists. exists j. split; [apply in_seq; lia|apply Nat.eqb_refl].
  Qed.

  (* the defective variant (summing the entries of A without their variables) is NOT the Jacobian:
     its derivative loses the whole linear part *)
  Theorem without_variables_linear_part_is_lost i j :
    d j (sum (seq 0 n) (fun k => A i k) + c i) = d j (c i).
  Proof.
    rewrite d_add, d_sum. replace (sum (seq 0 n) (fun k => d j (A i k))) with rO; [ring|].
    induction (seq 0 n) as [|k l IH]; cbn [sum]; [reflexivity|]. rewrite <- IH, A_const. ring.
  Qed.
End DRing.
