(* The system assembled from the shapes says, row by row, what the user wrote; cutting a
   sub-system and re-assembling the numeric update expression loses nothing.  Any commutative
   ring, any classifier [par] that does not call a state variable a parameter. *)
From Coq Require Import List Bool ZArith Arith Lia Ring.
From OdeVerif Require Import Model.Term Model.Split Model.System Proofs.SplitP.
Import ListNotations.

Lemma filter_all_false {A} (f : A -> bool) l : (forall x, In x l -> f x = false) -> filter f l = [].
Proof.
  induction l as [|a l IH]; intros H; cbn [filter]; [reflexivity|].
  rewrite (H a (or_introl eq_refl)). apply IH. intros x Hx; apply H; right; exact Hx.
Qed.

Lemma filter_all_true {A} (f : A -> bool) l : (forall x, In x l -> f x = true) -> filter f l = l.
Proof.
  induction l as [|a l IH]; intros H; cbn [filter]; [reflexivity|].
  rewrite (H a (or_introl eq_refl)). f_equal. apply IH. intros x Hx; apply H; right; exact Hx.
Qed.

Section SystemP.
  Variable K T : Type.
  Variables (rO rI : T) (radd rmul rsub : T -> T -> T) (ropp : T -> T).
  Hypothesis RT : ring_theory rO rI radd rmul rsub ropp (@eq T).
  Add Ring TRing2 : RT.
  Variable inj : K -> T.
  Variable pw : T -> Z -> T.
  Hypothesis pw_1 : forall a, pw a 1%Z = a.
  Variable rho : atom -> T.
  Variable kone : K.
  Hypothesis inj_one : inj kone = rI.
  Variable fdeps : nat -> list atom.
  Variable par : atom -> bool.
  Hypothesis vars_not_par : forall i, par (AVar i) = false.

  Notation "a + b" := (radd a b). Notation "a * b" := (rmul a b).
  Notation evp := (ev_poly K T rO rI radd rmul inj pw rho).
  Notation evt := (ev_term K T rI rmul inj pw rho).
  Notation ev_lin := (ev_lin K T rO rI radd rmul inj pw rho).
  Notation x_ j := (rho (AVar j)).

  Definition sum_list (l : list nat) (f : nat -> T) : T := fold_right (fun j acc => f j + acc) rO l.

  Lemma sum_list_nil f : sum_list [] f = rO. Proof. reflexivity. Qed.
  Lemma sum_list_cons a l f : sum_list (a :: l) f = f a + sum_list l f. Proof. reflexivity. Qed.

  Lemma sum_list_app l1 l2 f : sum_list (l1 ++ l2) f = sum_list l1 f + sum_list l2 f.
  Proof. induction l1 as [|a l1 IH]; cbn [app]; rewrite ?sum_list_nil, ?sum_list_cons, ?IH; ring. Qed.

  Lemma sum_list_ext l f g : (forall j, In j l -> f j = g j) -> sum_list l f = sum_list l g.
  Proof.
    induction l as [|a l IH]; intros H; [reflexivity|]. rewrite !sum_list_cons, (H a (or_introl eq_refl)), IH; [reflexivity|].
    intros j Hj; apply H; right; exact Hj.
  Qed.

  Lemma sum_list_zero l f : (forall j, In j l -> f j = rO) -> sum_list l f = rO.
  Proof.
    induction l as [|a l IH]; intros H; [reflexivity|]. rewrite sum_list_cons, (H a (or_introl eq_refl)), IH; [ring|].
    intros j Hj; apply H; right; exact Hj.
  Qed.

  Lemma sum_list_split (b : nat -> bool) l f :
    sum_list l f = sum_list l (fun j => if b j then rO else f j) + sum_list (filter b l) f.
  Proof.
    induction l as [|a l IH]; cbn [filter]; [rewrite !sum_list_nil; ring|].
    rewrite !sum_list_cons, IH. destruct (b a); rewrite ?sum_list_cons; ring.
  Qed.

  Lemma sum_list_shift k : forall a off (h : nat -> T),
    sum_list (seq a k) (fun d => h (off + d)%nat) = sum_list (seq (off + a) k) h.
  Proof.
    induction k as [|k IH]; intros a off h; cbn [seq]; [reflexivity|].
    rewrite !sum_list_cons, (IH (S a) off h). replace (off + S a)%nat with (S (off + a)) by lia. reflexivity.
  Qed.

  Lemma evp_flat_map (g : nat -> poly K) l : evp (flat_map g l) = sum_list l (fun j => evp (g j)).
  Proof.
    induction l as [|a l IH]; cbn [flat_map]; [reflexivity|].
    rewrite (evp_app K T rO rI radd rmul rsub ropp RT inj pw rho), IH, sum_list_cons. reflexivity.
  Qed.

  Lemma evt_mul_atom t x : evt (mul_atom t x) = evt t * rho x.
  Proof.
    unfold ev_term, mul_atom. cbn [coef pows].
    change (ev_pows T rI rmul pw rho ((x, 1%Z) :: pows t)) with (pw (rho x) 1 * ev_pows T rI rmul pw rho (pows t)).
    rewrite pw_1. ring.
  Qed.

  Lemma evp_mulvar p x : evp (mulvar p x) = evp p * rho x.
  Proof.
    unfold mulvar. induction p as [|t p IH]; cbn [map].
    - rewrite (evp_nil K T rO rI radd rmul inj pw rho). ring.
    - rewrite !(evp_cons K T rO rI radd rmul inj pw rho), IH, evt_mul_atom. ring.
  Qed.

  Lemma ev_lin_seq (lins : list (poly K)) : forall a,
    ev_lin lins (map AVar (seq a (length lins))) = sum_list (seq 0 (length lins)) (fun j => evp (pnth lins j) * x_ (a + j)%nat).
  Proof.
    unfold SplitP.ev_lin. induction lins as [|p lins IH]; intros a; cbn [length seq map combine fold_right fst snd].
    - reflexivity.
    - rewrite IH. rewrite sum_list_cons. unfold pnth at 2. cbn [nth]. rewrite Nat.add_0_r.
      f_equal. rewrite <- seq_shift. clear IH.
      generalize (seq 0 (length lins)). intros l. induction l as [|j l IHl]; cbn [map]; [reflexivity|].
      rewrite !sum_list_cons, IHl. unfold pnth. cbn [nth]. replace (S a + j)%nat with (a + S j)%nat by lia. reflexivity.
  Qed.

  Lemma sum_mulvar_cond l (b : nat -> bool) (L : nat -> poly K) :
    sum_list l (fun j => evp (if b j then [] else mulvar (L j) (AVar j)))
    = sum_list l (fun j => if b j then rO else evp (L j) * x_ j).
  Proof. apply sum_list_ext. intros j _. destruct (b j); [reflexivity|apply evp_mulvar]. Qed.

  Lemma sum_mulvar_local (L : list (poly K)) off k :
    sum_list (seq 0 k) (fun d => evp (mulvar (pnth (map (fun d0 => pnth L (off + d0)%nat) (seq 0 k)) d) (AVar (off + d)%nat)))
    = sum_list (seq off k) (fun j => evp (pnth L j) * x_ j).
  Proof.
    pose proof (sum_list_shift k 0 off (fun j => evp (pnth L j) * x_ j)) as Sh.
    rewrite Nat.add_0_r in Sh. rewrite <- Sh. clear Sh. apply sum_list_ext. intros d Hd'. apply in_seq in Hd'.
    rewrite evp_mulvar. unfold pnth at 1.
    set (g := fun d0 => pnth L (off + d0)%nat).
    rewrite (nth_indep _ [] (g 0%nat)) by (rewrite map_length, seq_length; lia).
    rewrite map_nth. rewrite seq_nth by lia. reflexivity.
  Qed.

  Definition ev_row (n : nat) (r : row K) : T := ev_lin (rA r) (xs n) + evp (rb r) + evp (rc r).

  Lemma xs_props n x : In x (xs n) -> par x = false /\ is_var x = true.
  Proof. unfold xs. intros H. apply in_map_iff in H. destruct H as [i [<- _]]. split; [apply vars_not_par|reflexivity]. Qed.

  Lemma filter_local n sh : (sh_off sh + sh_order sh <= n)%nat ->
    filter (is_local K sh) (seq 0 n) = seq (sh_off sh) (sh_order sh).
  Proof.
    intros H. unfold is_local.
    assert (exists r, n = sh_off sh + (sh_order sh + r))%nat as [r Hr] by (exists (n - sh_off sh - sh_order sh)%nat; clear - H; lia).
    subst n. clear H.
    rewrite !seq_app, !filter_app. cbn [plus].
    rewrite (filter_all_false _ (seq 0 (sh_off sh))), (filter_all_false _ (seq (sh_off sh + sh_order sh) _)).
    - rewrite app_nil_r. cbn [app]. apply filter_all_true. intros j Hj. apply in_seq in Hj.
      apply andb_true_iff. split; [apply Nat.leb_le|apply Nat.ltb_lt]; lia.
    - intros j Hj. apply in_seq in Hj. apply andb_false_iff. right. apply Nat.ltb_ge. lia.
    - intros j Hj. apply in_seq in Hj. apply andb_false_iff. left. apply Nat.leb_gt. lia.
  Qed.

  Lemma ev_lin_xs (lins : list (poly K)) n : length lins = n ->
    ev_lin lins (xs n) = sum_list (seq 0 n) (fun j => evp (pnth lins j) * x_ j).
  Proof. intros H. subst n. unfold xs. rewrite (ev_lin_seq lins 0). reflexivity. Qed.

  Notation split_ := (split fdeps par).

  (* Shape.reconstitute_expr after Shape.from_ode gives back what the user wrote *)
  Lemma reconstitute_level1 n sh p : sh_def sh = ODE p -> (sh_off sh + sh_order sh <= n)%nat ->
    evp (reconstitute K sh (level1 K fdeps par n sh)) = evp p.
  Proof.
    intros Hd Hn. unfold reconstitute, level1. rewrite Hd. cbn [sp_inhom sp_nonlin sp_factors].
    destruct (split_lossless K T rO rI radd rmul rsub ropp RT inj pw pw_1 rho fdeps par (xs n) p (xs_props n)) as [Hl Hlen].
    set (s := split_ (xs n) p) in *.
    assert (length (lin s) = n) as Hlen' by (rewrite Hlen; unfold xs; rewrite map_length, seq_length; reflexivity).
    rewrite !(evp_app K T rO rI radd rmul rsub ropp RT inj pw rho), !evp_flat_map. cbv beta.
    unfold ev_split in Hl. rewrite (ev_lin_xs (lin s) n Hlen') in Hl. rewrite <- Hl.
    rewrite (sum_list_split (is_local K sh) (seq 0 n) (fun j => evp (pnth (lin s) j) * x_ j)).
    rewrite (filter_local n sh Hn).
    rewrite sum_mulvar_cond, sum_mulvar_local. ring.
  Qed.

  (* ---- rows of the assembled system ---- *)
  Theorem final_row_is_rhs n sh p : sh_def sh = ODE p -> (sh_off sh + sh_order sh <= n)%nat ->
    ev_row n (final_row K fdeps par n sh) = evp p.
  Proof.
    intros Hd Hn. unfold ev_row, final_row. cbn [rA rb rc].
    destruct (split_lossless K T rO rI radd rmul rsub ropp RT inj pw pw_1 rho fdeps par (xs n)
                (reconstitute K sh (level1 K fdeps par n sh)) (xs_props n)) as [Hl _].
    unfold ev_split in Hl. rewrite Hl. apply reconstitute_level1; assumption.
  Qed.

  Theorem final_row_fot n sh fs : sh_def sh = FOT fs ->
    ev_row n (final_row K fdeps par n sh) =
    sum_list (seq 0 (sh_order sh)) (fun d => evp (pnth fs d) * x_ (sh_off sh + d)%nat).
  Proof.
    intros Hd. unfold ev_row, final_row. cbn [rA rb rc].
    destruct (split_lossless K T rO rI radd rmul rsub ropp RT inj pw pw_1 rho fdeps par (xs n)
                (reconstitute K sh (level1 K fdeps par n sh)) (xs_props n)) as [Hl _].
    unfold ev_split in Hl. rewrite Hl. unfold reconstitute, level1. rewrite Hd. cbn [sp_inhom sp_nonlin sp_factors app].
    rewrite evp_flat_map. apply sum_list_ext. intros d _. apply evp_mulvar.
  Qed.

  Lemma sum_list_delta n j (f : nat -> T) : (j < n)%nat ->
    sum_list (seq 0 n) (fun k => if Nat.eqb k j then f k else rO) = f j.
  Proof.
    intros Hj. assert (exists r, n = j + (1 + r))%nat as [r Hr] by (exists (n - j - 1)%nat; clear - Hj; lia).
    subst n. rewrite !seq_app, !sum_list_app. cbn [seq]. rewrite sum_list_cons, sum_list_nil.
    rewrite (sum_list_zero (seq 0 j)), (sum_list_zero (seq _ r)).
    - cbn [plus]. rewrite Nat.eqb_refl. ring.
    - intros k Hk. apply in_seq in Hk. destruct (Nat.eqb_spec k j); [exfalso; clear - Hk e; lia|reflexivity].
    - intros k Hk. apply in_seq in Hk. destruct (Nat.eqb_spec k j); [exfalso; clear - Hk e; lia|reflexivity].
  Qed.

  (* each lower derivative of a higher-order variable is updated by exactly the next-higher one *)
  Theorem lower_row_is_next n sh d : (sh_off sh + d + 1 < n)%nat ->
    ev_row n (lower_row K kone n sh d) = x_ (sh_off sh + d + 1)%nat.
  Proof.
    intros Hn. unfold ev_row, lower_row. cbn [rA rb rc].
    rewrite (ev_lin_xs _ n) by (unfold unit_row; rewrite map_length, seq_length; reflexivity).
    rewrite (sum_list_ext _ _ (fun k => if Nat.eqb k (sh_off sh + d + 1) then x_ k else rO)).
    - rewrite sum_list_delta by exact Hn. rewrite (evp_nil K T rO rI radd rmul inj pw rho). ring.
    - intros k Hk. apply in_seq in Hk. unfold pnth, unit_row.
      set (g := fun k0 => if Nat.eqb k0 (sh_off sh + d + 1) then [mkTerm kone []] else @nil (term K)).
      rewrite (nth_indep _ [] (g 0%nat)) by (rewrite map_length, seq_length; clear - Hk; lia).
      rewrite map_nth, seq_nth by (clear - Hk; lia). unfold g. cbn [plus].
      destruct (Nat.eqb k (sh_off sh + d + 1)).
      + rewrite (evp_cons K T rO rI radd rmul inj pw rho), (evp_nil K T rO rI radd rmul inj pw rho).
        unfold ev_term. cbn [coef pows ev_pows fold_right]. rewrite inj_one. ring.
      + rewrite (evp_nil K T rO rI radd rmul inj pw rho). ring.
  Qed.

  (* ---- sub-systems and the numeric update expression ---- *)
  Definition ev_sub_row (s : subsys K) (r : row K) : T := ev_lin (rA r) (map AVar (sx s)) + evp (rb r) + evp (rc r).

  Lemma ev_lin_map (h : nat -> poly K) idx :
    ev_lin (map h idx) (map AVar idx) = sum_list idx (fun g => evp (h g) * x_ g).
  Proof.
    unfold SplitP.ev_lin. induction idx as [|g idx IH]; cbn [map combine fold_right fst snd]; [reflexivity|].
    rewrite IH, sum_list_cons. reflexivity.
  Qed.

  Theorem sub_row_lossless n (sys : list (row K)) keep i : (i < n)%nat -> keep i = true ->
    length (rA (nth i sys (mkRow [] [] []))) = n ->
    let s := sub_system K n sys keep in
    let r' := (let r := nth i sys (mkRow [] [] []) in
               mkRow (map (fun j => pnth (rA r) j) (sx s)) (rb r)
                     (rc r ++ flat_map (fun j => if keep j then [] else mulvar (pnth (rA r) j) (AVar j)) (seq 0 n))) in
    In r' (srows s) /\ ev_sub_row s r' = ev_row n (nth i sys (mkRow [] [] [])).
  Proof.
    intros Hi Hk Hlen s r'. split.
    - unfold s, sub_system. cbn [srows sx]. apply in_map_iff. exists i. split; [reflexivity|].
      apply filter_In. split; [apply in_seq; clear - Hi; lia|exact Hk].
    - unfold ev_sub_row, ev_row, r'. cbn [rA rb rc]. unfold s, sub_system. cbn [sx].
      rewrite ev_lin_map, (ev_lin_xs _ n Hlen).
      rewrite (evp_app K T rO rI radd rmul rsub ropp RT inj pw rho), evp_flat_map. cbv beta.
      rewrite sum_mulvar_cond.
      rewrite (sum_list_split keep (seq 0 n) (fun j => evp (pnth (rA (nth i sys (mkRow [] [] []))) j) * x_ j)).
      ring.
  Qed.

  Theorem numeric_update_is_row (s : subsys K) (r : row K) : evp (numeric_update K s r) = ev_sub_row s r.
  Proof.
    unfold numeric_update, ev_sub_row. rewrite !(evp_app K T rO rI radd rmul rsub ropp RT inj pw rho).
    assert (evp (flat_map (fun pg => mulvar (fst pg) (AVar (snd pg))) (combine (rA r) (sx s)))
            = ev_lin (rA r) (map AVar (sx s))) as E.
    { unfold SplitP.ev_lin. generalize (rA r) as l. generalize (sx s) as idx.
      induction idx as [|g idx IH]; intros l; destruct l as [|p l]; cbn [map combine flat_map fold_right fst snd];
        try reflexivity.
      rewrite (evp_app K T rO rI radd rmul rsub ropp RT inj pw rho), evp_mulvar, IH. reflexivity. }
    rewrite E. ring.
  Qed.
End SystemP.
