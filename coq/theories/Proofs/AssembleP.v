(* Glue: the rows of from_shapes are, at the expected indices, the per-shape rows the C02 theorems
   speak about (lower derivative rows, then the row of the highest derivative). *)
From Coq Require Import List Bool ZArith Arith Lia.
From OdeVerif Require Import Model.Term Model.Split Model.System.
Import ListNotations.

Section Assemble.
  Variable K : Type.
  Variable kone : K.
  Variable fdeps : nat -> list atom.
  Variable par : atom -> bool.

  (* entries follow each other in the state vector: each shape starts where the previous one ends *)
  Fixpoint wf_from (off : nat) (shapes : list (shape K)) : Prop :=
    match shapes with
    | [] => True
    | sh :: r => sh_off sh = off /\ 1 <= sh_order sh /\ wf_from (off + sh_order sh) r
    end.

  Lemma shape_rows_length n (sh : shape K) : 1 <= sh_order sh -> length (shape_rows K kone fdeps par n sh) = sh_order sh.
  Proof. intros H. unfold shape_rows. rewrite app_length, map_length, seq_length. cbn [length]. lia. Qed.

  Lemma shape_rows_lower n (sh : shape K) d dflt : d + 1 < sh_order sh ->
    nth d (shape_rows K kone fdeps par n sh) dflt = lower_row K kone n sh d.
  Proof.
    intros H. unfold shape_rows. rewrite app_nth1 by (rewrite map_length, seq_length; lia).
    rewrite (nth_indep _ dflt (lower_row K kone n sh 0)) by (rewrite map_length, seq_length; lia).
    change (fun d0 => mkRow (unit_row K kone n (sh_off sh + d0 + 1)) [] []) with (lower_row K kone n sh).
    rewrite (map_nth (lower_row K kone n sh) (seq 0 (sh_order sh - 1)) 0 d), seq_nth by lia. reflexivity.
  Qed.

  Lemma shape_rows_final n (sh : shape K) dflt : 1 <= sh_order sh ->
    nth (sh_order sh - 1) (shape_rows K kone fdeps par n sh) dflt = final_row K fdeps par n sh.
  Proof.
    intros H. unfold shape_rows. rewrite app_nth2 by (rewrite map_length, seq_length; lia).
    rewrite map_length, seq_length. replace (sh_order sh - 1 - (sh_order sh - 1)) with 0 by lia. reflexivity.
  Qed.

  Lemma wf_from_offset off shapes sh : wf_from off shapes -> In sh shapes -> off <= sh_off sh.
  Proof.
    revert off. induction shapes as [|s0 r IH]; intros off Hwf Hin; [destruct Hin|].
    destruct Hwf as [H0 [H1 H2]]. destruct Hin as [<-|Hin]; [lia|]. specialize (IH _ H2 Hin). lia.
  Qed.

  Theorem from_shapes_row n shapes : forall off, wf_from off shapes -> forall sh d dflt, In sh shapes -> d < sh_order sh ->
    nth (sh_off sh + d - off) (from_shapes K kone fdeps par n shapes) dflt = nth d (shape_rows K kone fdeps par n sh) dflt.
  Proof.
    induction shapes as [|s0 r IH]; intros off Hwf sh d dflt Hin Hd; [destruct Hin|].
    destruct Hwf as [H0 [H1 H2]]. unfold from_shapes. cbn [flat_map]. fold (from_shapes K kone fdeps par n r).
    destruct Hin as [<-|Hin].
    - rewrite H0. replace (off + d - off) with d by lia. apply app_nth1. rewrite shape_rows_length by exact H1. exact Hd.
    - pose proof (wf_from_offset _ _ _ H2 Hin) as Hoff.
      rewrite app_nth2 by (rewrite shape_rows_length by exact H1; lia).
      rewrite shape_rows_length by exact H1.
      replace (sh_off sh + d - off - sh_order s0) with (sh_off sh + d - (off + sh_order s0)) by lia.
      apply IH; assumption.
  Qed.

  (* the row of x_(off+d) in the assembled system *)
  Corollary system_row_lower n shapes sh d dflt : wf_from 0 shapes -> In sh shapes -> d + 1 < sh_order sh ->
    nth (sh_off sh + d) (from_shapes K kone fdeps par n shapes) dflt = lower_row K kone n sh d.
  Proof.
    intros Hwf Hin Hd. pose proof (from_shapes_row n shapes 0 Hwf sh d dflt Hin ltac:(lia)) as H.
    rewrite Nat.sub_0_r in H. rewrite H. apply shape_rows_lower. exact Hd.
  Qed.

  Corollary system_row_final n shapes sh dflt : wf_from 0 shapes -> In sh shapes -> 1 <= sh_order sh ->
    nth (sh_off sh + (sh_order sh - 1)) (from_shapes K kone fdeps par n shapes) dflt = final_row K fdeps par n sh.
  Proof.
    intros Hwf Hin Ho. pose proof (from_shapes_row n shapes 0 Hwf sh (sh_order sh - 1) dflt Hin ltac:(lia)) as H.
    rewrite Nat.sub_0_r in H. rewrite H. apply shape_rows_final. exact Ho.
  Qed.
End Assemble.
