(* C06: the verdict depends on the dependency graph up to relabelling of the nodes. *)
From Coq Require Import List Bool Arith Lia.
From OdeVerif Require Import Model.Graph Proofs.GraphP.
Import ListNotations.

Section Relabel.
  Variable pi : nat -> nat.                         (* relabelling of the nodes (e.g. a permutation of the entries) *)
  Hypothesis pi_inj : forall a b, pi a = pi b -> a = b.

  Definition relabel (E : list edge) : list edge := map (fun e => (pi (fst e), pi (snd e))) E.

  Lemma dep_relabel E a b : dep (relabel E) (pi a) (pi b) <-> dep E a b.
  Proof.
    unfold dep, relabel. rewrite in_map_iff. split.
    - intros [[x y] [H1 H2]]. cbn in H1. inversion H1. apply pi_inj in H0, H3. subst. exact H2.
    - intros H. exists (a, b). split; [reflexivity|exact H].
  Qed.

  Lemma dep_relabel_image E a' b' : dep (relabel E) a' b' -> exists a b, a' = pi a /\ b' = pi b /\ dep E a b.
  Proof.
    unfold dep, relabel. rewrite in_map_iff. intros [[x y] [H1 H2]]. cbn in H1. inversion H1; subst. exists x, y. tauto.
  Qed.

  Lemma reach_relabel E v w : reach E v w -> reach (relabel E) (pi v) (pi w).
  Proof.
    induction 1 as [v|a b c Hd Hr IH]; [constructor|]. eapply reach_step; [apply dep_relabel; exact Hd|exact IH].
  Qed.

  Lemma reach_relabel_inv E v w' : reach (relabel E) (pi v) w' -> exists w, w' = pi w /\ reach E v w.
  Proof.
    intros H. remember (pi v) as v' eqn:Ev. revert v Ev. induction H as [x|a' b' c' Hd Hr IH]; intros v Ev; subst.
    - exists v. split; [reflexivity|constructor].
    - destruct (dep_relabel_image E _ _ Hd) as [a [b [Ea [Eb Hd']]]]. apply pi_inj in Ea. subst a b'.
      destruct (IH b eq_refl) as [w [Ew Hw]]. exists w. split; [exact Ew|]. eapply reach_step; eassumption.
  Qed.

  (* the worklist result is equivariant: relabelled graph + relabelled initial marking give the
     relabelled result, whatever the queues and fuels of the two runs (if both complete) *)
  Theorem worklist_equivariant E (m0 m0' : mark) fuel fuel' q q' m m' :
    (forall v, m0' (pi v) = m0 v) ->
    (forall a b, dep E a b -> m0 b = false -> In b q) ->
    (forall a b, dep (relabel E) a b -> m0' b = false -> In b q') ->
    propagate fuel E m0 q = Some m -> propagate fuel' (relabel E) m0' q' = Some m' ->
    forall v, m' (pi v) = m v.
  Proof.
    intros Hm Hq Hq' H H' v.
    pose proof (worklist_is_gfp E m0 fuel q m Hq H v) as G.
    pose proof (worklist_is_gfp (relabel E) m0' fuel' q' m' Hq' H' (pi v)) as G'.
    assert (m' (pi v) = true <-> m v = true) as Hiff.
    { rewrite G, G'. split.
      - intros Hall w Hw. rewrite <- Hm. apply Hall. apply reach_relabel. exact Hw.
      - intros Hall w' Hw'. destruct (reach_relabel_inv E v w' Hw') as [w [-> Hw]]. rewrite Hm. apply Hall. exact Hw. }
    clear G G'. destruct (m v); destruct (m' (pi v)); try reflexivity.
    - apply (proj2 Hiff). reflexivity.
    - symmetry. apply (proj1 Hiff). reflexivity.
  Qed.
End Relabel.
