(* Each state variable x^(k) is returned with exactly the value the user listed under the key with k
   primes - whatever the order of the keys. *)
From Coq Require Import List Arith Bool Ascii Lia Permutation.
From OdeVerif Require Import Model.InputCheck Model.InitialValues Proofs.InputCheckP.
Import ListNotations.

Section IVP.
  Variable V : Type.

  Lemma get_none o (l : list (nat * V)) : get o l = None <-> ~ In o (map fst l).
  Proof.
    induction l as [|[o' v] r IH]; cbn [get map fst In]; [tauto|].
    destruct (get o r) eqn:G.
    - split; [discriminate|]. intros H. exfalso. apply H. right.
      destruct (in_dec Nat.eq_dec o (map fst r)) as [Hi|Hn]; [exact Hi|]. apply IH in Hn. congruence.
    - destruct (Nat.eqb_spec o' o) as [->|Hne].
      + split; [discriminate|]. intros H. exfalso. apply H. left. reflexivity.
      + split; [|reflexivity]. intros _ [H|H]; [contradiction|]. apply (proj1 IH eq_refl H).
  Qed.

  Lemma get_in_nodup o v (l : list (nat * V)) : NoDup (map fst l) -> In (o, v) l -> get o l = Some v.
  Proof.
    induction l as [|[o' v'] r IH]; intros Hnd Hin; [destruct Hin|].
    cbn [map fst] in Hnd. inversion Hnd as [|? ? Hni Hnd']; subst. cbn [get].
    destruct Hin as [Heq|Hin].
    - inversion Heq; subst. assert (get o r = None) as G by (apply get_none; exact Hni). rewrite G, Nat.eqb_refl. reflexivity.
    - rewrite (IH Hnd' Hin). reflexivity.
  Qed.

  Lemma get_some_in o v (l : list (nat * V)) : get o l = Some v -> In (o, v) l.
  Proof.
    induction l as [|[o' v'] r IH]; cbn [get]; [discriminate|].
    destruct (get o r) eqn:G.
    - intros H. inversion H; subst. right. apply IH. reflexivity.
    - destruct (Nat.eqb_spec o' o) as [->|]; [|discriminate]. intros H. inversion H; subst. left. reflexivity.
  Qed.

  Lemma stored_fst (kvs : list (str * V)) : map fst (stored kvs) = map (count prime) (map fst kvs).
  Proof. unfold stored. rewrite !map_map. reflexivity. Qed.

  (* the orders of an accepted key list are exactly 0 .. order-1 *)
  Lemma accepted_orders_cover (sym : str) order (keys : list str) :
    List.length keys = order -> (forall key, In key keys -> good_key sym order key) -> NoDup (map (count prime) keys) ->
    forall k, k < order -> In k (map (count prime) keys).
  Proof.
    intros Hl Hg Hnd k Hk.
    assert (Permutation (map (count prime) keys) (seq 0 order)) as P.
    { apply NoDup_Permutation_bis; [exact Hnd|rewrite seq_length, map_length; lia|].
      intros o Ho. apply in_map_iff in Ho. destruct Ho as [key [<- Hin]]. apply in_seq. destruct (Hg key Hin) as [_ H]. lia. }
    apply (Permutation_in _ (Permutation_sym P)). apply in_seq. lia.
  Qed.

  (* by name: the value returned for x^(k) is the one listed under the key with k primes *)
  Theorem output_by_name (sym : str) order (kvs : list (str * V)) :
    List.length kvs = order -> (forall key, In key (map fst kvs) -> good_key sym order key) -> NoDup (map (count prime) (map fst kvs)) ->
    List.length (output_ivs order kvs) = order /\
    forall k, k < order -> exists key v, In (key, v) kvs /\ count prime key = k /\ nth k (output_ivs order kvs) None = Some v
                                        /\ (forall key' v', In (key', v') kvs -> count prime key' = k -> (key', v') = (key, v)).
  Proof.
    intros Hl Hg Hnd. split; [unfold output_ivs; rewrite map_length, seq_length; reflexivity|].
    intros k Hk.
    assert (In k (map (count prime) (map fst kvs))) as Hin by (apply (accepted_orders_cover sym order); [rewrite map_length; exact Hl|exact Hg|exact Hnd|exact Hk]).
    rewrite map_map in Hin. apply in_map_iff in Hin. destruct Hin as [[key v] [Hc Hin]]. cbn [fst] in Hc.
    exists key, v. split; [exact Hin|]. split; [exact Hc|]. split.
    - unfold output_ivs. rewrite (nth_indep _ None (get order (stored kvs))) by (rewrite map_length, seq_length; exact Hk).
      rewrite (map_nth (fun k0 => get k0 (stored kvs)) (seq 0 order) order k), seq_nth by exact Hk. cbn [plus].
      apply get_in_nodup; [rewrite stored_fst; exact Hnd|].
      unfold stored. apply in_map_iff. exists (key, v). split; [cbn [fst snd]; rewrite Hc; reflexivity|exact Hin].
    - intros key' v' Hin' Hc'.
      (* two entries with the same number of primes contradict NoDup *)
      assert (get k (stored kvs) = Some v) as G1.
      { apply get_in_nodup; [rewrite stored_fst; exact Hnd|]. unfold stored. apply in_map_iff. exists (key, v). split; [cbn [fst snd]; rewrite Hc; reflexivity|exact Hin]. }
      clear G1.
      revert Hnd Hin Hin' Hc Hc'. clear. induction kvs as [|[k0 v0] r IH]; intros Hnd Hin Hin'; [destruct Hin|].
      cbn [map fst] in Hnd. inversion Hnd as [|? ? Hni Hnd']; subst. intros Hc Hc'.
      destruct Hin as [E1|Hin], Hin' as [E2|Hin'].
      + congruence.
      + inversion E1; subst. exfalso. apply Hni. rewrite map_map. apply in_map_iff. exists (key', v'). split; [cbn [fst]; congruence|exact Hin'].
      + inversion E2; subst. exfalso. apply Hni. rewrite map_map. apply in_map_iff. exists (key, v). split; [cbn [fst]; congruence|exact Hin].
      + apply (IH Hnd' Hin Hin' Hc Hc').
  Qed.

  (* the order in which the user lists the keys does not matter *)
  Theorem output_order_irrelevant order (kvs kvs' : list (str * V)) :
    Permutation kvs kvs' -> NoDup (map (count prime) (map fst kvs)) -> output_ivs order kvs = output_ivs order kvs'.
  Proof.
    intros P Hnd. unfold output_ivs. apply map_ext. intros k.
    assert (Permutation (stored kvs) (stored kvs')) as PS by (unfold stored; apply Permutation_map; exact P).
    assert (NoDup (map fst (stored kvs))) as N1 by (rewrite stored_fst; exact Hnd).
    assert (NoDup (map fst (stored kvs'))) as N2 by (apply (Permutation_NoDup (Permutation_map fst PS)); exact N1).
    destruct (get k (stored kvs)) as [v|] eqn:G.
    - symmetry. apply get_in_nodup; [exact N2|]. apply (Permutation_in _ PS). apply get_some_in. exact G.
    - symmetry. apply get_none. intros Hin. apply (proj1 (get_none k (stored kvs)) G).
      apply (Permutation_in _ (Permutation_sym (Permutation_map fst PS))). exact Hin.
  Qed.
End IVP.
