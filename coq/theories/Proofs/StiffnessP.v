From Coq Require Import List Bool String Arith.
From OdeVerif Require Import Model.Stiffness.
Import ListNotations.

Lemma gen_eqb_eq a b : gen_eqb a b = true <-> a = b.
Proof. destruct a, b; cbn; split; intros; congruence. Qed.

Lemma gen_in_In g l : gen_in g l = true <-> In g l.
Proof.
  unfold gen_in. rewrite existsb_exists. split.
  - intros [x [H1 H2]]. apply gen_eqb_eq in H2. subst. exact H1.
  - intros H. exists g. split; [exact H|]. apply gen_eqb_eq. reflexivity.
Qed.

Section Fair.
  Variable rng : Type.
  Variable seeded_state : nat -> rng.
  Variable train : Type.
  Variable spikes : world rng -> train.
  Variables seeded drawn : list gen.
  (* spike generation depends on the generators it draws from only *)
  Hypothesis reads_only_drawn :
    forall w w' : world rng, (forall g, In g drawn -> w g = w' g) -> spikes w = spikes w'.
  Hypothesis drawn_are_seeded : subset drawn seeded = true.

  (* whatever happened before (another candidate's benchmark, an earlier analysis, the user's own
     use of the generators), a candidate's spike train is a function of the seed alone *)
  Lemma train_depends_on_seed_only s (w w' : world rng) :
    candidate_train rng seeded_state train spikes seeded s w =
    candidate_train rng seeded_state train spikes seeded s w'.
  Proof.
    unfold candidate_train. apply reads_only_drawn. intros g Hg. unfold reseed.
    unfold subset in drawn_are_seeded. rewrite forallb_forall in drawn_are_seeded.
    rewrite (drawn_are_seeded g Hg). reflexivity.
  Qed.
End Fair.

Lemma solver_name_prefix rec : exists suf, solver_name rec = ("numeric" ++ suf)%string
                                           /\ (match rec with None => suf = ""%string | Some r => suf = ("-" ++ r)%string end).
Proof. destruct rec as [r|]; cbn; eexists; split; reflexivity. Qed.
