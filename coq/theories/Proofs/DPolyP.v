(* The formal derivative of Model/Jacobian.v (the model's stand-in for sympy.diff on the nonlinear
   part) is a derivative: for every polynomial whose monomials mention the variable at most once,
   the meaning of dpoly p x is d(meaning of p), in any commutative ring with a derivation d for which
   d(x) = 1, the other atoms and the coefficients are d-constant and d(a^e) = e a^(e-1) d(a). *)
From Coq Require Import List Bool ZArith Arith Lia Ring.
From OdeVerif Require Import Model.Term Model.Jacobian Proofs.SplitP.
Import ListNotations.

Section DPoly.
  Variable K T : Type.
  Variables (rO rI : T) (radd rmul rsub : T -> T -> T) (ropp : T -> T).
  Hypothesis RT : ring_theory rO rI radd rmul rsub ropp (@eq T).
  Add Ring TRing6 : RT.
  Notation "a + b" := (radd a b). Notation "a * b" := (rmul a b).
  Variable inj : K -> T.
  Variable pw : T -> Z -> T.
  Variable rho : atom -> T.
  Variable kscale : Z -> K -> K.
  Variable zinj : Z -> T.                                  (* integers in the ring *)
  Hypothesis inj_kscale : forall e c, inj (kscale e c) = zinj e * inj c.
  Hypothesis pw_0 : forall a, pw a 0%Z = rI.

  Variable x : atom.
  Variable d : T -> T.
  Hypothesis d_add : forall a b, d (a + b) = d a + d b.
  Hypothesis d_mul : forall a b, d (a * b) = d a * b + a * d b.
  Hypothesis d_zero : d rO = rO.
  Hypothesis d_one : d rI = rO.
  Hypothesis d_inj : forall c, d (inj c) = rO.
  Hypothesis d_x : d (rho x) = rI.
  Hypothesis d_other : forall a, a <> x -> d (rho a) = rO.
  Hypothesis d_pw : forall a e, d (pw a e) = zinj e * pw a (e - 1)%Z * d a.

  Notation evp := (ev_poly K T rO rI radd rmul inj pw rho).
  Notation evt := (ev_term K T rI rmul inj pw rho).
  Notation evw := (ev_pows T rI rmul pw rho).

  Definition occurs_once (l : list (atom * Z)) : Prop := (length (filter (fun p => atom_eqb (fst p) x) l) <= 1)%nat.

  Lemma evw_cons' a e r : evw ((a, e) :: r) = pw (rho a) e * evw r.
  Proof. reflexivity. Qed.

  Lemma d_evw_absent l : filter (fun p => atom_eqb (fst p) x) l = [] -> d (evw l) = rO.
  Proof.
    induction l as [|[a e] r IH]; intros H; [exact d_one|]. cbn [filter fst] in H.
    destruct (atom_eqb a x) eqn:E; [discriminate|]. rewrite evw_cons', d_mul, (IH H), d_pw.
    rewrite d_other; [ring|]. intros ->. assert (atom_eqb x x = true) by (apply atom_eqb_eq; reflexivity). congruence.
  Qed.

  Lemma dpows_spec l : occurs_once l ->
    match dpows l x with
    | Some (e, l') => d (evw l) = zinj e * evw l'
    | None => d (evw l) = rO
    end.
  Proof.
    unfold occurs_once. induction l as [|[a e] r IH]; intros H; cbn [dpows]; [exact d_one|].
    cbn [filter fst] in H. destruct (atom_eqb a x) eqn:E.
    - apply atom_eqb_eq in E. subst a. cbn [length] in H.
      assert (filter (fun p => atom_eqb (fst p) x) r = []) as Hr by (destruct (filter _ r); [reflexivity|cbn in H; lia]).
      rewrite evw_cons', d_mul, (d_evw_absent r Hr), d_pw, d_x.
      destruct (Z.eqb_spec e 1) as [->|Hne].
      + change (1 - 1)%Z with 0%Z. rewrite pw_0. ring.
      + rewrite evw_cons'. ring.
    - specialize (IH H). rewrite evw_cons', d_mul, d_pw.
      assert (a <> x) as Hax by (intros ->; assert (atom_eqb x x = true) by (apply atom_eqb_eq; reflexivity); congruence).
      rewrite (d_other a Hax). destruct (dpows r x) as [[e' r']|].
      + rewrite IH, evw_cons'. ring.
      + rewrite IH. ring.
  Qed.

  Lemma dterm_spec (t : term K) : occurs_once (pows t) -> evp (dterm K kscale t x) = d (evt t).
  Proof.
    intros H. unfold dterm, ev_term. rewrite d_mul, d_inj. pose proof (dpows_spec (pows t) H) as S.
    destruct (dpows (pows t) x) as [[e l]|].
    - rewrite (evp_cons K T rO rI radd rmul inj pw rho), (evp_nil K T rO rI radd rmul inj pw rho). unfold ev_term. cbn [coef pows].
      rewrite inj_kscale, S. ring.
    - rewrite (evp_nil K T rO rI radd rmul inj pw rho), S. ring.
  Qed.

  Theorem dpoly_is_derivative (p : poly K) : Forall (fun t => occurs_once (pows t)) p -> evp (dpoly K kscale p x) = d (evp p).
  Proof.
    induction 1 as [|t p Ht Hp IH]; unfold dpoly; cbn [flat_map].
    - rewrite (evp_nil K T rO rI radd rmul inj pw rho). symmetry. exact d_zero.
    - rewrite (evp_app K T rO rI radd rmul rsub ropp RT inj pw rho), (evp_cons K T rO rI radd rmul inj pw rho), d_add.
      fold (dpoly K kscale p x). rewrite IH, (dterm_spec t Ht). reflexivity.
  Qed.
End DPoly.
