(* Proofs about Model/MixedInt.v: time advances strictly and reaches the requested duration; in
   precise mode every spike before the end is applied exactly once at its own time; in aliased mode at
   the first grid boundary not before it. *)
From Coq Require Import ZArith List Bool Lia Sorted.
From OdeVerif Require Import Model.MixedInt.
Import ListNotations.
Open Scope Z_scope.

Section MixedP.
  Variable St : Type.
  Variable enforce : St -> St * bool.
  Variable bump : mvar -> St -> St.
  Variable alias : bool.
  Variable sim max_step : Z.

  Notation mstate := (mstate St).
  Notation inner := (inner St enforce max_step).
  Notation outer_step := (outer_step St enforce bump alias sim max_step).
  Notation outer := (outer St enforce bump alias sim max_step).
  Notation m_t := (m_t St). Notation m_log := (m_log St). Notation m_applied := (m_applied St).

  Definition times (s : mstate) : list Z := map fst (m_log s).

  Definition log_ok (s : mstate) : Prop :=
    StronglySorted Z.lt (times s) /\ Forall (fun t => t <= m_t s) (times s) /\ In (m_t s) (times s).

  Lemma sorted_snoc l m x : StronglySorted Z.lt l -> Forall (fun t => t <= m) l -> m < x -> StronglySorted Z.lt (l ++ [x]).
  Proof.
    induction l as [|a l IH]; intros Hs Hf Hx; cbn [app].
    - constructor; constructor.
    - inversion Hs as [|? ? Hs' Hall]; subst. inversion Hf as [|? ? Ha Hf']; subst.
      constructor; [apply IH; assumption|]. apply Forall_app. split; [exact Hall|]. constructor; [lia|constructor].
  Qed.

  Lemma set_last_times (log : list (Z * St)) y : map fst (set_last St log y) = map fst log.
  Proof.
    unfold set_last. destruct (rev log) as [|[t x] r] eqn:E.
    - apply (f_equal (@rev _)) in E. rewrite rev_involutive in E. subst. reflexivity.
    - apply (f_equal (@rev _)) in E. rewrite rev_involutive in E. cbn [rev] in E. subst log.
      rewrite !map_app. reflexivity.
  Qed.

  (* ---- the inner loop ---- *)
  Lemma inner_stop tt (s : mstate) (ans : list (answer St)) : tt <= m_t s ->
    (m_t s < tt -> m_t s = tt) /\ (tt <= m_t s -> s = s /\ ans = ans) /\ m_t s <= m_t s /\
    (log_ok s -> log_ok s) /\ m_applied s = m_applied s /\ (exists l, times s = times s ++ l /\ Forall (fun t => m_t s < t) l).
  Proof.
    intros H. split; [lia|]. split; [tauto|]. split; [lia|]. split; [tauto|]. split; [reflexivity|].
    exists []. rewrite app_nil_r. split; [reflexivity|constructor].
  Qed.

  Lemma inner_spec ans : forall tt s ans' s', inner ans tt s = inl (Some (ans', s')) ->
    (m_t s < tt -> m_t s' = tt) /\ (tt <= m_t s -> s' = s /\ ans' = ans) /\ m_t s <= m_t s' /\
    (log_ok s -> log_ok s') /\ m_applied s' = m_applied s /\ (exists l, times s' = times s ++ l /\ Forall (fun t => m_t s < t) l).
  Proof.
    induction ans as [|a ans IH]; intros tt s ans' s' H; cbn [MixedInt.inner] in H.
    - destruct (m_t s <? tt) eqn:E; [discriminate|]. inversion H; subst. apply Z.ltb_ge in E. apply inner_stop. exact E.
    - destruct (m_t s <? tt) eqn:E.
      2:{ inversion H; subst. apply Z.ltb_ge in E. apply inner_stop. exact E. }
      apply Z.ltb_lt in E.
      destruct ((m_t s <? a_t St a) && (a_t St a <=? Z.min (m_t s + max_step) tt)) eqn:Ec; [|discriminate].
      apply andb_true_iff in Ec. destruct Ec as [E1 E2]. apply Z.ltb_lt in E1. apply Z.leb_le in E2.
      destruct (enforce (a_y St a)) as [y' cr].
      set (s1 := {| MixedInt.m_t := a_t St a; m_y := y'; MixedInt.m_log := m_log s ++ [(a_t St a, y')];
                    m_crossed := m_crossed St s || cr; MixedInt.m_applied := m_applied s |}) in *.
      destruct (IH tt s1 ans' s' H) as [I1 [I2 [I3 [I4 [I5 [l [I6 I7]]]]]]].
      assert (a_t St a <= tt) as Hle by lia.
      split; [|split; [|split; [|split; [|split]]]].
      + intros _. destruct (Z.eq_dec (a_t St a) tt) as [e|ne].
        * destruct (I2 ltac:(cbn; lia)) as [-> _]. exact e.
        * apply I1. cbn. lia.
      + intros Hge. lia.
      + cbn in I3. lia.
      + intros [L1 [L2 L3]]. apply I4. unfold log_ok, times. cbn [MixedInt.m_log MixedInt.m_t s1]. rewrite map_app. cbn [map fst].
        split; [apply (sorted_snoc _ (m_t s)); assumption|]. split.
        * apply Forall_app. split; [|constructor; [lia|constructor]]. eapply Forall_impl; [|exact L2]. cbn. intros; lia.
        * apply in_or_app. right. left. reflexivity.
      + exact I5.
      + exists (a_t St a :: l). split.
        * rewrite I6. unfold times. cbn [MixedInt.m_log s1]. rewrite map_app, <- app_assoc. reflexivity.
        * constructor; [exact E1|]. eapply Forall_impl; [|exact I7]. cbn. intros; lia.
  Qed.

  (* ---- precise mode ---- *)
  Definition ev_sorted (evs : list mevent) : Prop := StronglySorted (fun a b => fst a < fst b) evs.
  Definition triple (e : mevent) : Z * Z * list mvar := (fst e, fst e, snd e).
  Definition before_end (e : mevent) : bool := fst e <? sim.

  Definition prec_inv (evs0 evs : list mevent) (s : mstate) : Prop :=
    log_ok s /\ m_t s <= sim /\
    exists processed, evs0 = processed ++ evs /\ m_applied s = map triple (filter before_end processed) /\
      (m_t s < sim -> Forall (fun e => m_t s < fst e) evs) /\
      (m_t s = sim -> Forall (fun e => sim <= fst e) evs).

  Lemma precise_step evs0 ans evs s ans' evs' s' : alias = false -> ev_sorted evs -> (forall e, In e evs0 -> snd e <> []) ->
    prec_inv evs0 evs s -> m_t s < sim -> outer_step ans evs s = Next St ans' evs' s' ->
    prec_inv evs0 evs' s' /\ ev_sorted evs'.
  Proof.
    intros Ha Hs Hne [Hlog [Hle [processed [Hp [Happ [Hfut Hpast]]]]]] Hlt H.
    unfold MixedInt.outer_step in H. rewrite Ha in H.
    destruct (precise_target sim evs) as [[[t_target sp_time] syms] evs1] eqn:Et.
    destruct (inner ans t_target s) as [[[ans1 s1]|]|] eqn:Ei; try discriminate.
    inversion H; subst ans' evs' s'; clear H.
    destruct (inner_spec ans t_target s ans1 s1 Ei) as [I1 [I2 [I3 [I4 [I5 _]]]]].
    specialize (Hfut Hlt).
    unfold precise_target in Et. destruct evs as [|[sp vs] r].
    - (* no event left: run to the end *)
      injection Et as E_a E_b E_c E_d; subst t_target sp_time syms evs1. split; [|constructor].
      unfold prec_inv. cbn [MixedInt.m_t MixedInt.m_applied MixedInt.m_log].
      assert (m_t s1 = sim) as E1 by (apply I1; exact Hlt).
      split; [|split; [lia|]].
      + destruct (I4 Hlog) as [L1 [L2 L3]]. unfold log_ok, times in *. cbn [MixedInt.m_log MixedInt.m_t]. rewrite set_last_times. tauto.
      + exists processed. rewrite app_nil_r in *. split; [exact Hp|]. split; [rewrite I5; exact Happ|]. split; [lia|intros _; constructor].
    - destruct (StronglySorted_inv Hs) as [Hs' Hall]. pose proof (Forall_inv Hfut) as Hsp. cbn [fst] in Hsp.
      destruct (sim <=? sp) eqn:Ecmp; injection Et as E_a E_b E_c E_d; subst t_target sp_time syms evs1.
      + (* the next spike is not before the end: run to the end, the spike is dropped *)
        apply Z.leb_le in Ecmp. split; [|exact Hs'].
        assert (m_t s1 = sim) as E1 by (apply I1; exact Hlt).
        unfold prec_inv. cbn [MixedInt.m_t MixedInt.m_applied MixedInt.m_log]. split; [|split; [lia|]].
        * destruct (I4 Hlog) as [L1 [L2 L3]]. unfold log_ok, times in *. cbn [MixedInt.m_log MixedInt.m_t]. rewrite set_last_times. tauto.
        * exists (processed ++ [(sp, vs)]). rewrite <- app_assoc. split; [exact Hp|]. split.
          -- rewrite I5, filter_app. cbn [filter]. unfold before_end at 2. cbn [fst].
             replace (sp <? sim) with false by (symmetry; apply Z.ltb_ge; lia). rewrite app_nil_r. exact Happ.
          -- split; [lia|]. intros _. rewrite Forall_forall in *. intros e He. specialize (Hall e He). cbn [fst] in Hall. lia.
      + (* a spike before the end: run exactly to its time and apply it there *)
        apply Z.leb_gt in Ecmp. split; [|exact Hs'].
        assert (m_t s1 = sp) as E1 by (apply I1; exact Hsp).
        assert (vs <> []) as Hvs.
        { apply (Hne (sp, vs)). rewrite Hp. apply in_or_app. right. left. reflexivity. }
        unfold prec_inv. cbn [MixedInt.m_t MixedInt.m_applied MixedInt.m_log]. split; [|split; [lia|]].
        * destruct (I4 Hlog) as [L1 [L2 L3]]. unfold log_ok, times in *. cbn [MixedInt.m_log MixedInt.m_t]. rewrite set_last_times. tauto.
        * exists (processed ++ [(sp, vs)]). rewrite <- app_assoc. split; [exact Hp|]. split.
          -- destruct vs as [|v vs']; [contradiction|]. rewrite I5, filter_app, map_app. cbn [filter]. unfold before_end at 2. cbn [fst].
             replace (sp <? sim) with true by (symmetry; apply Z.ltb_lt; lia). cbn [map]. unfold triple at 2. cbn [fst snd].
             rewrite E1, Happ. reflexivity.
          -- split.
             ++ intros _. rewrite E1. rewrite Forall_forall in *. intros e He. apply (Hall e He).
             ++ intros Hx. lia.
  Qed.

  Lemma outer_precise fuel : forall evs0 ans evs s sf, alias = false -> ev_sorted evs -> (forall e, In e evs0 -> snd e <> []) ->
    prec_inv evs0 evs s -> outer fuel ans evs s = Done St sf ->
    log_ok sf /\ m_t sf = sim /\ m_applied sf = map triple (filter before_end evs0).
  Proof.
    induction fuel as [|f IH]; intros evs0 ans evs s sf Ha Hs Hne Hinv H; cbn [MixedInt.outer] in H; [discriminate|].
    destruct (m_t s <? sim) eqn:E.
    - apply Z.ltb_lt in E. destruct (outer_step ans evs s) as [ans' evs' s'| |] eqn:Es; try discriminate.
      destruct (precise_step evs0 ans evs s ans' evs' s' Ha Hs Hne Hinv E Es) as [Hinv' Hs'].
      exact (IH evs0 ans' evs' s' sf Ha Hs' Hne Hinv' H).
    - inversion H; subst sf. apply Z.ltb_ge in E.
      destruct Hinv as [Hlog [Hle [processed [Hp [Happ [Hfut Hpast]]]]]].
      assert (m_t s = sim) as Et by lia. split; [exact Hlog|]. split; [exact Et|].
      rewrite Happ, Hp, filter_app. 
      assert (filter before_end evs = []) as En.
      { specialize (Hpast Et). clear - Hpast. induction evs as [|e r IHr]; [reflexivity|].
        inversion Hpast as [|? ? He Hr]; subst. cbn [filter]. unfold before_end at 1.
        replace (fst e <? sim) with false by (symmetry; apply Z.ltb_ge; exact He). apply IHr. exact Hr. }
      rewrite En, app_nil_r. reflexivity.
  Qed.

  Lemma filter_processed_rest (f : mevent -> bool) processed evs :
    (forall e, In e processed -> f e = true) -> (forall e, In e evs -> f e = false) -> filter f (processed ++ evs) = processed.
  Proof.
    intros H1 H2. rewrite filter_app.
    assert (filter f processed = processed) as E1.
    { clear H2. induction processed as [|e l IH]; cbn [filter]; [reflexivity|]. rewrite (H1 e (or_introl eq_refl)). f_equal. apply IH. intros x Hx. apply H1. right. exact Hx. }
    assert (filter f evs = []) as E2.
    { clear H1. induction evs as [|e l IH]; cbn [filter]; [reflexivity|]. rewrite (H2 e (or_introl eq_refl)). apply IH. intros x Hx. apply H2. right. exact Hx. }
    rewrite E1, E2, app_nil_r. reflexivity.
  Qed.

  (* ---- aliased mode ---- *)
  Notation apply_due := (apply_due St bump).

  Lemma apply_due_spec evs : ev_sorted evs -> forall t y acc evs' y' acc', apply_due evs t y acc = (evs', y', acc') ->
    exists due, evs = due ++ evs' /\ Forall (fun e => fst e <= t) due /\ Forall (fun e => t < fst e) evs' /\
                acc' = acc ++ map (fun e => (t, fst e, snd e)) due /\ ev_sorted evs'.
  Proof.
    induction evs as [|[sp vs] r IH]; intros Hs t y acc evs' y' acc' H; cbn [MixedInt.apply_due] in H.
    - inversion H; subst. exists []. repeat split; try constructor. rewrite app_nil_r. reflexivity.
    - destruct (StronglySorted_inv Hs) as [Hs' Hall]. destruct (sp <=? t) eqn:E.
      + apply Z.leb_le in E. destruct (IH Hs' _ _ _ _ _ _ H) as [due [D1 [D2 [D3 [D4 D5]]]]].
        exists ((sp, vs) :: due). cbn [app]. split; [rewrite D1; reflexivity|]. split; [constructor; [exact E|exact D2]|].
        split; [exact D3|]. split; [|exact D5]. rewrite D4, <- app_assoc. reflexivity.
      + apply Z.leb_gt in E. inversion H; subst. exists []. cbn [app map]. rewrite app_nil_r.
        split; [reflexivity|]. split; [constructor|]. split; [|split; [reflexivity|exact Hs]].
        constructor; [exact E|]. rewrite Forall_forall in *. intros e He. specialize (Hall e He). cbn [fst] in Hall. lia.
  Qed.

  Definition pair_of (x : Z * Z * list mvar) : mevent := (snd (fst x), snd x).
  Definition at_first_boundary (x : Z * Z * list mvar) : Prop := snd (fst x) <= fst (fst x) /\ fst (fst x) - max_step < snd (fst x).

  Definition alias_inv (evs0 evs : list mevent) (s : mstate) : Prop :=
    log_ok s /\ exists processed, evs0 = processed ++ evs /\ map pair_of (m_applied s) = processed /\
      Forall at_first_boundary (m_applied s) /\ Forall (fun e => fst e <= m_t s) processed /\ Forall (fun e => m_t s < fst e) evs.

  Lemma alias_step evs0 ans evs s ans' evs' s' : alias = true -> 0 < max_step -> ev_sorted evs ->
    alias_inv evs0 evs s -> outer_step ans evs s = Next St ans' evs' s' ->
    alias_inv evs0 evs' s' /\ ev_sorted evs' /\ m_t s' = m_t s + max_step.
  Proof.
    intros Ha Hms Hs [Hlog [processed [Hp [Happ [Hfb [Hpast Hfut]]]]]] H.
    unfold MixedInt.outer_step in H. rewrite Ha in H.
    destruct (inner ans (m_t s + max_step) s) as [[[ans1 s1]|]|] eqn:Ei; try discriminate.
    destruct (inner_spec ans (m_t s + max_step) s ans1 s1 Ei) as [I1 [I2 [I3 [I4 [I5 _]]]]].
    assert (m_t s1 = m_t s + max_step) as E1 by (apply I1; lia).
    destruct (apply_due evs (m_t s1) (m_y St s1) (m_applied s1)) as [[evs1 y1] acc1] eqn:Ed.
    inversion H; subst ans' evs' s'; clear H.
    destruct (apply_due_spec evs Hs _ _ _ _ _ _ Ed) as [due [D1 [D2 [D3 [D4 D5]]]]].
    split; [|split; [exact D5|cbn [MixedInt.m_t]; exact E1]].
    unfold alias_inv. cbn [MixedInt.m_t MixedInt.m_applied MixedInt.m_log]. split.
    - destruct (I4 Hlog) as [L1 [L2 L3]]. unfold log_ok, times in *. cbn [MixedInt.m_log MixedInt.m_t]. rewrite set_last_times. tauto.
    - exists (processed ++ due). split; [rewrite Hp, D1, app_assoc; reflexivity|]. split.
      + rewrite D4, I5, map_app, Happ. f_equal. rewrite map_map. clear. induction due as [|[a b] due IH]; cbn; [reflexivity|]. rewrite IH. reflexivity.
      + split; [|split].
        * rewrite D4, I5. apply Forall_app. split; [exact Hfb|]. apply Forall_forall. intros x Hx. apply in_map_iff in Hx.
          destruct Hx as [e [<- He]]. unfold at_first_boundary. cbn [fst snd]. rewrite Forall_forall in D2. specialize (D2 e He).
          assert (In e evs) as Hin by (rewrite D1; apply in_or_app; left; exact He).
          rewrite Forall_forall in Hfut. specialize (Hfut e Hin). lia.
        * apply Forall_app. split; [|exact D2]. eapply Forall_impl; [|exact Hpast]. cbn. intros; lia.
        * exact D3.
  Qed.

  Lemma outer_alias fuel : forall evs0 ans evs s sf, alias = true -> 0 < max_step -> ev_sorted evs ->
    alias_inv evs0 evs s -> outer fuel ans evs s = Done St sf ->
    log_ok sf /\ sim <= m_t sf /\ Forall at_first_boundary (m_applied sf) /\
    map pair_of (m_applied sf) = filter (fun e => fst e <=? m_t sf) evs0.
  Proof.
    induction fuel as [|f IH]; intros evs0 ans evs s sf Ha Hms Hs Hinv H; cbn [MixedInt.outer] in H; [discriminate|].
    destruct (m_t s <? sim) eqn:E.
    - destruct (outer_step ans evs s) as [ans' evs' s'| |] eqn:Es; try discriminate.
      destruct (alias_step evs0 ans evs s ans' evs' s' Ha Hms Hs Hinv Es) as [Hinv' [Hs' _]].
      exact (IH evs0 ans' evs' s' sf Ha Hms Hs' Hinv' H).
    - inversion H; subst sf. apply Z.ltb_ge in E.
      destruct Hinv as [Hlog [processed [Hp [Happ [Hfb [Hpast Hfut]]]]]].
      split; [exact Hlog|]. split; [exact E|]. split; [exact Hfb|].
      rewrite Happ, Hp. symmetry. apply filter_processed_rest.
      + rewrite Forall_forall in Hpast. intros e He. apply Z.leb_le. apply Hpast. exact He.
      + rewrite Forall_forall in Hfut. intros e He. apply Z.leb_gt. apply Hfut. exact He.
  Qed.

  (* ---- from the initial state ---- *)
  Notation integrate := (integrate St enforce bump alias sim max_step).

  Lemma init_log_ok init : log_ok {| MixedInt.m_t := 0; m_y := init; MixedInt.m_log := [(0, init)]; m_crossed := false; MixedInt.m_applied := [] |}.
  Proof. unfold log_ok, times. cbn. split; [repeat constructor|]. split; [constructor; [lia|constructor]|left; reflexivity]. Qed.

  Theorem precise_run events init ans sf : alias = false -> 0 <= sim -> ev_sorted events ->
    Forall (fun e => 0 < fst e) events -> (forall e, In e events -> snd e <> []) ->
    integrate events init ans = Done St sf ->
    log_ok sf /\ m_t sf = sim /\ m_applied sf = map triple (filter before_end events).
  Proof.
    intros Ha Hsim Hs Hpos Hne H. unfold MixedInt.integrate in H.
    eapply (outer_precise _ events ans events _ sf Ha Hs Hne); [|exact H].
    unfold prec_inv. cbn [MixedInt.m_t MixedInt.m_applied]. split; [apply init_log_ok|]. split; [exact Hsim|].
    exists []. cbn [app filter map]. split; [reflexivity|]. split; [reflexivity|]. split; [intros _; exact Hpos|].
    intros Hz. eapply Forall_impl; [|exact Hpos]. cbn. intros; lia.
  Qed.

  Theorem alias_run events init ans sf : alias = true -> 0 < max_step -> ev_sorted events ->
    Forall (fun e => 0 < fst e) events -> integrate events init ans = Done St sf ->
    log_ok sf /\ sim <= m_t sf /\ Forall at_first_boundary (m_applied sf) /\
    map pair_of (m_applied sf) = filter (fun e => fst e <=? m_t sf) events.
  Proof.
    intros Ha Hms Hs Hpos H. unfold MixedInt.integrate in H.
    eapply (outer_alias _ events ans events _ sf Ha Hms Hs); [|exact H].
    unfold alias_inv. cbn [MixedInt.m_t MixedInt.m_applied]. split; [apply init_log_ok|].
    exists []. cbn [app map]. split; [reflexivity|]. split; [reflexivity|]. split; [constructor|]. split; [constructor|exact Hpos].
  Qed.
End MixedP.
