From Coq Require Import List Bool Arith Ascii String Lia.
From OdeVerif Require Import Model.InputCheck Model.Cli Proofs.InputCheckP.
Import ListNotations.

(* ---- file names ---- *)
Lemma all_rev f s : all f s -> all f (rev s).
Proof. unfold all. rewrite !forallb_forall. intros H c Hc. apply H. apply in_rev. exact Hc. Qed.

Lemma basename_of_dir_name dir name : all (fun c => negb (ch_eqb c slash)) name ->
  basename (dir ++ [slash] ++ name) = name /\ basename name = name.
Proof.
  intros H. unfold basename. split.
  - rewrite !rev_app_distr. cbn [rev app]. rewrite <- app_assoc. cbn [app].
    rewrite (take_while_app_all _ (rev name) _ (all_rev _ _ H)). rewrite take_while_stop; [rewrite app_nil_r; apply rev_involutive|].
    unfold ch_eqb. rewrite Ascii.eqb_refl. reflexivity.
  - rewrite <- (app_nil_r (rev name)). rewrite (take_while_app_all _ (rev name) [] (all_rev _ _ H)). cbn. rewrite !app_nil_r. apply rev_involutive.
Qed.

Lemma drop_while_rev_ext stem ext : all (fun c => negb (ch_eqb c dot)) ext ->
  drop_while (fun c => negb (ch_eqb c dot)) (rev (stem ++ [dot] ++ ext)) = dot :: rev stem.
Proof.
  intros H. rewrite !rev_app_distr. cbn [rev app]. rewrite <- app_assoc. cbn [app].
  rewrite (drop_while_app_all _ (rev ext) _ (all_rev _ _ H)). cbn [drop_while]. unfold ch_eqb. rewrite Ascii.eqb_refl. reflexivity.
Qed.

Lemma drop_while_none f s : all f s -> drop_while f s = [].
Proof. intros H. rewrite <- (app_nil_r s). rewrite (drop_while_app_all f s [] H). reflexivity. Qed.

(* stem.ext -> stem   (the stem contains a character other than '.', it may contain further dots) *)
Lemma splitext_stem_ext stem ext : all (fun c => negb (ch_eqb c dot)) ext ->
  forallb (fun c => ch_eqb c dot) stem = false -> splitext_stem (stem ++ [dot] ++ ext) = stem.
Proof.
  intros H Hs. unfold splitext_stem. rewrite (drop_while_rev_ext stem ext H).
  assert (forallb (fun c => ch_eqb c dot) (rev stem) = false) as E.
  { destruct (forallb (fun c => ch_eqb c dot) (rev stem)) eqn:E; [|reflexivity].
    assert (forallb (fun c => ch_eqb c dot) stem = true); [|congruence].
    rewrite forallb_forall in *. intros c Hc. apply E. apply -> in_rev. exact Hc. }
  rewrite E. apply rev_involutive.
Qed.

(* a name without any dot is its own stem *)
Lemma splitext_stem_noext name : all (fun c => negb (ch_eqb c dot)) name -> splitext_stem name = name.
Proof. intros H. unfold splitext_stem. rewrite (drop_while_none _ _ (all_rev _ _ H)). reflexivity. Qed.

(* ---- command line ---- *)
Inductive item := IDsc | IDas | IPe (names : list string) | ILl (v : string).

Definition render_item (i : item) : list string :=
  match i with
  | IDsc => ["--disable-stiffness-check"%string]
  | IDas => ["--disable-analytic-solver"%string]
  | IPe names => "--preserve-expressions"%string :: names
  | ILl v => ["--log-level"%string; v]
  end.

Definition apply_item (a : cli_args) (i : item) : cli_args :=
  match i with
  | IDsc => set_dsc a
  | IDas => set_das a
  | IPe [] => set_pe PBare a
  | IPe names => set_pe (PNames names) a
  | ILl v => set_ll v a
  end.

Definition item_ok (i : item) : Prop :=
  match i with
  | IPe names => forall n, In n names -> is_option n = false
  | ILl v => is_option v = false
  | _ => True
  end.

(* between items the parser is either in normal mode or still collecting names; an option token is
   treated alike in both *)
Definition ready (m : mode) : Prop := m = MNormal \/ m = MNames.

Lemma names_step names : forall a first, (forall n, In n names -> is_option n = false) ->
  fold_left tok_step names (MNames, set_pe (match first with [] => PBare | _ => PNames first end) a)
  = (MNames, set_pe (match first ++ names with [] => PBare | _ => PNames (first ++ names) end) a).
Proof.
  induction names as [|n names IH]; intros a first H; cbn [fold_left].
  - rewrite app_nil_r. reflexivity.
  - cbn [tok_step]. rewrite (H n (or_introl eq_refl)).
    assert (add_name n (set_pe (match first with [] => PBare | _ => PNames first end) a)
            = set_pe (match first ++ [n] with [] => PBare | _ => PNames (first ++ [n]) end) a) as E.
    { unfold add_name, set_pe. cbn. destruct first as [|f r]; cbn; reflexivity. }
    rewrite E. rewrite (IH a (first ++ [n])) by (intros x Hx; apply H; right; exact Hx).
    rewrite <- app_assoc. reflexivity.
Qed.

Lemma item_step i : item_ok i -> forall m a, ready m ->
  exists m', ready m' /\ fold_left tok_step (render_item i) (m, a) = (m', apply_item a i).
Proof.
  intros Hok m a Hm. destruct i as [| |names|v]; cbn [render_item fold_left].
  - exists MNormal. split; [left; reflexivity|]. destruct Hm as [->| ->]; reflexivity.
  - exists MNormal. split; [left; reflexivity|]. destruct Hm as [->| ->]; reflexivity.
  - exists MNames. split; [right; reflexivity|].
    assert (tok_step (m, a) "--preserve-expressions"%string = (MNames, set_pe PBare a)) as E by (destruct Hm as [->| ->]; reflexivity).
    rewrite E. pose proof (names_step names a [] Hok) as N. cbn [app] in N. rewrite N.
    destruct names; reflexivity.
  - exists MNormal. split; [left; reflexivity|].
    assert (tok_step (m, a) "--log-level"%string = (MLevel, a)) as E by (destruct Hm as [->| ->]; reflexivity).
    rewrite E. cbn [tok_step]. cbn [item_ok] in Hok. rewrite Hok. reflexivity.
Qed.

Theorem parse_items infile items : is_option infile = false -> (forall i, In i items -> item_ok i) ->
  parse_argv (infile :: List.concat (map render_item items)) = Some (fold_left apply_item items (init_args infile)).
Proof.
  intros Hin Hok. unfold parse_argv. rewrite Hin.
  assert (forall m a, ready m -> exists m', ready m' /\
            fold_left tok_step (List.concat (map render_item items)) (m, a) = (m', fold_left apply_item items a)) as G.
  { induction items as [|i items IH]; intros m a Hm; cbn [map List.concat fold_left].
    - exists m. split; [exact Hm|reflexivity].
    - rewrite fold_left_app. destruct (item_step i (Hok i (or_introl eq_refl)) m a Hm) as [m1 [Hm1 E1]]. rewrite E1.
      apply IH; [intros j Hj; apply Hok; right; exact Hj|exact Hm1]. }
  destruct (G MNormal (init_args infile) (or_introl eq_refl)) as [m' [Hm' E]]. rewrite E.
  destruct Hm' as [->| ->]; reflexivity.
Qed.

(* ---- the run ---- *)
Theorem run_standard_steps (R : Type) (isfile json_ok : bool) (outcome : analysis_outcome R) :
  run_steps R isfile json_ok outcome [CheckIsFile; LoadJson; Analyse; WriteResult] None =
  match isfile, json_ok, outcome with
  | true, true, Result r => (true, Some r)
  | _, _, _ => (false, None)
  end.
Proof. destruct isfile, json_ok, outcome; reflexivity. Qed.
