From Coq Require Import List Bool ZArith QArith Qcanon Lia.
From OdeVerif Require Import Base.Corr Model.Singularity.
Import ListNotations.

Section Collect.
  Variable fn : nat -> Qc -> Qc.
  Variable rho : nat -> Qc.
  Notation ev := (eval fn rho).

  Lemma qc_eqb_zero v : qc_eqb v (Q2Qc 0) = true <-> v = Q2Qc 0.
  Proof.
    unfold qc_eqb. split.
    - intros H. apply Qeq_bool_iff in H. apply Qc_is_canon. exact H.
    - intros ->. reflexivity.
  Qed.

  Lemma binop_undefined (f : Qc -> Qc -> Qc) (va vb : option Qc) (x y : list ex) :
    (va = None <-> exists d, In d x /\ ev d = Some (Q2Qc 0)) ->
    (vb = None <-> exists d, In d y /\ ev d = Some (Q2Qc 0)) ->
    (match va, vb with Some p, Some q => Some (f p q) | _, _ => None end = None <-> exists d, In d (x ++ y) /\ ev d = Some (Q2Qc 0)).
  Proof.
    intros Ha Hb. split.
    - intros H. destruct va as [p|].
      + destruct vb as [q|]; [discriminate|]. destruct (proj1 Hb eq_refl) as [d [Hin Hz]]. exists d. split; [apply in_or_app; right; exact Hin|exact Hz].
      + destruct (proj1 Ha eq_refl) as [d [Hin Hz]]. exists d. split; [apply in_or_app; left; exact Hin|exact Hz].
    - intros [d [Hin Hz]]. apply in_app_or in Hin. destruct Hin as [Hin|Hin].
      + rewrite (proj2 Ha (ex_intro _ d (conj Hin Hz))). reflexivity.
      + rewrite (proj2 Hb (ex_intro _ d (conj Hin Hz))). destruct va; reflexivity.
  Qed.

  (* an expression is undefined at rho exactly when one of the collected denominators vanishes there
     (the innermost undefined power has a defined base that evaluates to zero) *)
  Theorem undefined_iff_denominator_vanishes e : forall ds, denoms e = Some ds ->
    (ev e = None <-> exists d, In d ds /\ ev d = Some (Q2Qc 0)).
  Proof.
    induction e as [q|s|a IHa b IHb|a IHa b IHb|b IHb z|b IHb e IHe|f a IHa]; intros ds Hd; cbn [denoms] in Hd.
    - inversion Hd; subst. cbn. split; [discriminate|intros [d [[] _]]].
    - inversion Hd; subst. cbn. split; [discriminate|intros [d [[] _]]].
    - destruct (denoms a) as [x|]; [|discriminate]. destruct (denoms b) as [y|]; [|discriminate]. inversion Hd; subst.
      cbn [eval]. apply binop_undefined; [apply IHa; reflexivity|apply IHb; reflexivity].
    - destruct (denoms a) as [x|]; [|discriminate]. destruct (denoms b) as [y|]; [|discriminate]. inversion Hd; subst.
      cbn [eval]. apply binop_undefined; [apply IHa; reflexivity|apply IHb; reflexivity].
    - destruct (denoms b) as [x|]; [|discriminate]. inversion Hd; subst. specialize (IHb x eq_refl). cbn [eval].
      destruct (ev b) as [v|] eqn:Eb.
      + destruct (z <? 0)%Z eqn:Ez; cbn [andb].
        * destruct (qc_eqb v (Q2Qc 0)) eqn:Ev.
          -- apply qc_eqb_zero in Ev. subst v. split; [intros _; exists b; split; [left; reflexivity|exact Eb]|reflexivity].
          -- split; [discriminate|]. intros [d [[<-|Hin] Hz]].
             ++ rewrite Eb in Hz. inversion Hz; subst. rewrite (proj2 (qc_eqb_zero _) eq_refl) in Ev. discriminate.
             ++ discriminate (proj2 IHb (ex_intro _ d (conj Hin Hz))).
        * split; [discriminate|]. intros [d [Hin Hz]]. discriminate (proj2 IHb (ex_intro _ d (conj Hin Hz))).
      + split; [|reflexivity]. intros _. destruct (proj1 IHb eq_refl) as [d [Hin Hz]]. exists d. split; [|exact Hz].
        destruct (z <? 0)%Z; [right|]; exact Hin.
    - discriminate.
    - specialize (IHa ds Hd). cbn [eval]. destruct (ev a) as [v|].
      + split; [discriminate|]. intros H. discriminate (proj2 IHa H).
      + split; [intros _; apply (proj1 IHa eq_refl)|reflexivity].
  Qed.
End Collect.

(* ---- de-duplication keeps exactly the conditions that were found, each once ---- *)
Lemma ex_eqb_eq x : forall y, ex_eqb x y = true <-> x = y.
Proof.
  induction x as [q|s|a IHa b IHb|a IHa b IHb|b IHb z|b IHb e IHe|f a IHa]; intros y; destruct y; cbn [ex_eqb];
    try (split; [discriminate|intros H; discriminate H]).
  - unfold qc_eqb. split; [intros H; apply Qeq_bool_iff in H; f_equal; apply Qc_is_canon; exact H|intros H; inversion H; subst; apply Qeq_bool_iff; reflexivity].
  - rewrite Nat.eqb_eq. split; intros H; [f_equal; exact H|inversion H; reflexivity].
  - rewrite andb_true_iff, IHa, IHb. split; [intros [-> ->]; reflexivity|intros H; inversion H; tauto].
  - rewrite andb_true_iff, IHa, IHb. split; [intros [-> ->]; reflexivity|intros H; inversion H; tauto].
  - rewrite andb_true_iff, IHb, Z.eqb_eq. split; [intros [-> ->]; reflexivity|intros H; inversion H; tauto].
  - rewrite andb_true_iff, IHb, IHe. split; [intros [-> ->]; reflexivity|intros H; inversion H; tauto].
  - rewrite andb_true_iff, Nat.eqb_eq, IHa. split; [intros [-> ->]; reflexivity|intros H; inversion H; tauto].
Qed.

Lemma cond_eqb_eq (a : cond) : forall b, cond_eqb a b = true <-> a = b.
Proof.
  unfold cond_eqb. induction a as [|[s e] a IH]; intros [|[t f] b]; cbn [list_eqb]; try (split; [discriminate|intros H; discriminate H]); [tauto|].
  rewrite !andb_true_iff, Nat.eqb_eq. cbn [fst snd]. rewrite ex_eqb_eq, IH.
  split; [intros [[-> ->] ->]; reflexivity|intros H; inversion H; tauto].
Qed.

Lemma dedup_spec l : forall seen c, In c (dedup l seen) <-> In c l /\ ~ In c seen.
Proof.
  induction l as [|x l IH]; intros seen c; cbn [dedup In]; [tauto|].
  destruct (existsb (cond_eqb x) seen) eqn:E.
  - apply existsb_exists in E. destruct E as [y [Hy Hxy]]. apply cond_eqb_eq in Hxy. subst y.
    rewrite IH. split; [tauto|]. intros [[->|H] Hn]; [contradiction|tauto].
  - assert (~ In x seen) as Hx.
    { intros Hin. assert (existsb (cond_eqb x) seen = true); [|congruence]. apply existsb_exists. exists x. split; [exact Hin|apply cond_eqb_eq; reflexivity]. }
    cbn [In]. rewrite IH, in_app_iff. cbn [In]. split.
    + intros [<-|[H1 H2]]; [tauto|]. tauto.
    + intros [[<-|H] Hn]; [left; reflexivity|]. destruct (cond_eqb x c) eqn:Exc.
      * apply cond_eqb_eq in Exc. left. exact Exc.
      * right. split; [exact H|]. intros [Hs|[Hs|[]]]; [contradiction|]. subst. rewrite (proj2 (cond_eqb_eq c c) eq_refl) in Exc. discriminate.
Qed.

Lemma dedup_nodup l : forall seen, NoDup (dedup l seen).
Proof.
  induction l as [|x l IH]; intros seen; cbn [dedup]; [constructor|].
  destruct (existsb (cond_eqb x) seen); [apply IH|]. constructor; [|apply IH].
  intros H. apply dedup_spec in H. destruct H as [_ H]. apply H. apply in_or_app. right. left. reflexivity.
Qed.

(* ---- the report ---- *)
Section Report.
  Variable solve : ex -> option (list cond).
  Variable a_defined : cond -> bool.

  Lemma solve_all_spec ds cs : solve_all solve ds = Some cs ->
    forall c, In c cs <-> exists d sol, In d ds /\ solve d = Some sol /\ In c sol.
  Proof.
    revert cs. induction ds as [|d r IH]; intros cs H c; cbn [solve_all] in H.
    - inversion H; subst. split; [intros []|intros [d [sol [[] _]]]].
    - destruct (solve d) as [sol|] eqn:Es; [|discriminate]. destruct (solve_all solve r) as [cs'|]; [|discriminate]. inversion H; subst.
      rewrite in_app_iff, (IH cs' eq_refl c). split.
      + intros [Hc|[d' [sol' [H1 [H2 H3]]]]]; [exists d, sol; split; [left; reflexivity|split; assumption]|exists d', sol'; split; [right; exact H1|split; assumption]].
      + intros [d' [sol' [[<-|H1] [H2 H3]]]]; [left; rewrite Es in H2; inversion H2; subst; exact H3|right; exists d', sol'; tauto].
  Qed.

  Lemma gen_conditions_spec P cs : gen_conditions solve P = Some cs ->
    forall c, In c cs <-> exists e ds d sol, In e P /\ denoms e = Some ds /\ In d ds /\ solve d = Some sol /\ In c sol.
  Proof.
    revert cs. induction P as [|e r IH]; intros cs H c; cbn [gen_conditions] in H.
    - inversion H; subst. split; [intros []|intros [e [ds [d [sol [[] _]]]]]].
    - destruct (denoms e) as [ds|] eqn:Ed; [|discriminate]. destruct (solve_all solve ds) as [c1|] eqn:Es; [|discriminate].
      destruct (gen_conditions solve r) as [c2|]; [|discriminate]. inversion H; subst.
      rewrite in_app_iff, (solve_all_spec ds c1 Es c), (IH c2 eq_refl c). split.
      + intros [[d [sol [H1 [H2 H3]]]]|[e' [ds' [d [sol [H1 [H2 [H3 [H4 H5]]]]]]]]].
        * exists e, ds, d, sol. split; [left; reflexivity|tauto].
        * exists e', ds', d, sol. split; [right; exact H1|tauto].
      + intros [e' [ds' [d [sol [[<-|H1] [H2 [H3 [H4 H5]]]]]]]].
        * left. rewrite Ed in H2. inversion H2; subst. exists d, sol. tauto.
        * right. exists e', ds', d, sol. tauto.
  Qed.

  (* a condition is reported iff it solves one of the collected denominators of P and leaves the
     system matrix defined; nothing is reported twice *)
  Theorem report_spec P out : find_singularities solve a_defined P = Some out ->
    NoDup out /\
    forall c, In c out <-> a_defined c = true /\ exists e ds d sol, In e P /\ denoms e = Some ds /\ In d ds /\ solve d = Some sol /\ In c sol.
  Proof.
    unfold find_singularities. destruct (gen_conditions solve P) as [cs|] eqn:Eg; [|discriminate].
    intros H; inversion H; subst; clear H. split.
    - apply NoDup_filter. apply dedup_nodup.
    - intros c. rewrite filter_In, dedup_spec, (gen_conditions_spec P cs Eg c). cbn [In]. tauto.
  Qed.
End Report.
