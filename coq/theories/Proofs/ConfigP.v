From Coq Require Import List String Bool.
From OdeVerif Require Import Model.Config.
Import ListNotations.

Section ConfigP.
  Variable V : Type.
  Variable defaults : store V.

  (* a prelude that starts by resetting makes the store used by a call independent of what was
     there before *)
  Theorem reset_first_history_free (prelude : list cfg_op) (c : call V) (s s' : store V) :
    store_in_call V defaults (Reset :: prelude) c s = store_in_call V defaults (Reset :: prelude) c s'.
  Proof. reflexivity. Qed.

  Lemma write_other (s : store V) k v k' : String.eqb k' k = false -> write V s k v k' = s k'.
  Proof. unfold write. intros ->. reflexivity. Qed.

  Lemma read_opts_notin (l : list (string * V)) : forall (s : store V) k,
    (forall e, In e l -> String.eqb k (fst e) = false) -> fst (read_opts V l s) k = s k.
  Proof.
    induction l as [|[k0 v0] l IH]; intros s k H; cbn [read_opts]; [reflexivity|].
    destruct (s k0); [|reflexivity].
    rewrite IH by (intros e' He'; apply H; right; exact He'). apply write_other. apply (H (k0, v0)). left. reflexivity.
  Qed.

  (* an option the call does not specify has its default value during the call *)
  Theorem unspecified_is_default (ops : list cfg_op) (c : call V) (s : store V) k :
    (forall e, In e (c_options c) -> String.eqb k (fst e) = false) ->
    (forall k', In (WriteArg k') ops -> String.eqb k k' = false) ->
    store_in_call V defaults (Reset :: ops) c s k = defaults k.
  Proof.
    intros Ho Ha. unfold store_in_call. cbn [fold_left apply_op snd].
    assert (forall st, fst st k = defaults k -> fst (fold_left (apply_op V defaults c) ops st) k = defaults k) as G.
    { clear s. induction ops as [|o ops IH]; intros st Hst; cbn [fold_left]; [exact Hst|].
      apply IH; [intros k' Hk'; apply Ha; right; exact Hk'|].
      destruct st as [s0 fl]. unfold apply_op. cbn [fst snd] in *. destruct fl; [exact Hst|].
      destruct o as [| |k'].
      - reflexivity.
      - rewrite read_opts_notin by exact Ho. exact Hst.
      - destruct (find _ (c_args c)) as [e|]; [|exact Hst]. cbn [fst]. rewrite write_other; [exact Hst|].
        apply Ha. left. reflexivity. }
    apply G. reflexivity.
  Qed.
End ConfigP.
