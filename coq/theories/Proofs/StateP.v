(* Process-level state of the package: the regenerated inventory of syntactic writes to module- and
   class-level objects (Gen/StateGen.v) contains nothing but the option store (written only by the
   three functions Model/Config.v describes), the verification hook's trace and plot_helper's
   memoised optional imports; and no function has a mutable default argument. *)
From Coq Require Import List String Bool.
From OdeVerif Require Import Gen.StateGen.
Import ListNotations.
Open Scope string_scope.

(* (file, function, object) triples that may be written *)
Definition allowed_writes : list (string * string * string) :=
  [ ("__init__.py", "_analysis", "Config.config");              (* simplify_expression argument *)
    ("__init__.py", "_read_global_config", "Config.config");    (* options of the input *)
    ("config.py", "Config.reset", "Config.config");             (* the reset the prelude starts with *)
    ("__init__.py", "_analysis", "__init__.py:_verif_trace");   (* hook H1, only under ODETOOLBOX_VERIF *)
    ("plot_helper.py", "import_matplotlib", "plot_helper.py:_mpl");
    ("plot_helper.py", "import_matplotlib", "plot_helper.py:_plt") ].

Definition triple_eqb (a b : string * string * string) : bool :=
  String.eqb (fst (fst a)) (fst (fst b)) && String.eqb (snd (fst a)) (snd (fst b)) && String.eqb (snd a) (snd b).

Definition write_allowed (w : string * string * string * string) : bool :=
  existsb (triple_eqb (fst w)) allowed_writes.

Definition hidden_writes : list (string * string * string * string) :=
  filter (fun w => negb (write_allowed w)) global_writes.

Lemma no_hidden_state : hidden_writes = [] /\ mutable_defaults = [].
Proof. split; vm_compute; reflexivity. Qed.

(* consequence used by C07: every write to process-level state made by the package is a write to the
   option store from one of the three modelled places, or is not data of the analysis *)
Lemma writes_classified :
  forall w, In w global_writes ->
    snd (fst w) = "Config.config" \/ snd (fst w) = "__init__.py:_verif_trace" \/ fst (fst (fst w)) = "plot_helper.py".
Proof.
  intros w Hin.
  assert (write_allowed w = true) as Ha.
  { destruct (write_allowed w) eqn:E; [reflexivity|].
    assert (In w hidden_writes) as Hh by (unfold hidden_writes; apply filter_In; split; [exact Hin|rewrite E; reflexivity]).
    rewrite (proj1 no_hidden_state) in Hh. destruct Hh. }
  unfold write_allowed in Ha. apply existsb_exists in Ha. destruct Ha as [a [Hina Heq]].
  unfold triple_eqb in Heq. apply andb_true_iff in Heq. destruct Heq as [Heq H3]. apply andb_true_iff in Heq. destruct Heq as [H1 H2].
  apply String.eqb_eq in H1. apply String.eqb_eq in H2. apply String.eqb_eq in H3.
  destruct w as [[[f g] o] op]. cbn [fst snd] in *.
  unfold allowed_writes in Hina. cbn [In] in Hina.
  repeat (destruct Hina as [Hina|Hina]; [subst a; cbn [fst snd] in *; subst; auto|]). destruct Hina.
Qed.
