(* Proofs about Model/SpikeGen.v over an arbitrary totally ordered number type with a
   monotone addition (instances: Z, Qc).  No arithmetic beyond order + monotonicity is used. *)
From Coq Require Import List Bool Arith Lia Sorted Permutation.
From OdeVerif Require Import Model.SpikeGen.
Import ListNotations.

Section Ordered.
  Variable num : Type.
  Variable zero : num.
  Variable add : num -> num -> num.
  Variables ltb leb : num -> num -> bool.
  Hypothesis leb_ltb : forall a b, leb a b = negb (ltb b a).
  Hypothesis ltb_trans : forall a b c, ltb a b = true -> ltb b c = true -> ltb a c = true.
  Hypothesis ltb_irrefl : forall a, ltb a a = false.
  Hypothesis ltb_total : forall a b, ltb a b = false -> ltb b a = false -> a = b.

  Definition lt a b := ltb a b = true.
  Definition le a b := leb a b = true.

  Lemma lt_asym a b : lt a b -> ltb b a = false.
  Proof.
    unfold lt; intros H. destruct (ltb b a) eqn:E; [|reflexivity].
    pose proof (ltb_trans a b a H E) as C. rewrite ltb_irrefl in C. discriminate.
  Qed.

  Lemma le_iff a b : le a b <-> ltb b a = false.
  Proof. unfold le. rewrite leb_ltb. destruct (ltb b a); cbn; split; congruence. Qed.

  Lemma le_refl a : le a a.
  Proof. apply le_iff. apply ltb_irrefl. Qed.

  Lemma lt_le a b : lt a b -> le a b.
  Proof. intros H. apply le_iff. apply lt_asym. exact H. Qed.

  Lemma le_lt_trans a b c : le a b -> lt b c -> lt a c.
  Proof.
    intros H1 H2. apply le_iff in H1. destruct (ltb a b) eqn:E.
    - exact (ltb_trans a b c E H2).
    - rewrite (ltb_total a b E H1). exact H2.
  Qed.

  Lemma lt_le_trans a b c : lt a b -> le b c -> lt a c.
  Proof.
    intros H1 H2. apply le_iff in H2. destruct (ltb b c) eqn:E.
    - exact (ltb_trans a b c H1 E).
    - rewrite <- (ltb_total b c E H2). exact H1.
  Qed.

  Lemma le_trans a b c : le a b -> le b c -> le a c.
  Proof.
    intros H1 H2. apply le_iff. destruct (ltb c a) eqn:E; [|reflexivity].
    pose proof (lt_le_trans c a b E H1) as H3. apply le_iff in H2. unfold lt in H3. congruence.
  Qed.

  Lemma not_le_lt a b : leb a b = false -> lt b a.
  Proof. rewrite leb_ltb. unfold lt. destruct (ltb b a); cbn; congruence. Qed.

  Lemma le_total a b : leb a b = false -> le b a.
  Proof. intros H. apply lt_le. apply not_le_lt. exact H. Qed.

  (* ---------------- regular trains ---------------- *)
  Section Regular.
    Variables isi T : num.
    Hypothesis isi_pos : forall t, lt t (add t isi).

    Fixpoint nsum (k : nat) : num := match k with O => zero | S k' => add (nsum k') isi end.

    Lemma nsum_mono k m : k <= m -> le (nsum k) (nsum m).
    Proof.
      induction 1 as [|m H IH]; [apply le_refl|].
      eapply le_trans; [exact IH|]. cbn. apply lt_le. apply isi_pos.
    Qed.

    Notation regular := (regular num add ltb leb).

    Lemma regular_from n : le (nsum n) T -> lt T (nsum (S n)) ->
      forall d k fuel, k + d = n -> d < fuel ->
      regular fuel isi T (nsum k) = Some (map nsum (seq (S k) d)).
    Proof.
      intros Hn Hn1. induction d as [|d IH]; intros k fuel Hk Hf.
      - assert (k = n) by lia. subst k. cbn [seq map].
        destruct fuel as [|f]; [lia|]. cbn [SpikeGen.regular].
        destruct (ltb (nsum n) T) eqn:E; [|reflexivity].
        change (add (nsum n) isi) with (nsum (S n)).
        assert (ltb (nsum (S n)) T = false) as E1 by (apply lt_asym; exact Hn1).
        assert (leb (nsum (S n)) T = false) as E2 by (rewrite leb_ltb; unfold lt in Hn1; rewrite Hn1; reflexivity).
        destruct f as [|f']; cbn [SpikeGen.regular]; rewrite E1, ?E2; reflexivity.
      - destruct fuel as [|f]; [lia|]. cbn [SpikeGen.regular].
        assert (lt (nsum k) T) as E.
        { eapply lt_le_trans; [apply (isi_pos (nsum k))|]. change (add (nsum k) isi) with (nsum (S k)).
          eapply le_trans; [apply (nsum_mono (S k) n); lia|exact Hn]. }
        unfold lt in E. rewrite E. change (add (nsum k) isi) with (nsum (S k)).
        rewrite (IH (S k) f) by lia.
        assert (le (nsum (S k)) T) as E2 by (eapply le_trans; [apply (nsum_mono (S k) n); lia|exact Hn]).
        unfold le in E2. rewrite E2. reflexivity.
    Qed.

    (* the regular train is exactly the multiples 1*isi, ..., n*isi where n*isi <= T < (n+1)*isi *)
    Theorem regular_is_all_multiples n fuel : le (nsum n) T -> lt T (nsum (S n)) -> n < fuel ->
      regular fuel isi T zero = Some (map nsum (seq 1 n)).
    Proof.
      intros H1 H2 Hf. exact (regular_from n H1 H2 n 0 fuel eq_refl Hf).
    Qed.
  End Regular.

  (* ---------------- Poisson trains ---------------- *)
  Section Poisson.
    Variables min_isi T : num.
    Hypothesis min_pos : forall t, lt t (add t min_isi).
    Hypothesis add_mono : forall t a b, le a b -> le (add t a) (add t b).

    Notation poisson := (poisson num add ltb leb).
    Notation maxn := (maxn num ltb).

    Fixpoint chain (t : num) (l : list num) : Prop :=
      match l with [] => True | s :: r => le (add t min_isi) s /\ le s T /\ chain s r end.

    Lemma maxn_ge x : le min_isi (maxn x min_isi).
    Proof.
      unfold SpikeGen.maxn. destruct (ltb x min_isi) eqn:E; [apply le_refl|].
      apply le_iff. exact E.
    Qed.

    (* every spike is at least min_isi after its predecessor (after the start time for the first
       one) and not after T; hence strictly increasing, in (t0, T] *)
    Theorem poisson_chain raw : forall t out rest, poisson raw min_isi T t = Some (out, rest) -> chain t out.
    Proof.
      induction raw as [|x raw IH]; intros t out rest; cbn [SpikeGen.poisson].
      - destruct (ltb t T); [discriminate|]. intros H; inversion H; subst. exact I.
      - destruct (ltb t T) eqn:E; [|intros H; inversion H; subst; exact I].
        destruct (poisson raw min_isi T (add t (maxn x min_isi))) as [[r rs]|] eqn:R; [|discriminate].
        intros H; inversion H; subst; clear H.
        specialize (IH _ _ _ R).
        destruct (leb (add t (maxn x min_isi)) T) eqn:L.
        + cbn [chain]. split; [apply add_mono; apply maxn_ge|]. split; [exact L|exact IH].
        + (* the step overshot T: the loop ends, nothing more is generated *)
          apply not_le_lt in L. apply lt_asym in L.
          destruct raw as [|y raw']; cbn [SpikeGen.poisson] in R; rewrite L in R; inversion R; subst; exact I.
    Qed.

    Lemma chain_increasing t l : chain t l -> StronglySorted lt l /\ Forall (fun s => lt t s /\ le s T) l.
    Proof.
      revert t; induction l as [|s r IH]; intros t H; cbn [chain] in H.
      - split; constructor.
      - destruct H as [H1 [H2 H3]]. destruct (IH s H3) as [S1 S2].
        assert (lt t s) as Hts by (eapply lt_le_trans; [apply min_pos|exact H1]).
        split.
        + constructor; [exact S1|]. rewrite Forall_forall in *. intros y Hy. apply (S2 y Hy).
        + constructor; [split; assumption|]. rewrite Forall_forall in *. intros y Hy.
          destruct (S2 y Hy) as [A B]. split; [|exact B]. exact (ltb_trans _ _ _ Hts A).
    Qed.
  End Poisson.

  (* ---------------- list stimuli ---------------- *)
  Notation insert_num := (insert_num num leb).
  Notation sort_num := (sort_num num leb).

  Lemma insert_perm x l : Permutation (insert_num x l) (x :: l).
  Proof.
    induction l as [|y r IH]; cbn [SpikeGen.insert_num]; [reflexivity|].
    destruct (leb x y); [reflexivity|]. rewrite IH. apply perm_swap.
  Qed.

  Lemma insert_sorted x l : Sorted le l -> Sorted le (insert_num x l).
  Proof.
    induction l as [|y r IH]; cbn [SpikeGen.insert_num]; intros H.
    - constructor; constructor.
    - destruct (leb x y) eqn:E.
      + constructor; [exact H|]. constructor. exact E.
      + inversion H as [|? ? Hs Hh]; subst. constructor; [apply IH; exact Hs|].
        destruct r as [|z r']; cbn [SpikeGen.insert_num].
        * constructor. apply le_total. exact E.
        * destruct (leb x z) eqn:E2; constructor; [apply le_total; exact E| inversion Hh; assumption].
  Qed.

  Lemma sort_perm l : Permutation (sort_num l) l.
  Proof.
    unfold SpikeGen.sort_num. induction l as [|a l IH]; cbn [fold_right]; [reflexivity|].
    rewrite insert_perm, IH. reflexivity.
  Qed.

  Lemma sort_sorted l : Sorted le (sort_num l).
  Proof.
    unfold SpikeGen.sort_num. induction l as [|a l IH]; cbn [fold_right]; [constructor|].
    apply insert_sorted. exact IH.
  Qed.

  (* a list stimulus delivers exactly the listed times that do not exceed T (with multiplicity),
     in ascending order — for a list of any length *)
  Theorem list_stim_spec T l :
    Sorted le (list_stim num leb T l) /\ Permutation (list_stim num leb T l) (filter (fun t => leb t T) l).
  Proof. unfold list_stim. split; [apply sort_sorted|apply sort_perm]. Qed.
End Ordered.

(* ---------------- dispatch ---------------- *)
Section DispatchP.
  Variable key : Type.
  Variable key_eqb : key -> key -> bool.
  Hypothesis key_eqb_eq : forall a b, key_eqb a b = true <-> a = b.
  Variable num : Type.
  Notation extend := (extend key key_eqb num).
  Notation dispatch := (dispatch key key_eqb num).
  Notation lookup := (lookup key key_eqb num).

  Lemma key_eqb_refl a : key_eqb a a = true.
  Proof. apply key_eqb_eq. reflexivity. Qed.

  Lemma lookup_extend acc k tr k' :
    lookup (extend acc k tr) k' =
    if key_eqb k k' then Some (match lookup acc k' with Some l => l ++ tr | None => tr end) else lookup acc k'.
  Proof.
    unfold SpikeGen.lookup. induction acc as [|[k0 l] r IH]; cbn [SpikeGen.extend find fst snd].
    - destruct (key_eqb k k'); reflexivity.
    - destruct (key_eqb k0 k) eqn:E; cbn [find fst snd].
      + apply key_eqb_eq in E. subst k0. destruct (key_eqb k k') eqn:E2; reflexivity.
      + destruct (key_eqb k0 k') eqn:E2.
        * destruct (key_eqb k k') eqn:E3; [|reflexivity].
          apply key_eqb_eq in E2, E3. subst. rewrite key_eqb_refl in E. discriminate.
        * exact IH.
  Qed.

  Definition train_for (visits : list (key * list num)) (k : key) : list num :=
    concat (map snd (filter (fun v => key_eqb (fst v) k) visits)).

  Lemma dispatch_gen visits : forall acc k,
    lookup (fold_left (fun acc v => extend acc (fst v) (snd v)) visits acc) k =
    match lookup acc k with
    | Some l => Some (l ++ train_for visits k)
    | None => if existsb (fun v => key_eqb (fst v) k) visits then Some (train_for visits k) else None
    end.
  Proof.
    induction visits as [|[kv tr] visits IH]; intros acc k; cbn [fold_left existsb fst snd].
    - unfold train_for; cbn. destruct (lookup acc k); [rewrite app_nil_r|]; reflexivity.
    - rewrite IH, lookup_extend. unfold train_for; cbn [filter fst snd map concat].
      destruct (key_eqb kv k) eqn:E; cbn [orb].
      + destruct (lookup acc k); cbn [map concat]; rewrite <- ?app_assoc; reflexivity.
      + reflexivity.
  Qed.

  (* each renamed target receives its own train; several stimuli on one target accumulate in
     order; a name that no stimulus targets is not a key *)
  Theorem dispatch_spec visits k :
    lookup (dispatch visits) k =
    if existsb (fun v => key_eqb (fst v) k) visits then Some (train_for visits k) else None.
  Proof. unfold SpikeGen.dispatch. rewrite dispatch_gen. reflexivity. Qed.
End DispatchP.
