(* The worklist of propagate_lin_cc_judgements computes the greatest dependency-closed subset of
   the initially-linear nodes:  v stays marked  <->  every node reachable from v along
   "depends on" edges (v included) was initially marked. *)
From Coq Require Import List Bool Arith Lia Permutation.
From OdeVerif Require Import Model.Graph.
Import ListNotations.

Definition dep (E : list edge) (a b : nat) : Prop := In (a, b) E.

Inductive reach (E : list edge) : nat -> nat -> Prop :=
| reach_refl v : reach E v v
| reach_step a b c : dep E a b -> reach E b c -> reach E a c.

Lemma reach_trans E a b c : reach E a b -> reach E b c -> reach E a c.
Proof. induction 1 as [v|a b' c' Hd Hr IH]; intros H; [exact H|]. eapply reach_step; [exact Hd|]. apply IH. exact H. Qed.

Section Worklist.
  Variable E : list edge.
  Variable m0 : mark.

  Definition Inv (m : mark) (q : list nat) : Prop :=
    (forall v, m v = true -> m0 v = true) /\
    (forall v, m v = false -> exists w, reach E v w /\ m0 w = false) /\
    (forall a b, dep E a b -> m b = false -> m a = false \/ In b q).

  Lemma dependents_spec v a : In a (dependents E v) <-> dep E a v.
  Proof.
    unfold dependents, dep. rewrite in_map_iff. split.
    - intros [[a' b'] [H1 H2]]. apply filter_In in H2. destruct H2 as [H2 H3]. cbn in *. apply Nat.eqb_eq in H3. subst. exact H2.
    - intros H. exists (a, v). split; [reflexivity|]. apply filter_In. split; [exact H|]. cbn. apply Nat.eqb_refl.
  Qed.

  Lemma set_false_spec m v x : set_false m v x = if Nat.eqb x v then false else m x.
  Proof. reflexivity. Qed.

  (* effect of demoting a list L of nodes *)
  Lemma demote_fold L : forall m q m' q', fold_left demote_one L (m, q) = (m', q') ->
    (forall x, m' x = true -> m x = true) /\
    (forall x, m' x = false -> m x = false \/ In x L) /\
    (forall x, In x L -> m' x = false) /\
    (forall x, In x q -> In x q') /\
    (forall x, m x = true -> m' x = false -> In x q').
  Proof.
    induction L as [|n1 L IH]; intros m q m' q' H; cbn [fold_left] in H.
    - inversion H; subst. repeat split; try tauto; try (intros; congruence).
      intros x [].
    - unfold demote_one at 2 in H. cbn [fst snd] in H. destruct (m n1) eqn:E1.
      + destruct (IH _ _ _ _ H) as [A [B [C0 [D F]]]]. repeat split.
        * intros x Hx. specialize (A x Hx). rewrite set_false_spec in A. destruct (Nat.eqb x n1); [discriminate|exact A].
        * intros x Hx. destruct (B x Hx) as [B1|B1].
          -- rewrite set_false_spec in B1. destruct (Nat.eqb_spec x n1); [right; left; congruence|left; exact B1].
          -- right. right. exact B1.
        * intros x [Hx|Hx]; [subst x|apply C0; exact Hx].
          destruct (m' n1) eqn:E2; [|reflexivity]. specialize (A n1 E2). rewrite set_false_spec, Nat.eqb_refl in A. discriminate.
        * intros x Hx. apply D. apply in_or_app. left. exact Hx.
        * intros x Hx Hx'. destruct (Nat.eqb_spec x n1) as [->|Hne].
          -- apply D. apply in_or_app. right. left. reflexivity.
          -- apply F; [|exact Hx']. rewrite set_false_spec. destruct (Nat.eqb_spec x n1); [contradiction|exact Hx].
      + destruct (IH _ _ _ _ H) as [A [B [C0 [D F]]]]. repeat split; try assumption.
        * intros x Hx. destruct (B x Hx); [left; assumption|right; right; assumption].
        * intros x [Hx|Hx]; [subst x|apply C0; exact Hx].
          destruct (m' n1) eqn:E2; [|reflexivity]. specialize (A n1 E2). congruence.
  Qed.

  Lemma step_false m v q : Inv m (v :: q) -> m v = false ->
    Inv (fst (demote E v (m, q))) (snd (demote E v (m, q))).
  Proof.
    intros [Ia [Ic Ib]] Hv. unfold demote.
    destruct (fold_left demote_one (dependents E v) (m, q)) as [m' q'] eqn:F. cbn [fst snd].
    destruct (demote_fold _ _ _ _ _ F) as [A [B [C0 [D G]]]].
    split; [|split].
    - intros x Hx. apply Ia. apply A. exact Hx.
    - intros x Hx. destruct (B x Hx) as [B1|B1]; [apply Ic; exact B1|].
      apply dependents_spec in B1. destruct (Ic v Hv) as [w [Hw1 Hw2]].
      exists w. split; [eapply reach_step; eassumption|exact Hw2].
    - intros a b Hd Hb. destruct (Nat.eq_dec b v) as [->|Hne].
      + left. apply C0. apply dependents_spec. exact Hd.
      + destruct (m b) eqn:Mb.
        * right. apply G; assumption.
        * destruct (Ib a b Hd Mb) as [Ha|Hin].
          -- left. destruct (m' a) eqn:Ma; [|reflexivity]. specialize (A a Ma). congruence.
          -- right. destruct Hin as [Hin|Hin]; [congruence|]. apply D. exact Hin.
  Qed.

  Lemma step_true m v q : Inv m (v :: q) -> m v = true -> Inv m q.
  Proof.
    intros [Ia [Ic Ib]] Hv. split; [exact Ia|split; [exact Ic|]].
    intros a b Hd Hb. destruct (Ib a b Hd Hb) as [H|[H|H]]; [left; exact H| subst; congruence | right; exact H].
  Qed.

  Lemma propagate_inv fuel : forall m q m', Inv m q -> propagate fuel E m q = Some m' -> Inv m' [].
  Proof.
    induction fuel as [|f IH]; intros m q m' HI H; destruct q as [|v q]; cbn [propagate] in H.
    - inversion H; subst. exact HI.
    - discriminate.
    - inversion H; subst. exact HI.
    - destruct (m v) eqn:Mv.
      + eapply IH; [|exact H]. eapply step_true; eassumption.
      + eapply IH; [|exact H]. apply step_false; assumption.
  Qed.

  (* characterisation of the result *)
  Theorem worklist_is_gfp fuel q m' :
    (forall a b, dep E a b -> m0 b = false -> In b q) ->
    propagate fuel E m0 q = Some m' ->
    forall v, m' v = true <-> (forall w, reach E v w -> m0 w = true).
  Proof.
    intros Hq H.
    assert (Inv m0 q) as HI.
    { split; [tauto|split].
      - intros v Hv. exists v. split; [constructor|exact Hv].
      - intros a b Hd Hb. right. eapply Hq; eassumption. }
    destruct (propagate_inv fuel m0 q m' HI H) as [Ia [Ic Ib]].
    intros v. split.
    - intros Hv w Hr. apply Ia. revert Hv. induction Hr as [v|a b c Hd Hr IHr]; intros Hv; [exact Hv|].
      apply IHr. destruct (m' b) eqn:Mb; [reflexivity|].
      destruct (Ib a b Hd Mb) as [Ha|[]]. congruence.
    - intros Hall. destruct (m' v) eqn:Mv; [reflexivity|].
      destruct (Ic v Mv) as [w [Hw1 Hw2]]. rewrite (Hall w Hw1) in Hw2. discriminate.
  Qed.
End Worklist.

(* the initial queue contains every node that is initially not marked *)
Lemma combine_seq_nth (ml : list bool) : forall a v, nth v ml false = false -> v < length ml ->
  In (a + v, false) (combine (seq a (length ml)) ml).
Proof.
  induction ml as [|b ml IH]; intros a v Hv Hl; [cbn in Hl; lia|].
  cbn [length seq combine]. destruct v as [|v].
  - cbn in Hv. subst b. left. f_equal. lia.
  - right. cbn in Hv, Hl. replace (a + S v) with (S a + v) by lia. apply IH; [exact Hv|lia].
Qed.

Lemma initial_queue_complete ml v : mark_of ml v = false -> v < length ml -> In v (initial_queue ml).
Proof.
  unfold mark_of, initial_queue. intros Hv Hl. apply in_map_iff. exists (v, false). split; [reflexivity|].
  apply filter_In. split; [|reflexivity]. exact (combine_seq_nth ml 0 v Hv Hl).
Qed.

(* ---- exact cover ---- *)
Lemma partition_perm {A} (f : A -> bool) l : Permutation (filter f l ++ filter (fun x => negb (f x)) l) l.
Proof.
  induction l as [|a l IH]; cbn [filter]; [constructor|].
  destruct (f a); cbn [negb app].
  - constructor. exact IH.
  - rewrite <- Permutation_middle. constructor. exact IH.
Qed.

(* the function the toolbox calls: list in, list out *)
Theorem propagate_judgements_spec E ml r :
  (forall a b, dep E a b -> b < length ml) ->
  propagate_judgements E ml = Some r ->
  length r = length ml /\
  forall v, v < length ml -> (nth v r false = true <-> (forall w, reach E v w -> mark_of ml w = true)).
Proof.
  intros Hrange. unfold propagate_judgements.
  destruct (propagate (2 * length ml + 1) E (mark_of ml) (initial_queue ml)) as [m'|] eqn:P; [|discriminate].
  intros H; inversion H; subst; clear H. split; [rewrite map_length, seq_length; reflexivity|].
  intros v Hv.
  rewrite (nth_indep _ false (m' 0)) by (rewrite map_length, seq_length; exact Hv).
  rewrite map_nth, seq_nth by exact Hv. cbn [plus].
  apply (worklist_is_gfp E (mark_of ml) (2 * length ml + 1) (initial_queue ml) m'); [|exact P].
  intros a b Hd Hb. apply initial_queue_complete; [exact Hb|]. eapply Hrange; eassumption.
Qed.

(* ---- the fuel of the worklist suffices: propagate_judgements never runs out ---- *)
Section Fuel.
  Variable E : list edge.
  Definition wnodes : list nat := nodup Nat.eq_dec (map fst E).
  Definition cnt (m : mark) : nat := length (filter m wnodes).

  Lemma filter_set_false (m : mark) v l : NoDup l -> In v l -> m v = true ->
    length (filter (set_false m v) l) + 1 = length (filter m l).
  Proof.
    induction l as [|a l IH]; intros Hnd Hin Hv; [destruct Hin|].
    inversion Hnd as [|? ? Hna Hnd']; subst. cbn [filter]. unfold set_false at 1.
    destruct (Nat.eqb_spec a v) as [->|Hne].
    - rewrite Hv. cbn [length].
      assert (filter (set_false m v) l = filter m l) as E1.
      { apply filter_ext_in. intros x Hx. unfold set_false. destruct (Nat.eqb_spec x v); [subst; contradiction|reflexivity]. }
      rewrite E1. lia.
    - destruct Hin as [->|Hin]; [contradiction|]. specialize (IH Hnd' Hin Hv).
      destruct (m a); cbn [length]; lia.
  Qed.

  Lemma dependents_in_wnodes v a : In a (dependents E v) -> In a wnodes.
  Proof.
    unfold dependents, wnodes. intros H. apply nodup_In. apply in_map_iff in H. destruct H as [e [<- He]].
    apply filter_In in He. apply in_map. tauto.
  Qed.

  Lemma demote_measure L : (forall a, In a L -> In a wnodes) -> forall m q m' q',
    fold_left demote_one L (m, q) = (m', q') -> length q' + cnt m' = length q + cnt m.
  Proof.
    induction L as [|n1 L IH]; intros HL m q m' q' H; cbn [fold_left] in H.
    - inversion H; subst. reflexivity.
    - unfold demote_one at 2 in H. cbn [fst snd] in H. destruct (m n1) eqn:E1.
      + rewrite (IH (fun a Ha => HL a (or_intror Ha)) _ _ _ _ H). rewrite app_length. cbn [length].
        pose proof (filter_set_false m n1 wnodes (NoDup_nodup _ _) (HL n1 (or_introl eq_refl)) E1) as F. unfold cnt. lia.
      + exact (IH (fun a Ha => HL a (or_intror Ha)) _ _ _ _ H).
  Qed.

  Theorem propagate_total fuel : forall m q, length q + cnt m <= fuel -> exists m', propagate fuel E m q = Some m'.
  Proof.
    induction fuel as [|f IH]; intros m q H; destruct q as [|v q]; cbn [propagate].
    - eexists; reflexivity.
    - cbn [length] in H. lia.
    - eexists; reflexivity.
    - cbn [length] in H. destruct (m v) eqn:Mv.
      + apply IH. lia.
      + destruct (demote E v (m, q)) as [m1 q1] eqn:D. cbn [fst snd]. apply IH.
        unfold demote in D. rewrite (demote_measure _ (dependents_in_wnodes v) _ _ _ _ D). lia.
  Qed.
End Fuel.

Lemma nodup_bounded_length l n : NoDup l -> (forall x, In x l -> x < n) -> length l <= n.
Proof.
  intros Hnd Hb. rewrite <- (seq_length n 0). apply NoDup_incl_length; [exact Hnd|].
  intros x Hx. apply in_seq. specialize (Hb x Hx). lia.
Qed.

Lemma filter_len_le {A} (f : A -> bool) l : length (filter f l) <= length l.
Proof. induction l as [|a l IH]; cbn [filter length]; [lia|]. destruct (f a); cbn [length]; lia. Qed.

Lemma initial_queue_length ml : length (initial_queue ml) <= length ml.
Proof.
  unfold initial_queue. rewrite map_length. etransitivity; [apply filter_len_le|]. rewrite combine_length, seq_length. lia.
Qed.

(* the function the toolbox calls always returns (never out of fuel), for every graph and marking *)
Theorem propagate_judgements_total E ml : exists r, propagate_judgements E ml = Some r.
Proof.
  unfold propagate_judgements.
  destruct (propagate_total E (2 * length ml + 1) (mark_of ml) (initial_queue ml)) as [m' Hm].
  - pose proof (initial_queue_length ml) as Hq.
    assert (cnt E (mark_of ml) <= length ml) as Hc.
    { unfold cnt. apply nodup_bounded_length.
      - apply NoDup_filter. apply NoDup_nodup.
      - intros x Hx. apply filter_In in Hx. destruct Hx as [_ Hx]. unfold mark_of in Hx.
        destruct (Nat.lt_ge_cases x (length ml)) as [Hl|Hl]; [exact Hl|]. rewrite nth_overflow in Hx by exact Hl. discriminate. }
    lia.
  - rewrite Hm. eexists; reflexivity.
Qed.

(* The result depends on the edge RELATION only: listing the edges in another order, or several times,
   or discovering them in another sequence, cannot change it. *)
Lemma reach_ext E E' : (forall a b, dep E a b <-> dep E' a b) -> forall v w, reach E v w -> reach E' v w.
Proof.
  intros Hd v w H. induction H as [v|a b c Hab Hbc IH]; [apply reach_refl|].
  eapply reach_step; [apply Hd; exact Hab|exact IH].
Qed.

Lemma list_bool_ext (r r' : list bool) : length r = length r' -> (forall v, v < length r -> nth v r false = nth v r' false) -> r = r'.
Proof.
  revert r'. induction r as [|x r IH]; intros [|y r'] Hl Hn; try discriminate; [reflexivity|].
  f_equal.
  - exact (Hn 0 (Nat.lt_0_succ _)).
  - apply IH; [cbn in Hl; lia|]. intros v Hv. exact (Hn (S v) (proj1 (Nat.succ_lt_mono _ _) Hv)).
Qed.

Theorem propagate_judgements_edge_order E E' ml r r' :
  (forall a b, dep E a b <-> dep E' a b) ->
  (forall a b, dep E a b -> b < length ml) ->
  propagate_judgements E ml = Some r -> propagate_judgements E' ml = Some r' -> r = r'.
Proof.
  intros Hd Hb H1 H2.
  assert (Hb' : forall a b, dep E' a b -> b < length ml) by (intros a b H; apply (Hb a b); apply Hd; exact H).
  destruct (propagate_judgements_spec E ml r Hb H1) as [L1 S1].
  destruct (propagate_judgements_spec E' ml r' Hb' H2) as [L2 S2].
  apply list_bool_ext; [congruence|].
  intros v Hv. rewrite L1 in Hv.
  destruct (nth v r false) eqn:A, (nth v r' false) eqn:B; try reflexivity; exfalso.
  - assert (nth v r' false = true) as C; [|congruence].
    apply (S2 v Hv). intros w Hw. apply (proj1 (S1 v Hv) A). apply (reach_ext E' E); [intros a b; symmetry; apply Hd|exact Hw].
  - assert (nth v r false = true) as C; [|congruence].
    apply (S1 v Hv). intros w Hw. apply (proj1 (S2 v Hv) B). apply (reach_ext E E'); [exact Hd|exact Hw].
Qed.
