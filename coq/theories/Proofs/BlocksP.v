(* Per-component matrix exponentials, scattered back into one matrix, satisfy the law of the
   exponential of the whole matrix — provided coupled indices share a component label. *)
From Coq Require Import List Bool Arith Lia Ring.
From OdeVerif Require Import Model.Blocks Model.Propagator.
Import ListNotations.

Section BlocksP.
  Variable T : Type.
  Variables (rO rI : T) (radd rmul rsub : T -> T -> T) (ropp : T -> T).
  Hypothesis RT : ring_theory rO rI radd rmul rsub ropp (@eq T).
  Add Ring TRing5 : RT.
  Notation "a + b" := (radd a b). Notation "a * b" := (rmul a b).

  Variable D : T -> T.
  Hypothesis D_zero : D rO = rO.
  Variable ev0 : T -> T.
  Hypothesis ev0_zero : ev0 rO = rO.

  Variable n : nat.
  Variable A : nat -> nat -> T.
  Variable nz : nat -> nat -> bool.
  Hypothesis nz_sound : forall i j, nz i j = false -> A i j = rO.
  Variable lab : nat -> nat.
  Variable Pk : nat -> nat -> T.
  Hypothesis Hlab : labels_ok n nz lab = true.

  Notation P := (assemble T rO lab Pk).
  Notation S := (sumn T rO radd n).

  Definition lsum (l : list nat) (f : nat -> T) : T := fold_right (fun k acc => f k + acc) rO l.

  Lemma lsum_nil f : lsum [] f = rO. Proof. reflexivity. Qed.
  Lemma lsum_cons k l f : lsum (k :: l) f = f k + lsum l f. Proof. reflexivity. Qed.

  Lemma lsum_ext l f g : (forall k, In k l -> f k = g k) -> lsum l f = lsum l g.
  Proof.
    induction l as [|k l IH]; intros H; [reflexivity|]. rewrite !lsum_cons.
    rewrite (H k (or_introl eq_refl)), IH; [reflexivity|]. intros j Hj; apply H; right; exact Hj.
  Qed.
  Lemma lsum_zero l f : (forall k, In k l -> f k = rO) -> lsum l f = rO.
  Proof.
    induction l as [|k l IH]; intros H; [reflexivity|]. rewrite lsum_cons.
    rewrite (H k (or_introl eq_refl)), IH; [ring|]. intros j Hj; apply H; right; exact Hj.
  Qed.
  Lemma lsum_filter (p : nat -> bool) l f : (forall k, In k l -> p k = false -> f k = rO) -> lsum l f = lsum (filter p l) f.
  Proof.
    induction l as [|k l IH]; intros H; [reflexivity|]. cbn [filter]. rewrite lsum_cons.
    destruct (p k) eqn:E.
    - rewrite lsum_cons, IH; [reflexivity|]. intros j Hj; apply H; right; exact Hj.
    - rewrite (H k (or_introl eq_refl) E), IH; [ring|]. intros j Hj; apply H; right; exact Hj.
  Qed.

  (* coupled indices share a label, hence A vanishes across components *)
  Lemma cover i j : (i < n)%nat -> (j < n)%nat -> lab i <> lab j -> A i j = rO.
  Proof.
    intros Hi Hj Hne. apply nz_sound.
    unfold labels_ok in Hlab. rewrite forallb_forall in Hlab.
    specialize (Hlab i (proj2 (in_seq n 0 i) ltac:(lia))). rewrite forallb_forall in Hlab.
    specialize (Hlab j (proj2 (in_seq n 0 j) ltac:(lia))).
    unfold mirrored in Hlab. destruct (nz i j); [|reflexivity]. cbn in Hlab.
    apply Nat.eqb_eq in Hlab. contradiction.
  Qed.

  (* per-component laws of the oracle *)
  Hypothesis Pk_at_0 : forall i j, (i < n)%nat -> (j < n)%nat -> lab i = lab j ->
    ev0 (Pk i j) = if Nat.eqb i j then rI else rO.
  Hypothesis Pk_ode : forall i j, (i < n)%nat -> (j < n)%nat -> lab i = lab j ->
    D (Pk i j) = lsum (block n lab i) (fun k => A i k * Pk k j).

  Theorem assembled_at_0 i j : (i < n)%nat -> (j < n)%nat -> ev0 (P i j) = if Nat.eqb i j then rI else rO.
  Proof.
    intros Hi Hj. unfold assemble. destruct (Nat.eqb_spec (lab i) (lab j)) as [E|E].
    - apply Pk_at_0; assumption.
    - rewrite ev0_zero. destruct (Nat.eqb_spec i j); [subst; contradiction|reflexivity].
  Qed.

  Theorem assembled_ode i j : (i < n)%nat -> (j < n)%nat -> D (P i j) = S (fun k => A i k * P k j).
  Proof.
    intros Hi Hj. change (S (fun k => A i k * P k j)) with (lsum (seq 0 n) (fun k => A i k * P k j)).
    unfold assemble at 1. destruct (Nat.eqb_spec (lab i) (lab j)) as [E|E].
    - rewrite (Pk_ode i j Hi Hj E). unfold block.
      rewrite (lsum_filter (fun k => Nat.eqb (lab k) (lab i)) (seq 0 n) (fun k => A i k * P k j)).
      + apply lsum_ext. intros k Hk. apply filter_In in Hk. destruct Hk as [_ Hk]. apply Nat.eqb_eq in Hk.
        unfold assemble. replace (Nat.eqb (lab k) (lab j)) with true; [reflexivity|]. symmetry. apply Nat.eqb_eq. congruence.
      + intros k Hk Hkl. apply in_seq in Hk. apply Nat.eqb_neq in Hkl. rewrite (cover i k Hi ltac:(lia)) by congruence. ring.
    - rewrite D_zero. symmetry. apply lsum_zero. intros k Hk. apply in_seq in Hk.
      destruct (Nat.eq_dec (lab i) (lab k)) as [e|ne].
      + unfold assemble. replace (Nat.eqb (lab k) (lab j)) with false; [ring|]. symmetry. apply Nat.eqb_neq. congruence.
      + rewrite (cover i k Hi ltac:(lia) ne). ring.
  Qed.
End BlocksP.
