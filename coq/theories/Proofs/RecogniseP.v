(* C04: the two-level split recognises exactly the terms that are constant or a constant times one
   state variable, however the shape-level re-attachment shuffles them. *)
From Coq Require Import List Bool ZArith Arith Lia.
From OdeVerif Require Import Model.Term Model.Split Model.System Model.Graph Proofs.SplitP Proofs.GraphP Proofs.AnalysisP.
Import ListNotations.

Section Recognise.
  Variable K : Type.
  Variable fdeps : nat -> list atom.
  Variable par : atom -> bool.
  Hypothesis vars_not_par : forall i, par (AVar i) = false.

  Notation isc := (is_const fdeps par).
  Notation first_lin_ := (first_lin fdeps par).

  Definition recognised (xs : list atom) (t : term K) : bool :=
    isc t || match first_lin_ xs 0 t with Some _ => true | None => false end.

  Lemma nonlin_fold xs p : forall acc,
    nonlin (fold_left (classify fdeps par xs) p acc) = nonlin acc ++ filter (fun t => negb (recognised xs t)) p.
  Proof.
    induction p as [|t p IH]; intros acc; cbn [fold_left filter]; [rewrite app_nil_r; reflexivity|].
    rewrite IH. unfold classify, recognised. destruct (isc t); cbn [orb negb nonlin]; [reflexivity|].
    destruct (first_lin_ xs 0 t) as [[j q]|]; cbn [negb nonlin]; [reflexivity|]. rewrite <- app_assoc. reflexivity.
  Qed.

  Lemma nonlin_split xs p : nonlin (split fdeps par xs p) = filter (fun t => negb (recognised xs t)) p.
  Proof. unfold split. rewrite nonlin_fold. reflexivity. Qed.

  Lemma filter_nil_forall {A} (f : A -> bool) l : filter f l = [] <-> forall x, In x l -> f x = false.
  Proof.
    induction l as [|a l IH]; cbn [filter In]; [tauto|]. destruct (f a) eqn:E.
    - split; [discriminate|]. intros H. specialize (H a (or_introl eq_refl)). congruence.
    - rewrite IH. split; intros H x; [intros [->|Hx]; [exact E|apply H; exact Hx] | intros Hx; apply H; right; exact Hx].
  Qed.

  (* re-attached term  q * x  (q constant, x a state variable): not constant, linear again *)
  Lemma mul_atom_not_const (q : term K) j : isc (mul_atom q (AVar j)) = false.
  Proof. unfold is_const, term_syms, mul_atom. cbn [pows flat_map fst atom_syms app forallb]. rewrite vars_not_par. reflexivity. Qed.

  Lemma div_mul_atom (q : term K) x : div_atom (mul_atom q x) x = q.
  Proof.
    unfold div_atom, mul_atom. cbn [coef pows div_pows].
    assert (atom_eqb x x = true) as E by (apply atom_eqb_eq; reflexivity). rewrite E. cbn. destruct q; reflexivity.
  Qed.

  Lemma first_lin_some_of_in xs (t : term K) x : In x xs -> isc (div_atom t x) = true ->
    forall j0, first_lin_ xs j0 t <> None.
  Proof.
    induction xs as [|y r IH]; intros Hin Hc j0; [destruct Hin|]. cbn [first_lin].
    destruct (isc (div_atom t y)) eqn:E; [discriminate|].
    destruct Hin as [->|Hin]; [congruence|]. apply IH; assumption.
  Qed.

  Lemma recognised_reattached n (q : term K) j : j < n -> isc q = true -> recognised (xs n) (mul_atom q (AVar j)) = true.
  Proof.
    intros Hj Hq. unfold recognised. rewrite mul_atom_not_const. cbn [orb].
    destruct (first_lin_ (xs n) 0 (mul_atom q (AVar j))) eqn:F; [reflexivity|exfalso].
    apply (first_lin_some_of_in (xs n) (mul_atom q (AVar j)) (AVar j)) with (j0 := 0) in F; [exact F| |].
    - unfold xs. apply in_map. apply in_seq. lia.
    - rewrite div_mul_atom. exact Hq.
  Qed.

  Lemma recognised_const xs (t : term K) : isc t = true -> recognised xs t = true.
  Proof. intros H. unfold recognised. rewrite H. reflexivity. Qed.

  Lemma pnth_in (l : list (poly K)) j t : In t (pnth l j) -> j < length l /\ In (pnth l j) l.
  Proof.
    unfold pnth. intros H. destruct (Nat.lt_ge_cases j (length l)) as [Hl|Hl].
    - split; [exact Hl|apply nth_In; exact Hl].
    - rewrite nth_overflow in H by exact Hl. destruct H.
  Qed.

  (* the shape-level verdict is the verdict on the user's own terms *)
  Theorem shape_lin_iff n sh p : sh_def sh = ODE p ->
    (shape_lin K fdeps par n sh = true <-> forall t, In t p -> recognised (xs n) t = true).
  Proof.
    intros Hd. unfold shape_lin, final_row. cbn [rc]. rewrite nonlin_split.
    unfold reconstitute, level1. rewrite Hd. cbn [sp_inhom sp_nonlin sp_factors].
    set (s := split fdeps par (xs n) p).
    destruct (split_buckets K fdeps par (xs n) p) as [Hinh Hlin]. fold s in Hinh, Hlin.
    assert (length (lin s) = n) as Hlen.
    { unfold s, split. assert (forall (q : poly K) (acc : split_res K), length (lin (fold_left (classify fdeps par (xs n)) q acc)) = length (lin acc)) as G.
      { induction q as [|t q IH]; intros acc; cbn [fold_left]; [reflexivity|]. rewrite IH. unfold classify.
        destruct (isc t); [reflexivity|]. destruct (first_lin_ (xs n) 0 t) as [[j q0]|]; cbn [lin]; [|reflexivity].
        apply (add_at_length K). }
      rewrite G. cbn. rewrite repeat_length. unfold xs. rewrite map_length, seq_length. reflexivity. }
    assert (forall j t, In t (pnth (lin s) j) -> isc t = true /\ j < n) as Hp.
    { intros j t Ht. destruct (pnth_in _ _ _ Ht) as [Hj Hin]. rewrite Hlen in Hj. split; [|exact Hj].
      rewrite Forall_forall in Hlin. specialize (Hlin _ Hin). rewrite Forall_forall in Hlin. apply Hlin. exact Ht. }
    unfold isz. rewrite !filter_app.
    assert (filter (fun t => negb (recognised (xs n) t)) (inhom s) = []) as E1.
    { apply filter_nil_forall. intros t Ht. rewrite Forall_forall in Hinh. rewrite recognised_const; [reflexivity|apply Hinh; exact Ht]. }
    assert (forall (g : nat -> poly K) l, (forall j t, In j l -> In t (g j) -> recognised (xs n) t = true) ->
              filter (fun t => negb (recognised (xs n) t)) (flat_map g l) = []) as FM.
    { intros g l H. apply filter_nil_forall. intros t Ht. apply in_flat_map in Ht. destruct Ht as [j [Hj Ht]].
      rewrite (H j t Hj Ht). reflexivity. }
    rewrite E1. cbn [app].
    rewrite (FM (fun j => if is_local K sh j then [] else mulvar (pnth (lin s) j) (AVar j))).
    2:{ intros j t _ Ht. destruct (is_local K sh j); [destruct Ht|]. unfold mulvar in Ht. apply in_map_iff in Ht.
        destruct Ht as [q [<- Hq]]. destruct (Hp j q Hq). apply recognised_reattached; assumption. }
    rewrite (FM (fun d => mulvar (pnth (map (fun d0 => pnth (lin s) (sh_off sh + d0)) (seq 0 (sh_order sh))) d) (AVar (sh_off sh + d)))).
    2:{ intros d t Hd' Ht. apply in_seq in Hd'. unfold mulvar in Ht. apply in_map_iff in Ht. destruct Ht as [q [<- Hq]].
        unfold pnth at 1 in Hq. rewrite nth_map_seq in Hq by lia. destruct (Hp _ q Hq). apply recognised_reattached; assumption. }
    rewrite !app_nil_r.
    (* what remains: the level-1 nonlinear terms, which are exactly the unrecognised terms of p *)
    unfold s. rewrite nonlin_split.
    split.
    - intros H t Ht. destruct (recognised (xs n) t) eqn:R; [reflexivity|exfalso].
      assert (In t (filter (fun t0 => negb (recognised (xs n) t0)) p)) as Hin by (apply filter_In; split; [exact Ht|rewrite R; reflexivity]).
      destruct (filter (fun t0 => negb (recognised (xs n) t0)) (filter (fun t0 => negb (recognised (xs n) t0)) p)) eqn:F; [|discriminate].
      assert (In t []) as Hnil.
      { rewrite <- F. apply filter_In. split; [exact Hin|rewrite R; reflexivity]. }
      destruct Hnil.
    - intros H. rewrite (proj2 (filter_nil_forall _ p)); [reflexivity|]. intros t Ht. rewrite (H t Ht). reflexivity.
  Qed.
End Recognise.

(* the only losses relative to the greatest dependency-closed set of recognised variables are the two
   documented exceptions *)
Section Complete.
  Variable K : Type.
  Variable kone : K.
  Variable fdeps : nat -> list atom.
  Variable par : atom -> bool.

  Definition rule1 n (sys : list (row K)) i : bool :=
    negb (isz (rb (nth i sys (mkRow [] [] [])))) && (1 <? scc_size (adjA K sys) n i).
  Definition rule2 n (sys : list (row K)) i : bool :=
    existsb (fun j => negb (Nat.eqb i j) && adjA K sys i j && negb (isz (rb (nth j sys (mkRow [] [] []))))) (seq 0 n).

  Theorem verdict_complete n shapes r v : v < n ->
    verdicts K kone fdeps par n shapes = Some r ->
    let sys := from_shapes K kone fdeps par n shapes in
    (nth v r false = true <->
     forall w, reach (dep_edges fdeps n sys) v w ->
       w < n /\ nth w (initial_verdict K fdeps par n shapes) false = true /\ rule1 n sys w = false /\ rule2 n sys w = false).
  Proof.
    intros Hv Hr sys. unfold verdicts in Hr. fold sys in Hr.
    set (ml := demotion_rules K n sys (initial_verdict K fdeps par n shapes)) in *.
    assert (length ml = n) as Hl by apply demotion_rules_length.
    destruct (propagate_judgements_spec (dep_edges fdeps n sys) ml r) as [_ Hspec]; [|exact Hr|].
    { intros a b Hd. rewrite Hl. apply (dep_edges_range K fdeps n sys a b Hd). }
    rewrite Hl in Hspec. rewrite (Hspec v Hv).
    assert (forall w, reach (dep_edges fdeps n sys) v w -> w < n) as Hrange.
    { intros w Hw. induction Hw as [|a b c Hd Hw IH]; [exact Hv|]. apply IH. apply (dep_edges_range K fdeps n sys a b Hd). }
    assert (forall w, w < n -> (mark_of ml w = true <->
              nth w (initial_verdict K fdeps par n shapes) false = true /\ rule1 n sys w = false /\ rule2 n sys w = false)) as Hm.
    { intros w Hw. unfold mark_of, ml, demotion_rules. rewrite nth_map_seq by exact Hw.
      fold (rule1 n sys w). fold (rule2 n sys w).
      destruct (rule1 n sys w); destruct (rule2 n sys w); cbn [orb]; split; intros H; try discriminate; try tauto;
        destruct H as [_ [? ?]]; discriminate. }
    split; intros H w Hw.
    - split; [apply Hrange; exact Hw|]. apply Hm; [apply Hrange; exact Hw|]. apply H. exact Hw.
    - apply Hm; [apply Hrange; exact Hw|]. apply (H w Hw).
  Qed.
End Complete.
