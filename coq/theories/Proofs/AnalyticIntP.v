(* Proofs about Model/AnalyticInt.v : the event loop with its cache returns the exact
   spike-driven solution [spec] for every operation history. *)
From Coq Require Import ZArith List Bool Lia Sorted Permutation.
From OdeVerif Require Import Model.AnalyticInt.
Import ListNotations.
Open Scope Z_scope.

Definition ev_lt (a b : event) : Prop := fst a < fst b.
Definition times_sorted (ev : list event) : Prop := StronglySorted ev_lt ev.

Section Proofs.
  Variable St : Type.
  Variable phi : Z -> St -> St.
  Variable bump : var -> St -> St.
  Variable init : St.
  Hypothesis phi_0 : forall s, phi 0 s = s.

  Notation adv := (adv St phi bump).
  Notation run_events := (run_events St phi bump).
  Notation spec := (spec St phi bump init).
  Notation get_value := (get_value St phi bump init).
  Notation step := (step St phi bump init).
  Notation run := (run St phi bump init).
  Notation ai := (ai St).

  Lemma run_events_app l1 l2 tc s :
    run_events (l1 ++ l2) tc s = let '(tc', s') := run_events l1 tc s in run_events l2 tc' s'.
  Proof.
    revert tc s; induction l1 as [|[ts vs] l1 IH]; intros tc s; cbn [app AnalyticInt.run_events].
    - reflexivity.
    - apply IH.
  Qed.

  Lemma sorted_tail_gt e l : times_sorted (e :: l) -> forall e', In e' l -> fst e < fst e'.
  Proof.
    intros H e' Hin. inversion H as [|? ? _ Hall]; subst.
    rewrite Forall_forall in Hall. exact (Hall e' Hin).
  Qed.

  Lemma sorted_tail e l : times_sorted (e :: l) -> times_sorted l.
  Proof. intros H; inversion H; assumption. Qed.

  Lemma filter_none (f : event -> bool) l : (forall e, In e l -> f e = false) -> filter f l = [].
  Proof.
    induction l as [|a l IH]; intros H; cbn [filter]; [reflexivity|].
    rewrite (H a (or_introl eq_refl)). apply IH. intros e He; apply H; right; exact He.
  Qed.

  Lemma filter_ext_in' (f g : event -> bool) l : (forall e, In e l -> f e = g e) -> filter f l = filter g l.
  Proof.
    induction l as [|a l IH]; intros H; cbn [filter]; [reflexivity|].
    rewrite (H a (or_introl eq_refl)). rewrite IH; [reflexivity|]. intros e He; apply H; right; exact He.
  Qed.

  (* On a time-sorted event list the loop processes exactly the events in (tc, t]. *)
  Lemma adv_sorted ev : times_sorted ev -> forall tc s t,
    adv ev tc s t = run_events (filter (in_window tc t) ev) tc s.
  Proof.
    induction ev as [|[ts vs] ev IH]; intros Hs tc s t; cbn [AnalyticInt.adv filter].
    - reflexivity.
    - pose proof (sorted_tail _ _ Hs) as Hs'. pose proof (sorted_tail_gt _ _ Hs) as Hgt.
      unfold in_window at 1; cbn [fst].
      destruct (ts <=? tc) eqn:E1.
      + replace (tc <? ts) with false by (symmetry; apply Z.ltb_ge; apply Z.leb_le; exact E1).
        cbn [andb]. apply IH; exact Hs'.
      + apply Z.leb_gt in E1. replace (tc <? ts) with true by (symmetry; apply Z.ltb_lt; exact E1).
        cbn [andb]. destruct (t <? ts) eqn:E2.
        * apply Z.ltb_lt in E2. replace (ts <=? t) with false by (symmetry; apply Z.leb_gt; exact E2).
          rewrite filter_none; [reflexivity|].
          intros e He. specialize (Hgt e He). cbn [fst] in Hgt. unfold in_window.
          replace (fst e <=? t) with false by (symmetry; apply Z.leb_gt; lia).
          apply andb_false_r.
        * apply Z.ltb_ge in E2. replace (ts <=? t) with true by (symmetry; apply Z.leb_le; exact E2).
          cbn [AnalyticInt.run_events]. rewrite (IH Hs').
          f_equal. apply filter_ext_in'. intros e He. specialize (Hgt e He). cbn [fst] in Hgt.
          unfold in_window. f_equal.
          transitivity true; [apply Z.ltb_lt; lia | symmetry; apply Z.ltb_lt; lia].
  Qed.

  Lemma in_window_true lo hi e : in_window lo hi e = true <-> lo < fst e <= hi.
  Proof.
    unfold in_window. rewrite andb_true_iff, Z.ltb_lt, Z.leb_le. tauto.
  Qed.

  Lemma in_window_false lo hi e : in_window lo hi e = false <-> ~ (lo < fst e <= hi).
  Proof.
    rewrite <- in_window_true. destruct (in_window lo hi e); split; intros H;
      [discriminate | exfalso; apply H; reflexivity | intros H'; discriminate | reflexivity].
  Qed.

  (* splitting the window (lo, hi] at mid, on a sorted list *)
  Lemma filter_window_split ev : times_sorted ev -> forall lo mid hi, lo <= mid -> mid <= hi ->
    filter (in_window lo hi) ev = filter (in_window lo mid) ev ++ filter (in_window mid hi) ev.
  Proof.
    induction ev as [|[ts vs] ev IH]; intros Hs lo mid hi H1 H2; cbn [filter]; [reflexivity|].
    pose proof (sorted_tail _ _ Hs) as Hs'. pose proof (sorted_tail_gt _ _ Hs) as Hgt.
    rewrite (IH Hs' lo mid hi H1 H2).
    destruct (in_window lo hi (ts, vs)) eqn:A; destruct (in_window lo mid (ts, vs)) eqn:B;
      destruct (in_window mid hi (ts, vs)) eqn:Cm;
      repeat match goal with
             | H : in_window _ _ _ = true |- _ => apply in_window_true in H
             | H : in_window _ _ _ = false |- _ => apply in_window_false in H
             end; cbn [fst] in *; try lia; cbn [app]; try reflexivity.
    (* mid < ts <= hi : head goes to the second part; the first part of the tail is empty *)
    rewrite (filter_none (in_window lo mid) ev); [reflexivity|].
    intros e He. specialize (Hgt e He). cbn [fst] in Hgt. apply in_window_false. lia.
  Qed.

  (* ---- the cache invariant -------------------------------------------------------- *)

  Definition Inv (ev : list event) (a : ai) : Prop :=
    0 <= t_curr St a /\
    run_events (filter (in_window 0 (t_curr St a)) ev) 0 init = (t_curr St a, st St a).

  Lemma Inv_reset ev a : Inv ev (reset St init a).
  Proof.
    unfold Inv, reset; cbn. split; [lia|].
    rewrite filter_none; [reflexivity|].
    intros e _. unfold in_window. destruct (0 <? fst e) eqn:A; destruct (fst e <=? 0) eqn:B; try reflexivity.
    apply Z.ltb_lt in A. apply Z.leb_le in B. lia.
  Qed.

  Lemma Inv_ai0 ev : Inv ev (ai0 St init).
  Proof. exact (Inv_reset ev (ai0 St init)). Qed.

  (* the last processed event time is the reached time *)
  Lemma run_events_time_gen evs : forall lo hi tcx s, (forall e, In e evs -> lo < fst e <= hi) ->
    lo <= tcx <= hi -> lo <= fst (run_events evs tcx s) <= hi.
  Proof.
    induction evs as [|[ts vs] evs IH]; intros lo hi tcx s H Hx; cbn [AnalyticInt.run_events fst].
    - exact Hx.
    - assert (lo < ts <= hi) as Hts by (apply (H (ts, vs)); left; reflexivity).
      apply IH; [|lia]. intros e He. apply H. right. exact He.
  Qed.

  Lemma run_events_time evs : forall tc s hi, (forall e, In e evs -> tc < fst e <= hi) -> tc <= hi ->
    tc <= fst (run_events evs tc s) <= hi.
  Proof.
    intros tc s hi H Hle. apply run_events_time_gen; [exact H|lia].
  Qed.

  Lemma filter_window_bounds lo hi ev e : In e (filter (in_window lo hi) ev) -> lo < fst e <= hi.
  Proof.
    intros H. apply filter_In in H. destruct H as [_ H]. unfold in_window in H.
    apply andb_true_iff in H. destruct H as [A B]. apply Z.ltb_lt in A. apply Z.leb_le in B. lia.
  Qed.

  (* one query from an invariant cache: the answer is the specification and the cache stays invariant *)
  Lemma get_value_correct caching ev a t : times_sorted ev -> Inv ev a -> 0 <= t ->
    let '(a', r) := get_value caching ev a t in Inv ev a' /\ r = spec ev t /\ upd St a' = upd St a.
  Proof.
    intros Hs Ha Ht. unfold AnalyticInt.get_value.
    set (a0 := if negb caching || (t <? t_curr St a) then reset St init a else a).
    assert (Ha0 : Inv ev a0 /\ t_curr St a0 <= t /\ upd St a0 = upd St a).
    { unfold a0. destruct (negb caching || (t <? t_curr St a)) eqn:E.
      - split; [apply Inv_reset|]. cbn. split; [lia|reflexivity].
      - apply orb_false_iff in E. destruct E as [_ E]. apply Z.ltb_ge in E. auto. }
    destruct Ha0 as [[H0 Hc] [Hle Hupd]].
    rewrite (adv_sorted ev Hs).
    destruct (run_events (filter (in_window (t_curr St a0) t) ev) (t_curr St a0) (st St a0)) as [tc s] eqn:R.
    assert (Hfull : run_events (filter (in_window 0 t) ev) 0 init = (tc, s)).
    { rewrite (filter_window_split ev Hs 0 (t_curr St a0) t H0 Hle), run_events_app, Hc. exact R. }
    assert (Htc : t_curr St a0 <= tc <= t).
    { pose proof (run_events_time (filter (in_window (t_curr St a0) t) ev) (t_curr St a0) (st St a0) t
                    (filter_window_bounds _ _ _) Hle) as B. rewrite R in B. exact B. }
    split; [|split].
    - destruct (upd St a0) eqn:U.
      + unfold Inv; cbn. split; [lia|].
        (* events in (0, tc] = events in (0, t] because no event lies in (tc, t] ... shown via the run *)
        rewrite (filter_window_split ev Hs 0 tc t) in Hfull by lia.
        rewrite run_events_app in Hfull.
        destruct (run_events (filter (in_window 0 tc) ev) 0 init) as [tc1 s1] eqn:R1.
        assert (filter (in_window tc t) ev = []) as Hnil.
        { (* an event in (tc, t] would have been processed, making the reached time > tc *)
          destruct (filter (in_window tc t) ev) as [|[ts vs] rest] eqn:F; [reflexivity|exfalso].
          assert (In (ts, vs) (filter (in_window tc t) ev)) as Hin by (rewrite F; left; reflexivity).
          pose proof (filter_window_bounds _ _ _ _ Hin) as Hb. cbn [fst] in Hb.
          (* the full run ends at a time >= ts > tc *)
          assert (tc1 <= tc) as Htc1.
          { pose proof (run_events_time (filter (in_window 0 tc) ev) 0 init tc (filter_window_bounds _ _ _) ltac:(lia)) as B.
            rewrite R1 in B. cbn in B. lia. }
          cbn [AnalyticInt.run_events] in Hfull.
          assert (forall l tcx sx, (forall e, In e l -> ts <= fst e) -> ts <= tcx -> ts <= fst (run_events l tcx sx)) as Mono.
          { induction l as [|[t2 v2] l IHl]; intros tcx sx Hl Hx; cbn [AnalyticInt.run_events fst]; [exact Hx|].
            apply IHl; [intros e He; apply Hl; right; exact He|]. apply (Hl (t2, v2)); left; reflexivity. }
          assert (forall e, In e rest -> ts <= fst e) as Hrest.
          { intros e He.
            (* rest is a sorted tail of a filtered sorted list *)
            assert (times_sorted (filter (in_window tc t) ev)) as Hsf.
            { clear - Hs. induction Hs as [|x l Hl IHs Hall]; cbn [filter]; [constructor|].
              destruct (in_window tc t x); [|exact IHs]. constructor; [exact IHs|].
              rewrite Forall_forall in *. intros y Hy. apply filter_In in Hy. apply Hall. tauto. }
            rewrite F in Hsf. pose proof (sorted_tail_gt _ _ Hsf e He) as G. cbn [fst] in G. lia. }
          pose proof (Mono rest ts (bumps St bump vs (phi (ts - tc1) s1)) Hrest ltac:(lia)) as M.
          rewrite Hfull in M. cbn [fst] in M. lia. }
        rewrite Hnil in Hfull. cbn [AnalyticInt.run_events] in Hfull. exact Hfull.
      + exact (conj H0 Hc).
    - unfold AnalyticInt.spec. rewrite Hfull.
      destruct (0 <? t - tc) eqn:E; [reflexivity|].
      apply Z.ltb_ge in E. replace (t - tc) with 0 by lia. rewrite phi_0. reflexivity.
    - destruct (upd St a0) eqn:U; cbn; congruence.
  Qed.

  Lemma step_inv caching ev a o : times_sorted ev -> Inv ev a ->
    (forall t, o = Get t -> 0 <= t) -> Inv ev (fst (step caching ev a o)).
  Proof.
    intros Hs Ha Ho. destruct o as [t| | |]; cbn [AnalyticInt.step].
    - pose proof (get_value_correct caching ev a t Hs Ha (Ho t eq_refl)) as G.
      destruct (get_value caching ev a t) as [a' r]. cbn. tauto.
    - exact Ha.
    - exact Ha.
    - apply Inv_reset.
  Qed.

  Definition ops_nonneg (ops : list op) : Prop := forall t, In (Get t) ops -> 0 <= t.

  Lemma run_inv caching ev ops : times_sorted ev -> forall a, Inv ev a -> ops_nonneg ops ->
    Inv ev (fst (run caching ev a ops)).
  Proof.
    intros Hs. induction ops as [|o ops IH]; intros a Ha Hn; cbn [AnalyticInt.run]; [exact Ha|].
    pose proof (step_inv caching ev a o Hs Ha (fun t E => Hn t (or_introl E))) as H1.
    destruct (step caching ev a o) as [a' out]. cbn [fst] in H1.
    assert (ops_nonneg ops) as Hn' by (intros t Ht; apply Hn; right; exact Ht).
    specialize (IH a' H1 Hn').
    destruct (run caching ev a' ops) as [a'' outs]. exact IH.
  Qed.

  Lemma run_app caching ev ops1 ops2 a :
    run caching ev a (ops1 ++ ops2) =
    let '(a1, o1) := run caching ev a ops1 in let '(a2, o2) := run caching ev a1 ops2 in (a2, o1 ++ o2).
  Proof.
    revert a; induction ops1 as [|o ops1 IH]; intros a; cbn [app AnalyticInt.run].
    - destruct (run caching ev a ops2); reflexivity.
    - destruct (step caching ev a o) as [a' out]. rewrite IH.
      destruct (run caching ev a' ops1) as [a1 o1]. destruct (run caching ev a1 ops2) as [a2 o2].
      destruct out; reflexivity.
  Qed.

  (* C12, main theorem: after ANY history of operations the query for t returns the exact solution. *)
  Theorem exact_after_any_history caching ev ops t :
    times_sorted ev -> ops_nonneg ops -> 0 <= t ->
    last (snd (run caching ev (ai0 St init) (ops ++ [Get t]))) init = spec ev t.
  Proof.
    intros Hs Hn Ht. rewrite run_app.
    pose proof (run_inv caching ev ops Hs (ai0 St init) (Inv_ai0 ev) Hn) as HI.
    destruct (run caching ev (ai0 St init) ops) as [a1 o1]. cbn [fst] in HI.
    cbn [AnalyticInt.run AnalyticInt.step].
    pose proof (get_value_correct caching ev a1 t Hs HI Ht) as G.
    destruct (get_value caching ev a1 t) as [a' r]. destruct G as [_ [G _]].
    cbn [snd]. rewrite last_last. exact G.
  Qed.

  Corollary history_independent caching caching' ev ops ops' t :
    times_sorted ev -> ops_nonneg ops -> ops_nonneg ops' -> 0 <= t ->
    last (snd (run caching ev (ai0 St init) (ops ++ [Get t]))) init =
    last (snd (run caching' ev (ai0 St init) (ops' ++ [Get t]))) init.
  Proof.
    intros. rewrite !exact_after_any_history by assumption. reflexivity.
  Qed.

  (* every query of a history, not only the last one *)
  Theorem all_outputs_exact caching ev ops :
    times_sorted ev -> ops_nonneg ops ->
    snd (run caching ev (ai0 St init) ops) =
    map (spec ev) (flat_map (fun o => match o with Get t => [t] | _ => [] end) ops).
  Proof.
    intros Hs. generalize (Inv_ai0 ev). generalize (ai0 St init).
    induction ops as [|o ops IH]; intros a Ha Hn; cbn [AnalyticInt.run flat_map map]; [reflexivity|].
    assert (ops_nonneg ops) as Hn' by (intros t Ht; apply Hn; right; exact Ht).
    pose proof (step_inv caching ev a o Hs Ha (fun t E => Hn t (or_introl E))) as H1.
    destruct o as [t| | |]; cbn [AnalyticInt.step] in *.
    - pose proof (get_value_correct caching ev a t Hs Ha (Hn t (or_introl eq_refl))) as G.
      destruct (get_value caching ev a t) as [a' r]. cbn [fst] in H1. destruct G as [_ [G _]].
      specialize (IH a' H1 Hn'). destruct (run caching ev a' ops) as [a'' outs]. cbn [snd] in *.
      cbn [app map]. rewrite G, IH. reflexivity.
    - specialize (IH _ H1 Hn'). destruct (run caching ev _ ops) as [a'' outs]. exact IH.
    - specialize (IH _ H1 Hn'). destruct (run caching ev _ ops) as [a'' outs]. exact IH.
    - specialize (IH _ H1 Hn'). destruct (run caching ev _ ops) as [a'' outs]. exact IH.
  Qed.
End Proofs.

(* ---- set_spike_times: the merged event list is strictly time-sorted and, for each time s,
        carries exactly the variables that have a spike at s (with multiplicity, in order) --- *)

Definition syms_at (s : Z) (ev : list event) : list var :=
  concat (map snd (filter (fun e => fst e =? s) ev)).

Definition times (ev : list event) : list Z := map fst ev.

Lemma add_spike_times_in evs t v x : In x (times (add_spike evs t v)) <-> In x (times evs) \/ x = t.
Proof.
  unfold times. induction evs as [|[t' vs] r IH]; cbn [add_spike map In].
  - intuition.
  - destruct (t =? t') eqn:E; cbn [map In fst].
    + apply Z.eqb_eq in E. subst. intuition.
    + rewrite IH. intuition.
Qed.

Lemma add_spike_nodup evs t v : NoDup (times evs) -> NoDup (times (add_spike evs t v)).
Proof.
  unfold times. induction evs as [|[t' vs] r IH]; cbn [add_spike map fst]; intros H.
  - constructor; [intros []|constructor].
  - inversion H as [|? ? Hnin Hnd]; subst. destruct (t =? t') eqn:E; cbn [map fst].
    + constructor; assumption.
    + constructor; [|apply IH; exact Hnd].
      intros Hin. apply add_spike_times_in in Hin. apply Z.eqb_neq in E. destruct Hin; [tauto|congruence].
Qed.

Lemma syms_at_notin s ev : ~ In s (times ev) -> syms_at s ev = [].
Proof.
  unfold syms_at, times. induction ev as [|[t vs] r IH]; cbn [map filter fst In]; intros H; [reflexivity|].
  destruct (t =? s) eqn:E; [apply Z.eqb_eq in E; tauto|]. apply IH. tauto.
Qed.

Lemma syms_at_cons s e ev : syms_at s (e :: ev) = (if fst e =? s then snd e else []) ++ syms_at s ev.
Proof. unfold syms_at. cbn [filter]. destruct (fst e =? s); reflexivity. Qed.

Lemma add_spike_syms s evs t v : NoDup (times evs) ->
  syms_at s (add_spike evs t v) = syms_at s evs ++ (if t =? s then [v] else []).
Proof.
  induction evs as [|[t' vs] r IH]; cbn [add_spike]; intros H.
  - rewrite syms_at_cons. cbn [fst snd]. unfold syms_at at 1 2. cbn. destruct (t =? s); reflexivity.
  - unfold times in H; cbn [map fst] in H. inversion H as [|? ? Hnin Hnd]; subst.
    destruct (t =? t') eqn:E.
    + apply Z.eqb_eq in E; subst t'. rewrite !syms_at_cons. cbn [fst snd].
      destruct (t =? s) eqn:E2.
      * apply Z.eqb_eq in E2; subst s. rewrite (syms_at_notin t r Hnin). rewrite !app_nil_r. reflexivity.
      * rewrite app_nil_r. reflexivity.
    + rewrite !syms_at_cons, (IH Hnd). cbn [fst snd]. rewrite app_assoc. reflexivity.
Qed.

Definition add_flat (evs : list event) (l : list (Z * var)) : list event :=
  fold_left (fun e p => add_spike e (fst p) (snd p)) l evs.

Lemma collect_flat spk : collect spk = add_flat [] (flat spk).
Proof.
  unfold collect, flat, add_flat. generalize (@nil event).
  induction spk as [|[v ts] spk IH]; intros acc; cbn [fold_left map concat]; [reflexivity|].
  rewrite fold_left_app, IH. f_equal.
  unfold add_spikes_of. cbn [fst snd]. clear. revert acc.
  induction ts as [|t ts IHt]; intros acc; cbn [map fold_left]; [reflexivity|]. apply IHt.
Qed.

Lemma add_flat_nodup l : forall evs, NoDup (times evs) -> NoDup (times (add_flat evs l)).
Proof.
  unfold add_flat. induction l as [|[t v] l IH]; intros evs H; cbn [fold_left]; [exact H|].
  apply IH. apply add_spike_nodup. exact H.
Qed.

Lemma add_flat_syms s l : forall evs, NoDup (times evs) ->
  syms_at s (add_flat evs l) = syms_at s evs ++ map snd (filter (fun p => fst p =? s) l).
Proof.
  unfold add_flat. induction l as [|[t v] l IH]; intros evs H; cbn [fold_left filter map fst snd].
  - rewrite app_nil_r. reflexivity.
  - rewrite (IH _ (add_spike_nodup evs t v H)), (add_spike_syms s evs t v H), <- app_assoc.
    destruct (t =? s); reflexivity.
Qed.

Lemma add_flat_times_in l x : forall evs, In x (times (add_flat evs l)) <-> In x (times evs) \/ In x (map fst l).
Proof.
  unfold add_flat. induction l as [|[t v] l IH]; intros evs; cbn [fold_left map fst In].
  - tauto.
  - rewrite IH, add_spike_times_in. intuition.
Qed.

(* insertion sort by time *)
Lemma insert_in e l x : In x (insert_ev e l) <-> x = e \/ In x l.
Proof.
  induction l as [|e' r IH]; cbn [insert_ev In].
  - intuition.
  - destruct (fst e <=? fst e'); cbn [In]; [intuition|]. rewrite IH. intuition.
Qed.

Lemma insert_sorted e l : times_sorted l -> ~ In (fst e) (times l) -> times_sorted (insert_ev e l).
Proof.
  unfold times. induction l as [|e' r IH]; cbn [insert_ev map In]; intros Hs Hn.
  - constructor; constructor.
  - inversion Hs as [|? ? Hs' Hall]; subst. destruct (fst e <=? fst e') eqn:E.
    + apply Z.leb_le in E. constructor; [exact Hs|].
      assert (fst e < fst e') as Hlt by (assert (fst e' <> fst e) by tauto; lia).
      constructor; [exact Hlt|]. rewrite Forall_forall in *. intros y Hy. specialize (Hall y Hy).
      unfold ev_lt in *. lia.
    + apply Z.leb_gt in E. constructor; [apply IH; [exact Hs'|tauto]|].
      rewrite Forall_forall in *. intros y Hy. apply insert_in in Hy. destruct Hy as [->|Hy]; [exact E|exact (Hall y Hy)].
Qed.

Lemma sort_in l x : In x (sort_ev l) <-> In x l.
Proof.
  unfold sort_ev. induction l as [|a l IH]; cbn [fold_right In]; [tauto|].
  rewrite insert_in, IH. intuition.
Qed.

Lemma sort_sorted l : NoDup (times l) -> times_sorted (sort_ev l).
Proof.
  unfold times, sort_ev. induction l as [|a l IH]; cbn [fold_right map]; intros H.
  - constructor.
  - inversion H as [|? ? Hnin Hnd]; subst. apply insert_sorted; [apply IH; exact Hnd|].
    intros Hin. apply Hnin. unfold times in Hin. apply in_map_iff in Hin. destruct Hin as [y [Hy1 Hy2]].
    apply in_map_iff. exists y. split; [exact Hy1|]. apply (sort_in l y). exact Hy2.
Qed.

Lemma insert_syms s e l : ~ In (fst e) (times l) ->
  syms_at s (insert_ev e l) = (if fst e =? s then snd e else []) ++ syms_at s l.
Proof.
  unfold times. induction l as [|e' r IH]; cbn [insert_ev map In]; intros Hn.
  - apply syms_at_cons.
  - destruct (fst e <=? fst e'); [apply syms_at_cons|].
    rewrite !syms_at_cons, IH by tauto.
    destruct (fst e' =? s) eqn:E1; destruct (fst e =? s) eqn:E2; cbn [app]; try reflexivity.
    apply Z.eqb_eq in E1, E2. exfalso. apply Hn. left. congruence.
Qed.

Lemma sort_syms s l : NoDup (times l) -> syms_at s (sort_ev l) = syms_at s l.
Proof.
  unfold times, sort_ev. induction l as [|a l IH]; cbn [fold_right map]; intros H; [reflexivity|].
  inversion H as [|? ? Hnin Hnd]; subst. rewrite insert_syms, syms_at_cons, (IH Hnd); [reflexivity|].
  intros Hin. apply Hnin. unfold times in Hin. apply in_map_iff in Hin. destruct Hin as [y [Hy1 Hy2]].
  apply in_map_iff. exists y. split; [exact Hy1|]. apply (sort_in l y). exact Hy2.
Qed.

Theorem merge_sorted spk : times_sorted (merge spk).
Proof.
  unfold merge. apply sort_sorted. rewrite collect_flat. apply add_flat_nodup. constructor.
Qed.

(* the variables bumped at time s are exactly those listed with a spike at s: every
   occurrence once (duplicates and coincident spikes on several variables all kept) *)
Theorem merge_syms spk s :
  syms_at s (merge spk) = map snd (filter (fun p => fst p =? s) (flat spk)).
Proof.
  unfold merge. assert (NoDup (times (collect spk))) as Hnd.
  { rewrite collect_flat. apply add_flat_nodup. constructor. }
  rewrite (sort_syms s _ Hnd), collect_flat, add_flat_syms by constructor. reflexivity.
Qed.

Theorem merge_times spk x : In x (times (merge spk)) <-> In x (map fst (flat spk)).
Proof.
  unfold merge, times. rewrite in_map_iff. split.
  - intros [y [Hy1 Hy2]]. apply (proj1 (sort_in _ _)) in Hy2.
    assert (In x (times (collect spk))) as H by (unfold times; apply in_map_iff; exists y; tauto).
    rewrite collect_flat in H. apply add_flat_times_in in H. cbn in H. tauto.
  - intros H. assert (In x (times (collect spk))) as H'.
    { rewrite collect_flat. apply add_flat_times_in. right. exact H. }
    unfold times in H'. apply in_map_iff in H'. destruct H' as [y [Hy1 Hy2]]. exists y. split; [exact Hy1|].
    apply sort_in. exact Hy2.
Qed.

(* every merged event carries at least one variable *)
Lemma add_spike_nonempty evs t v : Forall (fun e : event => snd e <> []) evs -> Forall (fun e : event => snd e <> []) (add_spike evs t v).
Proof.
  induction evs as [|[t' vs] r IH]; intros H; cbn [add_spike].
  - constructor; [cbn; discriminate|constructor].
  - inversion H as [|? ? Hh Ht]; subst. destruct (t =? t').
    + constructor; [cbn; destruct vs; discriminate|exact Ht].
    + constructor; [exact Hh|apply IH; exact Ht].
Qed.

Lemma add_flat_nonempty l : forall evs, Forall (fun e : event => snd e <> []) evs -> Forall (fun e : event => snd e <> []) (add_flat evs l).
Proof.
  unfold add_flat. induction l as [|[t v] l IH]; intros evs H; cbn [fold_left]; [exact H|].
  apply IH. apply add_spike_nonempty. exact H.
Qed.

Theorem merge_nonempty spk : forall e, In e (merge spk) -> snd e <> [].
Proof.
  intros e He. unfold merge in He. apply (proj1 (sort_in _ _)) in He. rewrite collect_flat in He.
  pose proof (add_flat_nonempty (flat spk) [] (Forall_nil _)) as H. rewrite Forall_forall in H. apply H. exact He.
Qed.

(* ---- the reference does not depend on how the spike map is presented -------------------------
   Two spike maps that list the same (time, variable) pairs in any order — variables in another order,
   times unsorted, duplicates kept — give the same exact solution, provided increments commute
   (they add to different or the same components of the state). *)
Section Presentation.
  Variable St : Type.
  Variable phi : Z -> St -> St.
  Variable bump : var -> St -> St.
  Variable init : St.
  Hypothesis bump_comm : forall v w s, bump v (bump w s) = bump w (bump v s).

  Notation bumps := (bumps St bump).
  Notation run_events := (run_events St phi bump).
  Notation spec := (spec St phi bump init).

  Lemma bumps_cons v vs s : bumps (v :: vs) s = bumps vs (bump v s).
  Proof. reflexivity. Qed.

  Lemma bump_bumps v vs : forall s, bump v (bumps vs s) = bumps vs (bump v s).
  Proof.
    induction vs as [|w vs IH]; intros s; [reflexivity|]. rewrite !bumps_cons, IH, bump_comm. reflexivity.
  Qed.

  Lemma bumps_perm vs vs' : Permutation vs vs' -> forall s, bumps vs s = bumps vs' s.
  Proof.
    induction 1 as [|v l l' Hp IH|v w l|l1 l2 l3 H1 IH1 H2 IH2]; intros s.
    - reflexivity.
    - rewrite !bumps_cons. apply IH.
    - rewrite !bumps_cons, bump_comm. reflexivity.
    - rewrite IH1. apply IH2.
  Qed.

  Definition ev_equiv (e e' : event) : Prop := fst e = fst e' /\ Permutation (snd e) (snd e').

  Lemma run_events_equiv evs evs' : Forall2 ev_equiv evs evs' -> forall tc s, run_events evs tc s = run_events evs' tc s.
  Proof.
    induction 1 as [|[t vs] [t' vs'] l l' [Ht Hp] Hl IH]; intros tc s; [reflexivity|].
    cbn [fst snd] in Ht, Hp. subst t'. cbn [AnalyticInt.run_events]. rewrite (bumps_perm vs vs' Hp). apply IH.
  Qed.

  Lemma filter_equiv (f : Z -> bool) evs evs' : Forall2 ev_equiv evs evs' ->
    Forall2 ev_equiv (filter (fun e => f (fst e)) evs) (filter (fun e => f (fst e)) evs').
  Proof.
    induction 1 as [|e e' l l' [Ht Hp] Hl IH]; cbn [filter]; [constructor|].
    rewrite <- Ht. destruct (f (fst e)); [constructor; [split; assumption|exact IH]|exact IH].
  Qed.

  Theorem spec_equiv evs evs' t : Forall2 ev_equiv evs evs' -> spec evs t = spec evs' t.
  Proof.
    intros H. unfold AnalyticInt.spec.
    assert (Forall2 ev_equiv (filter (in_window 0 t) evs) (filter (in_window 0 t) evs')) as F.
    { exact (filter_equiv (fun x => (0 <? x) && (x <=? t)) evs evs' H). }
    rewrite (run_events_equiv _ _ F 0 init). reflexivity.
  Qed.

  (* strictly time-sorted event lists with the same times and, at each time, permuted variable lists *)
  Lemma sorted_same_times evs : forall evs', times_sorted evs -> times_sorted evs' ->
    (forall x, In x (times evs) <-> In x (times evs')) ->
    (forall s, Permutation (syms_at s evs) (syms_at s evs')) -> Forall2 ev_equiv evs evs'.
  Proof.
    induction evs as [|[t vs] r IH]; intros evs' Hs Hs' Ht Hsy.
    - destruct evs' as [|[t' vs'] r']; [constructor|]. exfalso. apply (proj2 (Ht t')). left. reflexivity.
    - destruct evs' as [|[t' vs'] r']; [exfalso; apply (proj1 (Ht t)); left; reflexivity|].
      pose proof (sorted_tail_gt (t, vs) r Hs) as G. pose proof (sorted_tail_gt (t', vs') r' Hs') as G'.
      assert (t = t') as E.
      { destruct (proj1 (Ht t) (or_introl eq_refl)) as [E|Hin]; [cbn in E; congruence|].
        destruct (proj2 (Ht t') (or_introl eq_refl)) as [E|Hin']; [cbn in E; congruence|].
        unfold times in Hin, Hin'. apply in_map_iff in Hin. apply in_map_iff in Hin'. destruct Hin as [e [He1 He2]]. destruct Hin' as [e' [He1' He2']].
        specialize (G' e He2). specialize (G e' He2'). cbn [fst] in *. lia. }
      subst t'. constructor.
      + split; [reflexivity|]. cbn [snd]. specialize (Hsy t). rewrite !syms_at_cons in Hsy. cbn [fst snd] in Hsy. rewrite !Z.eqb_refl in Hsy.
        rewrite (syms_at_notin t r), (syms_at_notin t r'), !app_nil_r in Hsy; [exact Hsy| |].
        * unfold times. intros Hin. apply in_map_iff in Hin. destruct Hin as [e [He1 He2]]. specialize (G' e He2). cbn [fst] in *. lia.
        * unfold times. intros Hin. apply in_map_iff in Hin. destruct Hin as [e [He1 He2]]. specialize (G e He2). cbn [fst] in *. lia.
      + apply IH; [exact (sorted_tail _ _ Hs)|exact (sorted_tail _ _ Hs')| |].
        * intros x. specialize (Ht x). unfold times in *. cbn [map fst In] in Ht. split; intros Hx.
          -- destruct (proj1 Ht (or_intror Hx)) as [E|H']; [|exact H']. exfalso. subst x. apply in_map_iff in Hx. destruct Hx as [e [He1 He2]]. specialize (G e He2). cbn [fst] in *. lia.
          -- destruct (proj2 Ht (or_intror Hx)) as [E|H']; [|exact H']. exfalso. subst x. apply in_map_iff in Hx. destruct Hx as [e [He1 He2]]. specialize (G' e He2). cbn [fst] in *. lia.
        * intros s. specialize (Hsy s). rewrite !syms_at_cons in Hsy. cbn [fst snd] in Hsy. destruct (t =? s) eqn:Ets; [|exact Hsy].
          apply Z.eqb_eq in Ets. subst s. rewrite (syms_at_notin t r), (syms_at_notin t r'); [constructor| |].
          -- unfold times. intros Hin. apply in_map_iff in Hin. destruct Hin as [e [He1 He2]]. specialize (G' e He2). cbn [fst] in *. lia.
          -- unfold times. intros Hin. apply in_map_iff in Hin. destruct Hin as [e [He1 He2]]. specialize (G e He2). cbn [fst] in *. lia.
  Qed.

  Theorem spec_presentation_independent spk spk' t : Permutation (flat spk) (flat spk') ->
    spec (merge spk) t = spec (merge spk') t.
  Proof.
    intros Hp. apply spec_equiv. apply sorted_same_times; [apply merge_sorted|apply merge_sorted| |].
    - intros x. rewrite !merge_times. split; intros H; apply in_map_iff in H; destruct H as [p [<- Hp']]; apply in_map;
        [apply (Permutation_in _ Hp)|apply (Permutation_in _ (Permutation_sym Hp))]; exact Hp'.
    - intros s. rewrite !merge_syms. apply Permutation_map. clear - Hp. induction Hp; cbn [filter].
      + constructor.
      + destruct (fst x =? s); [constructor|]; assumption.
      + destruct (fst x =? s); destruct (fst y =? s); try apply perm_swap; try (constructor; apply Permutation_refl); apply Permutation_refl.
      + eapply Permutation_trans; eassumption.
  Qed.
End Presentation.
