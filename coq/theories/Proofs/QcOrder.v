(* Qc (canonical rationals) is an instance of the ordered number type used by Proofs/SpikeGenP.v *)
From Coq Require Import QArith Qcanon Bool List Lia Lqa.
From OdeVerif Require Import Base.Corr.

Lemma qc_ltb_lt a b : qc_ltb a b = true <-> (a < b)%Qc.
Proof. unfold qc_ltb. rewrite Qclt_alt. destruct (a ?= b)%Qc; split; congruence. Qed.

Lemma qc_leb_le a b : qc_leb a b = true <-> (a <= b)%Qc.
Proof. unfold qc_leb. rewrite Qcle_alt. destruct (a ?= b)%Qc; split; congruence. Qed.

Lemma qc_leb_ltb a b : qc_leb a b = negb (qc_ltb b a).
Proof.
  destruct (qc_leb a b) eqn:E1; destruct (qc_ltb b a) eqn:E2; cbn; try reflexivity.
  - apply qc_leb_le in E1. apply qc_ltb_lt in E2. exfalso. exact (Qcle_not_lt _ _ E1 E2).
  - exfalso. assert (~ (a <= b)%Qc) as H1 by (intros H; apply qc_leb_le in H; congruence).
    assert (~ (b < a)%Qc) as H2 by (intros H; apply qc_ltb_lt in H; congruence).
    apply H1. apply Qcnot_lt_le. exact H2.
Qed.

Lemma qc_ltb_trans a b c : qc_ltb a b = true -> qc_ltb b c = true -> qc_ltb a c = true.
Proof. rewrite !qc_ltb_lt. apply Qclt_trans. Qed.

Lemma qc_ltb_irrefl a : qc_ltb a a = false.
Proof. destruct (qc_ltb a a) eqn:E; [|reflexivity]. apply qc_ltb_lt in E. exfalso. exact (Qclt_not_eq _ _ E eq_refl). Qed.

Lemma qc_ltb_total a b : qc_ltb a b = false -> qc_ltb b a = false -> a = b.
Proof.
  intros H1 H2.
  assert (~ (a < b)%Qc) as N1 by (intros H; apply qc_ltb_lt in H; congruence).
  assert (~ (b < a)%Qc) as N2 by (intros H; apply qc_ltb_lt in H; congruence).
  apply Qcle_antisym; apply Qcnot_lt_le; assumption.
Qed.

Lemma qc_add_pos t d : (0 < d)%Qc -> qc_ltb t (t + d)%Qc = true.
Proof.
  intros H. apply qc_ltb_lt. unfold Qclt in *.
  change (this (t + d)%Qc) with (Qred (this t + this d)). change (this 0%Qc) with 0%Q in H.
  rewrite Qred_correct. lra.
Qed.

Lemma qc_add_mono t a b : qc_leb a b = true -> qc_leb (t + a)%Qc (t + b)%Qc = true.
Proof. rewrite !qc_leb_le. intros H. apply Qcplus_le_compat; [apply Qcle_refl|exact H]. Qed.
