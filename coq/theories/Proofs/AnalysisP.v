(* Soundness and closure of analytic membership for the model of
   _find_analytically_solvable_equations. *)
From Coq Require Import List Bool Arith Lia Permutation.
From OdeVerif Require Import Model.Term Model.Split Model.System Model.Graph Proofs.GraphP.
Import ListNotations.

Lemma nth_map_seq {A} (g : nat -> A) n i d : i < n -> nth i (map g (seq 0 n)) d = g i.
Proof.
  intros Hi. rewrite (nth_indep _ d (g 0)) by (rewrite map_length, seq_length; exact Hi).
  rewrite map_nth, seq_nth by exact Hi. reflexivity.
Qed.

Section AnalysisP.
  Variable K : Type.
  Variable kone : K.
  Variable fdeps : nat -> list atom.
  Variable par : atom -> bool.

  Lemma dep_edges_range n (sys : list (row K)) a b : dep (dep_edges fdeps n sys) a b -> a < n /\ b < n.
  Proof.
    unfold dep, dep_edges. intros H. apply in_flat_map in H. destruct H as [i [Hi H]].
    apply in_flat_map in H. destruct H as [j [Hj H]]. apply in_seq in Hi, Hj.
    destruct (negb _ || _); [|destruct H]. destruct H as [H|[]]. inversion H; subst. lia.
  Qed.

  Lemma demotion_rules_le n sys m i : i < n -> nth i (demotion_rules K n sys m) false = true -> nth i m false = true.
  Proof.
    intros Hi. unfold demotion_rules. rewrite nth_map_seq by exact Hi.
    destruct (_ || _); [discriminate|tauto].
  Qed.

  Lemma demotion_rules_length n sys m : length (demotion_rules K n sys m) = n.
  Proof. unfold demotion_rules. rewrite map_length, seq_length. reflexivity. Qed.

  Lemma initial_verdict_nth n shapes i : i < n ->
    nth i (initial_verdict K fdeps par n shapes) false =
    match shape_of K shapes i with Some sh => shape_lin K fdeps par n sh | None => false end.
  Proof.
    intros Hi. unfold initial_verdict. rewrite nth_map_seq by exact Hi. reflexivity.
  Qed.

  (* analytic  =>  the shape's verdict was "linear, constant coefficients" *)
  Theorem analytic_sound n shapes r i : i < n ->
    verdicts K kone fdeps par n shapes = Some r -> nth i r false = true ->
    exists sh, shape_of K shapes i = Some sh /\ shape_lin K fdeps par n sh = true.
  Proof.
    intros Hi Hv Hr. unfold verdicts in Hv.
    set (sys := from_shapes K kone fdeps par n shapes) in *.
    set (ml := demotion_rules K n sys (initial_verdict K fdeps par n shapes)) in *.
    assert (length ml = n) as Hl by apply demotion_rules_length.
    destruct (propagate_judgements_spec (dep_edges fdeps n sys) ml r) as [_ Hspec]; [|exact Hv|].
    { intros a b Hd. rewrite Hl. apply (dep_edges_range n sys a b Hd). }
    rewrite Hl in Hspec. pose proof (proj1 (Hspec i Hi) Hr i (reach_refl _ i)) as Hm.
    unfold mark_of in Hm. apply (demotion_rules_le n sys _ i Hi) in Hm.
    rewrite (initial_verdict_nth n shapes i Hi) in Hm.
    destruct (shape_of K shapes i) as [sh|]; [|discriminate]. exists sh. split; [reflexivity|exact Hm].
  Qed.

  (* analytic  =>  every variable its equation depends on is analytic *)
  Theorem analytic_closed n shapes r i j : i < n ->
    verdicts K kone fdeps par n shapes = Some r -> nth i r false = true ->
    dep (dep_edges fdeps n (from_shapes K kone fdeps par n shapes)) i j -> nth j r false = true.
  Proof.
    intros Hi Hv Hr Hd. unfold verdicts in Hv.
    set (sys := from_shapes K kone fdeps par n shapes) in *.
    set (ml := demotion_rules K n sys (initial_verdict K fdeps par n shapes)) in *.
    assert (length ml = n) as Hl by apply demotion_rules_length.
    destruct (propagate_judgements_spec (dep_edges fdeps n sys) ml r) as [_ Hspec]; [|exact Hv|].
    { intros a b Hd'. rewrite Hl. apply (dep_edges_range n sys a b Hd'). }
    rewrite Hl in Hspec. destruct (dep_edges_range n sys i j Hd) as [_ Hj].
    apply (Hspec j Hj). intros w Hw. apply (proj1 (Hspec i Hi) Hr). eapply reach_step; eassumption.
  Qed.

  (* the partition into analytic and numeric variables is an exact cover of the state vector *)
  Theorem exact_cover n (r : list bool) :
    let analytic := filter (fun i => nth i r false) (seq 0 n) in
    let numeric := filter (fun i => negb (nth i r false)) (seq 0 n) in
    Permutation (analytic ++ numeric) (seq 0 n) /\ NoDup (analytic ++ numeric).
  Proof.
    cbv zeta. pose proof (partition_perm (fun i => nth i r false) (seq 0 n)) as P. split; [exact P|].
    eapply Permutation_NoDup; [apply Permutation_sym; exact P|apply seq_NoDup].
  Qed.
End AnalysisP.
