(* Which symbols can occur in the update expression of an analytically solved variable.
   Model/Propagator.update is parametric in the carrier; instantiated with "the list of symbols occurring"
   (sum and product = concatenation, negation = identity, zero = no symbol) it computes the symbols of the
   expression that generate_propagator_solver concatenates from exactly these pieces.  (SymPy's simplification of
   the result is assumed not to introduce symbols.) *)
From Coq Require Import List Bool Arith.
From OdeVerif Require Import Model.Propagator.
Import ListNotations.

Section Symbols.
  Variable S : Type.
  Variable n : nat.
  Variables (X : nat -> S) (Pn : nat -> nat -> S) (H : S).     (* state variable symbols, propagator symbols, the time step *)
  Variables (bsyms pssyms : nat -> list S).                     (* symbols of the offset b_r and of the particular solution -b_r/A_rr *)
  Variable Pnz : nat -> nat -> bool.
  Variables (bnz annz : nat -> bool).

  Definition usyms (r : nat) : list S :=
    update (list S) [] (@app S) (@app S) (fun l => l) n bsyms (fun c => [X c]) (fun r c => [Pn r c]) [H] pssyms Pnz bnz annz r.

  Lemma in_fold_app (f : nat -> list S) s (l : list nat) :
    In s (fold_right (fun k acc => f k ++ acc) [] l) -> exists c, In c l /\ In s (f c).
  Proof.
    induction l as [|k l IH]; cbn [fold_right]; [intros []|].
    intros Hin. apply in_app_or in Hin. destruct Hin as [Hin|Hin].
    - exists k. split; [left; reflexivity|exact Hin].
    - destruct (IH Hin) as [c [Hc Hs]]. exists c. split; [right; exact Hc|exact Hs].
  Qed.

  (* every symbol of the update expression of row r is: the propagator symbol P_rc or the state variable x_c of a
     column c < n of the same (analytic) sub-system with a non-zero propagator entry; the row's own propagator and
     variable; the time step; or a symbol of the row's own offset / particular solution (parameters of the input) *)
  Theorem update_symbols r s : In s (usyms r) ->
    (exists c, c < n /\ Pnz r c = true /\ (s = Pn r c \/ s = X c))
    \/ s = Pn r r \/ s = X r \/ s = H \/ In s (bsyms r) \/ In s (pssyms r).
  Proof.
    unfold usyms, update, offset, sumn. intros Hin. apply in_app_or in Hin. destruct Hin as [Hin|Hin].
    - left. apply in_fold_app in Hin. destruct Hin as [c [Hc Hs]]. apply in_seq in Hc.
      destruct (Pnz r c) eqn:E; [|destruct Hs].
      exists c. split; [apply Hc|]. split; [exact E|].
      cbn [app In] in Hs. destruct Hs as [Hs|[Hs|[]]]; [left|right]; symmetry; exact Hs.
    - right. destruct (bnz r); [|destruct Hin]. destruct (annz r).
      + cbn [app In] in Hin.
        repeat (apply in_app_or in Hin; destruct Hin as [Hin|Hin]) || idtac.
        all: try (cbn [In] in Hin).
        all: repeat match goal with
             | Hx : _ \/ _ |- _ => destruct Hx as [Hx|Hx]
             | Hx : False |- _ => destruct Hx
             | Hx : In _ (_ ++ _) |- _ => apply in_app_or in Hx
             | Hx : In _ (_ :: _) |- _ => cbn [In] in Hx
             end.
        all: try (subst s; tauto).
        all: tauto.
      + apply in_app_or in Hin. destruct Hin as [Hin|Hin].
        * cbn [In] in Hin. destruct Hin as [<-|[]]. tauto.
        * tauto.
  Qed.
End Symbols.

(* the same with symbols tagged by their kind: the only STATE VARIABLES an analytic update reads are columns of the
   analytic sub-system itself (c < n, with a non-zero propagator entry) or the row's own variable *)
Inductive tsym (Par : Type) := TVar (c : nat) | TProp (r c : nat) | TStep | TPar (p : Par).
Arguments TVar {Par}. Arguments TProp {Par}. Arguments TStep {Par}. Arguments TPar {Par}.

Theorem update_reads_own_solver (Par : Type) (n : nat) (bpars pspars : nat -> list Par) (Pnz : nat -> nat -> bool) (bnz annz : nat -> bool) (r c : nat) :
  In (TVar c) (usyms (tsym Par) n TVar TProp TStep (fun k => map TPar (bpars k)) (fun k => map TPar (pspars k)) Pnz bnz annz r) ->
  (c < n /\ Pnz r c = true) \/ c = r.
Proof.
  intros Hin. apply update_symbols in Hin.
  destruct Hin as [[c' [Hc [Hp [E|E]]]]|[E|[E|[E|[E|E]]]]]; try discriminate.
  - inversion E; subst. left. split; assumption.
  - inversion E; subst. right. reflexivity.
  - apply in_map_iff in E. destruct E as [p [E _]]. discriminate.
  - apply in_map_iff in E. destruct E as [p [E _]]. discriminate.
Qed.
