(* Helpers for the correspondence check: the comparison between the model's output and the
   implementation's recorded output is computed inside Coq (vm_compute) by these functions. *)
From Coq Require Import List Bool Arith ZArith QArith Qcanon.
Import ListNotations.

Fixpoint mism_from {A} (agree : A -> bool) (i : nat) (cases : list A) : list nat :=
  match cases with
  | [] => []
  | c :: r => if agree c then mism_from agree (S i) r else i :: mism_from agree (S i) r
  end.

Definition mism_by {A} (agree : A -> bool) (cases : list A) : list nat := mism_from agree 0 cases.

Fixpoint list_eqb {A} (eqb : A -> A -> bool) (l1 l2 : list A) : bool :=
  match l1, l2 with
  | [], [] => true
  | a :: r1, b :: r2 => eqb a b && list_eqb eqb r1 r2
  | _, _ => false
  end.

Definition qc_eqb (a b : Qc) : bool := Qeq_bool (this a) (this b).
Definition option_eqb {A} (eqb : A -> A -> bool) (a b : option A) : bool :=
  match a, b with Some x, Some y => eqb x y | None, None => true | _, _ => false end.

Definition qc_ltb (a b : Qc) : bool := match (a ?= b)%Qc with Lt => true | _ => false end.
Definition qc_leb (a b : Qc) : bool := match (a ?= b)%Qc with Gt => false | _ => true end.
Definition string_eqb (a b : String.string) : bool := if String.string_dec a b then true else false.
