(* Executable PrimFloat instance of Model/SpikeGen.v (bit-exact correspondence with the
   implementation's float arithmetic) and the model of spike_times_from_json as a whole. *)
From Coq Require Import List Bool Arith String Ascii PrimFloat.
From OdeVerif Require Import Base.Corr Model.SpikeGen.
Import ListNotations.

Definition f_regular := regular float PrimFloat.add PrimFloat.ltb PrimFloat.leb.
Definition f_poisson := poisson float PrimFloat.add PrimFloat.ltb PrimFloat.leb.
Definition f_list := list_stim float PrimFloat.leb.

Inductive stim :=
| SPoisson (rate : float)
| SRegular (rate : float) (fuel : nat)
| SList (l : list float)
| SUnknown.

(* sym.replace("'", marker) *)
Fixpoint rename (marker : string) (s : string) : string :=
  match s with
  | EmptyString => EmptyString
  | String c r => if Ascii.eqb c "'"%char then (marker ++ rename marker r)%string else String c (rename marker r)
  end.

Definition min_isi : float := 0x1.0c6f7a0b5ed8dp-20%float.   (* 1E-6 *)

(* one stimulus: its targets in the order the implementation iterates over set(variables) *)
Fixpoint gen_targets (marker : string) (st : stim) (T : float) (targets : list string) (raw : list float)
  : option (list (string * list float) * list float) :=
  match targets with
  | [] => Some ([], raw)
  | v :: vs =>
      let r := match st with
               | SPoisson rate =>
                   (* isi = -log(1 - u) / rate ; raw holds -log(1 - u) *)
                   match f_poisson (map (fun L => PrimFloat.div L rate) raw) min_isi T 0%float with
                   | Some (tr, rest) => Some (tr, skipn (List.length raw - List.length rest) raw)
                   | None => None
                   end
               | SRegular rate fuel =>
                   match f_regular fuel (PrimFloat.div 1%float rate) T 0%float with
                   | Some tr => Some (tr, raw) | None => None end
               | SList l => Some (f_list T l, raw)
               | SUnknown => None
               end in
      match r with
      | None => None
      | Some (tr, raw') =>
          match gen_targets marker st T vs raw' with
          | None => None
          | Some (more, raw'') => Some ((rename marker v, tr) :: more, raw'')
          end
      end
  end.

Fixpoint gen_visits (marker : string) (stims : list (stim * list string)) (T : float) (raw : list float)
  : option (list (string * list float)) :=
  match stims with
  | [] => Some []
  | (st, targets) :: r =>
      match gen_targets marker st T targets raw with
      | None => None
      | Some (vis, raw') => match gen_visits marker r T raw' with None => None | Some more => Some (vis ++ more) end
      end
  end.

Definition model_json (marker : string) (stims : list (stim * list string)) (T : float) (raw : list float)
  : option (list (string * list float)) :=
  match gen_visits marker stims T raw with
  | None => None
  | Some visits => Some (dispatch string String.eqb float visits)
  end.

Record c15case := { sMarker : string; sStims : list (stim * list string); sT : float; sRaw : list float;
                    sObs : option (list (string * list float)) }.

Definition pair_eqb (a b : string * list float) : bool :=
  String.eqb (fst a) (fst b) && list_eqb PrimFloat.eqb (snd a) (snd b).

Definition agree (c : c15case) : bool :=
  option_eqb (list_eqb pair_eqb) (model_json (sMarker c) (sStims c) (sT c) (sRaw c)) (sObs c).
Definition mism (cases : list c15case) : list nat := mism_by agree cases.
