(* Model of the order search of Shape.from_function (shapes.py:415-553).  All symbolic work (is f
   non-zero at an integer time, is the sampled matrix invertible, does the identity
   f^(n) = sum a_k f^(k) simplify to zero) is done by SymPy: oracles whose answers are data. *)
From Coq Require Import List Bool Arith.
Import ListNotations.

Section FromFunction.
  Variable max_t max_order : nat.
  Variable nonzero : nat -> bool.                  (* not _is_zero(f(t)) for integer t *)
  Variable verify1 : bool.                         (* _is_zero(f' - a0 f) with a0 sampled at t_val *)
  Variable invertible : nat -> nat -> bool.        (* order, t_ : det X != 0 *)
  Variable verify : nat -> bool.                   (* order: the identity with the solved factors simplifies to 0 *)

  Inductive ff_result := FoundOrder (n : nat) | NoNonzeroTime | NoOde.

  Definition first_nonzero : option nat := find nonzero (seq 0 max_t).
  Definition first_invertible (order : nat) : option nat := find (invertible order) (seq 1 (max_t - 1)).

  (* the while loop, from the current order (not yet found) *)
  Fixpoint search (fuel order : nat) : ff_result :=
    match fuel with
    | O => NoOde
    | S f =>
        if order <? max_order then
          let order' := S order in
          match first_invertible order' with
          | None => search f order'                       (* continue: try the next order *)
          | Some _ => if verify order' then FoundOrder order' else search f order'
          end
        else NoOde
    end.

  Definition from_function : ff_result :=
    match first_nonzero with
    | None => NoNonzeroTime
    | Some _ => if verify1 then FoundOrder 1 else search max_order 1
    end.
End FromFunction.
