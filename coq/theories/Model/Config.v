(* Model of the process-global option store (config.py:28-38) and of the way one call of
   _analysis touches it (__init__.py:93-101, 197-200).  The sequence of store operations a call
   performs is regenerated from the source (Gen/ConfigGen.v). *)
From Coq Require Import List String Bool.
Import ListNotations.

Inductive cfg_op :=
| Reset                       (* Config.reset(): restore every option to its default *)
| ReadOptions                 (* _read_global_config(indict): write each key of indict["options"];
                                 an unknown key raises (the keys before it stay written) *)
| WriteArg (k : string).      (* if <argument>: Config.config[k] = <argument> *)

Section Store.
  Variable V : Type.
  Definition store := string -> option V.

  Definition of_list (l : list (string * V)) : store :=
    fun k => match find (fun e => String.eqb (fst e) k) l with Some e => Some (snd e) | None => None end.
  Definition write (s : store) (k : string) (v : V) : store := fun k' => if String.eqb k' k then Some v else s k'.

  (* what one call brings: its options block (in order) and the values of the keyword arguments that
     are written into the store when given *)
  Record call := mkCall { c_options : list (string * V) ; c_args : list (string * V) }.

  (* state while the prelude runs: the store, and whether an exception has ended the call *)
  Fixpoint read_opts (l : list (string * V)) (s : store) : store * bool :=
    match l with
    | [] => (s, false)
    | (k, v) :: r => match s k with None => (s, true) | Some _ => read_opts r (write s k v) end
    end.

  Definition apply_op (defaults : store) (c : call) (st : store * bool) (o : cfg_op) : store * bool :=
    if snd st then st else
    match o with
    | Reset => (defaults, false)
    | ReadOptions => read_opts (c_options c) (fst st)
    | WriteArg k => match find (fun e => String.eqb (fst e) k) (c_args c) with
                    | Some e => (write (fst st) k (snd e), false) | None => st end
    end.

  (* the store the rest of the analysis reads during this call (and leaves behind) *)
  Definition store_in_call (defaults : store) (prelude : list cfg_op) (c : call) (s : store) : store :=
    fst (fold_left (apply_op defaults c) prelude (s, false)).

  (* the store left behind by a history of calls (a failing call leaves its writes behind too) *)
  Definition after_history (defaults : store) (prelude : list cfg_op) (hist : list call) (s0 : store) : store :=
    fold_left (fun s c => store_in_call defaults prelude c s) hist s0.
End Store.
Arguments mkCall {V}. Arguments c_options {V}. Arguments c_args {V}.
