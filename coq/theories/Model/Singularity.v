(* Model of odetoolbox/singularity_detection.py:88-164.
   Expressions are binary trees (the harness nests SymPy's n-ary Add/Mul to the right, which keeps
   the pre-order of the sub-trees); sympy.solve and the substitution-definedness test of the system
   matrix are oracles whose answers are data. *)
From Coq Require Import List Bool ZArith QArith Qcanon.
From OdeVerif Require Import Base.Corr.
Import ListNotations.

Inductive ex :=
| Num (q : Qc)
| Sym (s : nat)
| Add (a b : ex)
| Mul (a b : ex)
| Pow (b : ex) (z : Z)                 (* integer exponent *)
| PowSym (b e : ex)                    (* non-numeric exponent: `subexpr.args[1] < 0` raises *)
| Fn (f : nat) (a : ex).               (* exp, ... *)

Fixpoint ex_eqb (x y : ex) : bool :=
  match x, y with
  | Num p, Num q => qc_eqb p q
  | Sym s, Sym t => Nat.eqb s t
  | Add a b, Add c d => ex_eqb a c && ex_eqb b d
  | Mul a b, Mul c d => ex_eqb a c && ex_eqb b d
  | Pow b z, Pow c w => ex_eqb b c && Z.eqb z w
  | PowSym b e, PowSym c f => ex_eqb b c && ex_eqb e f
  | Fn f a, Fn g b => Nat.eqb f g && ex_eqb a b
  | _, _ => false
  end.

Definition qpow (v : Qc) (z : Z) : Qc :=
  match z with
  | Z0 => Q2Qc 1
  | Zpos p => Qcpower v (Pos.to_nat p)
  | Zneg p => Qcinv (Qcpower v (Pos.to_nat p))
  end.

Section Eval.
  Variable fn : nat -> Qc -> Qc.           (* interpretation of function symbols *)
  Variable rho : nat -> Qc.

  Fixpoint eval (e : ex) : option Qc :=
    match e with
    | Num q => Some q
    | Sym s => Some (rho s)
    | Add a b => match eval a, eval b with Some x, Some y => Some (x + y)%Qc | _, _ => None end
    | Mul a b => match eval a, eval b with Some x, Some y => Some (x * y)%Qc | _, _ => None end
    | Pow b z => match eval b with
                 | None => None
                 | Some v => if (z <? 0)%Z && qc_eqb v (Q2Qc 0) then None else Some (qpow v z)
                 end
    | PowSym b e => match eval b, eval e with Some x, Some y => Some (fn 0 (x + y)%Qc) | _, _ => None end
    | Fn f a => match eval a with Some x => Some (fn f x) | None => None end
    end.
End Eval.

(* pre-order traversal collecting the bases of negative powers; None when a non-numeric exponent is met *)
Fixpoint denoms (e : ex) : option (list ex) :=
  match e with
  | Num _ | Sym _ => Some []
  | Add a b | Mul a b => match denoms a, denoms b with Some x, Some y => Some (x ++ y) | _, _ => None end
  | Pow b z => match denoms b with Some x => Some (if (z <? 0)%Z then b :: x else x) | None => None end
  | PowSym _ _ => None
  | Fn _ a => denoms a
  end.

Definition cond := list (nat * ex).       (* substitution: symbol -> expression, keys sorted *)
Definition cond_eqb (a b : cond) : bool := list_eqb (fun p q => Nat.eqb (fst p) (fst q) && ex_eqb (snd p) (snd q)) a b.

Section Find.
  Variable solve : ex -> option (list cond).      (* sympy.solve(denom, denom.free_symbols, dict=True); None = it raised *)
  Variable a_defined : cond -> bool.              (* _is_matrix_defined_under_substitution(A, cond) *)

  (* _generate_singularity_conditions: conditions.extend(solve(denom)) for every collected denominator *)
  Fixpoint solve_all (ds : list ex) : option (list cond) :=
    match ds with
    | [] => Some []
    | d :: r => match solve d, solve_all r with Some c, Some cs => Some (c ++ cs) | _, _ => None end
    end.

  Fixpoint gen_conditions (entries : list ex) : option (list cond) :=
    match entries with
    | [] => Some []
    | e :: r => match denoms e with
                | None => None
                | Some ds => match solve_all ds, gen_conditions r with Some c, Some cs => Some (c ++ cs) | _, _ => None end
                end
    end.

  (* _flatten_conditions: keep the first occurrence of each condition *)
  Fixpoint dedup (l : list cond) (seen : list cond) : list cond :=
    match l with
    | [] => []
    | c :: r => if existsb (cond_eqb c) seen then dedup r seen else c :: dedup r (seen ++ [c])
    end.

  (* find_singularities: None = SingularityDetectionException *)
  Definition find_singularities (P : list ex) : option (list cond) :=
    match gen_conditions P with
    | None => None
    | Some cs => Some (filter a_defined (dedup cs []))
    end.
End Find.
