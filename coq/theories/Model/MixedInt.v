(* Model of MixedIntegrator.integrate_ode (mixed_integrator.py:217-332): outer loop to the next
   spike (precise mode) or the next grid point (aliased mode), inner adaptive stepping, bound
   enforcement after every step, spike application.  The stepper (GSL evolve.apply) is an oracle:
   its answers (new time, new state) are data; the model checks that each answer makes progress
   and does not overshoot the requested end.  Times are integer ticks. *)
From Coq Require Import ZArith List Bool.
Import ListNotations.
Open Scope Z_scope.

Definition mvar := nat.
Definition mevent := (Z * list mvar)%type.

Section Mixed.
  Variable St : Type.
  Variable enforce : St -> St * bool.        (* bounds: reset the variables beyond a bound; flag = an upper bound was crossed *)
  Variable bump : mvar -> St -> St.          (* y[idx] += initial value (identity for variables that are not numeric) *)
  Variable alias : bool.
  Variable sim max_step : Z.
  Variable events : list mevent.             (* merged, time-sorted spike list *)

  Definition bumps (vs : list mvar) (y : St) : St := fold_left (fun s v => bump v s) vs y.

  Record answer := { a_t : Z ; a_y : St }.

  Record mstate := {
    m_t : Z ; m_y : St ; m_log : list (Z * St) ; m_crossed : bool ;
    m_applied : list (Z * Z * list mvar)       (* (log time at which applied, spike time, variables) *)
  }.

  Inductive result := Done (s : mstate) | OutOfAnswers | BadOracle | OutOfFuel.

  (* y_log holds the array object that is later modified in place: the last log entry shows the
     state after bound enforcement and spike application *)
  Definition set_last (log : list (Z * St)) (y : St) : list (Z * St) :=
    match rev log with [] => [] | (t, _) :: r => rev r ++ [(t, y)] end.

  (* the inner `while t < t_target` loop *)
  Fixpoint inner (ans : list answer) (t_target : Z) (s : mstate) : option (list answer * mstate) + unit :=
    if m_t s <? t_target then
      match ans with
      | [] => inr tt                                   (* out of answers *)
      | a :: ans' =>
          let t_req := Z.min (m_t s + max_step) t_target in
          if (m_t s <? a_t a) && (a_t a <=? t_req) then
            let '(y', cr) := enforce (a_y a) in
            inner ans' t_target {| m_t := a_t a; m_y := y'; m_log := m_log s ++ [(a_t a, y')];
                                   m_crossed := m_crossed s || cr; m_applied := m_applied s |}
          else inl None                                (* the oracle did not make progress / overshot *)
      end
    else inl (Some (ans, s)).

  (* aliased mode: apply all spikes with time <= t, starting at index idx *)
  Fixpoint apply_due (evs : list mevent) (t : Z) (y : St) (acc : list (Z * Z * list mvar)) : list mevent * St * list (Z * Z * list mvar) :=
    match evs with
    | [] => ([], y, acc)
    | (s, vs) :: r => if s <=? t then apply_due r t (bumps vs y) (acc ++ [(t, s, vs)]) else (evs, y, acc)
    end.

  Inductive step_result := Next (ans : list answer) (evs : list mevent) (s : mstate) | SOutOfAnswers | SBadOracle.

  (* precise mode: the next target time, the spike time and variables due there, the remaining events *)
  Definition precise_target (evs : list mevent) : Z * Z * list mvar * list mevent :=
    match evs with
    | [] => (sim, sim, [], [])
    | (sp, vs) :: r => if sim <=? sp then (sim, sp, [], r) else (sp, sp, vs, r)
    end.

  (* one iteration of the outer `while t < sim_time` loop *)
  Definition outer_step (ans : list answer) (evs : list mevent) (s : mstate) : step_result :=
    if alias then
      match inner ans (m_t s + max_step) s with
      | inr _ => SOutOfAnswers
      | inl None => SBadOracle
      | inl (Some (ans', s')) =>
          let '(evs', y', applied') := apply_due evs (m_t s') (m_y s') (m_applied s') in
          Next ans' evs' {| m_t := m_t s'; m_y := y'; m_log := set_last (m_log s') y';
                            m_crossed := m_crossed s'; m_applied := applied' |}
      end
    else
      let '(t_target, sp_time, syms, evs') := precise_target evs in
      match inner ans t_target s with
      | inr _ => SOutOfAnswers
      | inl None => SBadOracle
      | inl (Some (ans', s')) =>
          let y' := bumps syms (m_y s') in
          Next ans' evs' {| m_t := m_t s'; m_y := y'; m_log := set_last (m_log s') y';
                            m_crossed := m_crossed s';
                            m_applied := match syms with [] => m_applied s' | _ => m_applied s' ++ [(m_t s', sp_time, syms)] end |}
      end.

  Fixpoint outer (fuel : nat) (ans : list answer) (evs : list mevent) (s : mstate) : result :=
    match fuel with
    | O => OutOfFuel
    | S f =>
        if m_t s <? sim then
          match outer_step ans evs s with
          | Next ans' evs' s' => outer f ans' evs' s'
          | SOutOfAnswers => OutOfAnswers
          | SBadOracle => BadOracle
          end
        else Done s
    end.

  Definition integrate (init : St) (ans : list answer) : result :=
    outer (S (length ans + length events)) ans events
          {| m_t := 0; m_y := init; m_log := [(0, init)]; m_crossed := false; m_applied := [] |}.
End Mixed.
