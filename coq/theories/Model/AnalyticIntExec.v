(* Executable instance of Model/AnalyticInt.v used by the correspondence check:
   states are vectors over Qc, the flow is a matrix of polynomials in the step size
   (exactly the propagator entries handed to the implementation), one tick = [tick] time units. *)
From Coq Require Import ZArith QArith Qcanon List Bool.
From OdeVerif Require Import Base.Corr Model.AnalyticInt.
Import ListNotations.

Definition poly_eval (p : list Qc) (h : Qc) : Qc := fold_right (fun c acc => (c + h * acc)%Qc) (Q2Qc 0) p.
Definition dot (r s : list Qc) : Qc := fold_right Qcplus (Q2Qc 0) (map (fun p => (fst p * snd p)%Qc) (combine r s)).
Definition mat_apply (P : list (list Qc)) (s : list Qc) : list Qc := map (fun row => dot row s) P.
Definition phi_exec (P : list (list (list Qc))) (tick : Qc) (k : Z) (s : list Qc) : list Qc :=
  let h := (tick * Q2Qc (inject_Z k))%Qc in mat_apply (map (map (fun p => poly_eval p h)) P) s.
Fixpoint add_at (i : nat) (d : Qc) (s : list Qc) : list Qc :=
  match s, i with
  | [], _ => []
  | x :: r, O => (x + d)%Qc :: r
  | x :: r, S i' => x :: add_at i' d r
  end.
Definition bump_exec (incs : list Qc) (v : var) (s : list Qc) : list Qc := add_at v (nth v incs (Q2Qc 0)) s.

Record c12case := {
  cP : list (list (list Qc)); cTick : Qc; cInit : list Qc; cIncs : list Qc;
  cSpk : list (var * list Z); cCaching : bool; cOps : list op; cObs : list (list Qc) }.

Definition model_out (c : c12case) : list (list Qc) :=
  snd (run (list Qc) (phi_exec (cP c) (cTick c)) (bump_exec (cIncs c)) (cInit c)
           (cCaching c) (merge (cSpk c)) (ai0 (list Qc) (cInit c)) (cOps c)).

Definition agree (c : c12case) : bool := list_eqb (list_eqb qc_eqb) (model_out c) (cObs c).
Definition mism (cases : list c12case) : list nat := mism_by agree cases.
