(* Model of the structural validation of one dynamics entry:
   Shape.from_json (shapes.py:280-346), Shape._parse_defining_expression (251-277) and the
   name checks of Shape.__init__ (126-127, 151-153).  Strings are lists of characters. *)
From Coq Require Import List Bool Arith Ascii String.
Import ListNotations.

Definition str := list ascii.
Definition ch_eqb (a b : ascii) : bool := Ascii.eqb a b.

Definition is_ws (c : ascii) : bool :=
  let n := nat_of_ascii c in (n =? 32) || ((9 <=? n) && (n <=? 13)).      (* space, \t \n \v \f \r *)
Definition is_alpha_ (c : ascii) : bool :=
  let n := nat_of_ascii c in ((65 <=? n) && (n <=? 90)) || ((97 <=? n) && (n <=? 122)) || (n =? 95).
Definition is_digit (c : ascii) : bool := let n := nat_of_ascii c in (48 <=? n) && (n <=? 57).
Definition is_idch (c : ascii) : bool := is_alpha_ c || is_digit c.
Definition eqc : ascii := "="%char.
Definition prime : ascii := "'"%char.

Definition count (c : ascii) (s : str) : nat := List.length (filter (ch_eqb c) s).

Fixpoint take_while (f : ascii -> bool) (s : str) : str :=
  match s with [] => [] | c :: r => if f c then c :: take_while f r else [] end.
Fixpoint drop_while (f : ascii -> bool) (s : str) : str :=
  match s with [] => [] | c :: r => if f c then drop_while f r else s end.

(* re.search("[a-zA-Z_][a-zA-Z0-9_]*", s) *)
Definition first_ident (s : str) : option str :=
  match drop_while (fun c => negb (is_alpha_ c)) s with
  | [] => None
  | r => Some (take_while is_idch r)
  end.

(* number of maximal runs of non-whitespace: len(re.findall(r"\S+", s)) *)
Fixpoint ntokens_aux (inw : bool) (s : str) : nat :=
  match s with
  | [] => 0
  | c :: r => if is_ws c then ntokens_aux false r else (if inw then 0 else 1) + ntokens_aux true r
  end.
Definition ntokens (s : str) : nat := ntokens_aux false s.

Fixpoint str_eqb (a b : str) : bool :=
  match a, b with [] , [] => true | x :: r, y :: q => ch_eqb x y && str_eqb r q | _, _ => false end.

Fixpoint is_prefix (p s : str) : bool :=
  match p, s with [] , _ => true | x :: r, y :: q => ch_eqb x y && is_prefix r q | _, _ => false end.
Fixpoint contains (p s : str) : bool :=
  is_prefix p s || match s with [] => false | _ :: r => contains p r end.

Inductive verdict := Malformed | NameError | Accepted (sym : str) (order : nat).

(* _parse_defining_expression on a string with exactly one '=' *)
Definition parse_lhs (s : str) : option (str * nat) :=
  let lhs := take_while (fun c => negb (ch_eqb c eqc)) s in
  if negb (ntokens lhs =? 1) then None
  else match first_ident s with
       | None => None
       | Some sym => Some (sym, count prime lhs)
       end.

Record entry := {
  e_expr : option str;               (* value of "expression" if present *)
  e_has_iv : bool;                   (* key "initial_value" present *)
  e_ivs : option (list str)          (* keys of "initial_values" if present, in iteration order *)
}.

(* the loop over indict["initial_values"].items() with its initial_val_specified list *)
Fixpoint check_ivs (sym : str) (order : nat) (keys : list str) (seen : list nat) : option (list nat) :=
  match keys with
  | [] => Some seen
  | k :: r =>
      match first_ident k with
      | None => None
      | Some ivs => if negb (str_eqb ivs sym) then None
                    else let o := count prime k in
                         if order <=? o then None
                         else if existsb (Nat.eqb o) seen then None
                         else check_ivs sym order r (o :: seen)
      end
  end.

Definition check_entry (reserved : list str) (marker : str) (e : entry) : verdict :=
  match e_expr e with
  | None => Malformed
  | Some s =>
      if negb (count eqc s =? 1) then Malformed
      else match parse_lhs s with
           | None => Malformed
           | Some (sym, order) =>
               if negb (e_has_iv e) && (match e_ivs e with None => true | Some _ => false end) && (0 <? order) then Malformed
               else if e_has_iv e && (match e_ivs e with None => false | Some _ => true end) then Malformed
               else if e_has_iv e && negb (order =? 1) then Malformed
               else match e_ivs e with
                    | Some keys =>
                        if negb (List.length keys =? order) then Malformed
                        else match check_ivs sym order keys [] with
                             | None => Malformed
                             | Some seen => if negb (List.length seen =? order) then Malformed
                                            else if existsb (str_eqb sym) reserved || contains marker sym then NameError
                                            else Accepted sym order
                             end
                    | None => if existsb (str_eqb sym) reserved || contains marker sym then NameError else Accepted sym order
                    end
           end
  end.
