(* Executable tables for the correspondence of C11: solve answers and the A-definedness answers are
   supplied as association lists keyed by the model's own expressions / conditions. *)
From Coq Require Import List Bool ZArith QArith Qcanon.
From OdeVerif Require Import Base.Corr Model.Singularity.
Import ListNotations.

Record c11case := {
  sP : list ex;                                   (* entries of the propagator matrix, row-major *)
  sSolve : list (ex * option (list cond));        (* sympy.solve answers, keyed by denominator *)
  sDef : list (cond * bool);                      (* _is_matrix_defined_under_substitution(A, cond) *)
  sObs : option (list cond)                       (* find_singularities(P, A); None = SingularityDetectionException *)
}.

Definition solve_tab (c : c11case) (d : ex) : option (list cond) :=
  match find (fun e => ex_eqb (fst e) d) (sSolve c) with Some e => snd e | None => None end.
Definition def_tab (c : c11case) (k : cond) : bool :=
  match find (fun e => cond_eqb (fst e) k) (sDef c) with Some e => snd e | None => false end.

Definition agree (c : c11case) : bool :=
  option_eqb (list_eqb cond_eqb) (find_singularities (solve_tab c) (def_tab c) (sP c)) (sObs c).
Definition mism (cases : list c11case) : list nat := mism_by agree cases.
