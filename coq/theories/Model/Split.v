(* Model of Shape.split_lin_inhom_nonlin (shapes.py:361-412): term-wise classification of an
   expanded expression into linear factors (one per symbol of x), constant and nonlinear part. *)
From Coq Require Import List Bool ZArith Arith.
From OdeVerif Require Import Model.Term.
Import ListNotations.

Section Split.
  Variable K : Type.
  Variable fdeps : nat -> list atom.
  Variable par : atom -> bool.             (* "is a (constant) parameter" *)

  Record split_res := mkSplit { lin : list (poly K) ; inhom : poly K ; nonlin : poly K }.

  (* `for j, sym in enumerate(x): if is_constant_term(term / sym): ...; break` *)
  Fixpoint first_lin (xs : list atom) (j : nat) (t : term K) : option (nat * term K) :=
    match xs with
    | [] => None
    | x :: r => if is_const fdeps par (div_atom t x) then Some (j, div_atom t x) else first_lin r (S j) t
    end.

  Fixpoint add_at (l : list (poly K)) (j : nat) (t : term K) : list (poly K) :=
    match l, j with
    | [], _ => []
    | p :: r, O => (p ++ [t]) :: r
    | p :: r, S j' => p :: add_at r j' t
    end.

  Definition classify (xs : list atom) (acc : split_res) (t : term K) : split_res :=
    if is_const fdeps par t then mkSplit (lin acc) (inhom acc ++ [t]) (nonlin acc)
    else match first_lin xs 0 t with
         | Some (j, q) => mkSplit (add_at (lin acc) j q) (inhom acc) (nonlin acc)
         | None => mkSplit (lin acc) (inhom acc) (nonlin acc ++ [t])
         end.

  Definition empty_split (n : nat) : split_res := mkSplit (repeat [] n) [] [].

  Definition split (xs : list atom) (p : poly K) : split_res :=
    fold_left (classify xs) p (empty_split (length xs)).
End Split.

Arguments mkSplit {K}. Arguments lin {K}. Arguments inhom {K}. Arguments nonlin {K}.
Arguments split {K}. Arguments first_lin {K}. Arguments classify {K}. Arguments add_at {K}. Arguments empty_split {K}.
