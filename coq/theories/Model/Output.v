(* Model of the construction of the returned solver dictionaries as far as C08 is concerned:
   the parameter filter of _analysis (__init__.py:302-321) and the symbol content of the numeric
   update expressions (system_of_shapes.py:296-338). *)
From Coq Require Import List Bool String Arith ZArith.
From OdeVerif Require Import Model.Term Model.Split Model.System.
Import ListNotations.

(* ---- parameter filter ---- *)
Section ParamFilter.
  Variable name : Type.
  Variable name_eqb : name -> name -> bool.
  (* the symbols occurring in the expressions stored under each key of one solver dictionary *)
  Definition symtab := list (string * list name).
  Definition syms_under (tab : symtab) (key : string) : list name :=
    match find (fun e => String.eqb (fst e) key) tab with Some e => snd e | None => [] end.

  (* symbol_appears_in_any_expr: scan the keys in [scanned] *)
  Definition referred (scanned : list string) (tab : symtab) (p : name) : bool :=
    existsb (fun key => existsb (name_eqb p) (syms_under tab key)) scanned.

  Definition filter_params (scanned : list string) (tab : symtab) (supplied : list name) : list name :=
    filter (referred scanned tab) supplied.
End ParamFilter.

(* ---- symbols of the numeric update expressions ---- *)
Section Symbols.
  Variable K : Type.
  Definition term_atoms (t : term K) : list atom := map fst (pows t).
  Definition poly_atoms (p : poly K) : list atom := flat_map term_atoms p.
End Symbols.
Arguments term_atoms {K}. Arguments poly_atoms {K}.
