(* Executable instance of Model/MixedInt.v for the correspondence: states are vectors over Qc. *)
From Coq Require Import ZArith QArith Qcanon List Bool.
From OdeVerif Require Import Base.Corr Model.AnalyticInt Model.AnalyticIntExec Model.MixedInt.
Import ListNotations.

(* per numeric variable: optional upper bound, optional lower bound, value to reset to *)
Definition bound := (option Qc * option Qc * Qc)%type.

Definition enforce_one (b : bound) (y : Qc) : Qc * bool :=
  let '(ub, lb, init) := b in
  let '(y1, cr) := match ub with Some u => if qc_ltb u y then (init, true) else (y, false) | None => (y, false) end in
  let y2 := match lb with Some l => if qc_ltb y1 l then init else y1 | None => y1 end in
  (y2, cr).

Fixpoint enforce_exec (bs : list bound) (y : list Qc) : list Qc * bool :=
  match bs, y with
  | b :: bs', v :: y' => let '(v', c1) := enforce_one b v in let '(r, c2) := enforce_exec bs' y' in (v' :: r, c1 || c2)
  | _, _ => (y, false)
  end.

Record c13case := {
  mBounds : list bound; mIncs : list Qc;          (* increments (initial values) of the numeric variables *)
  mAlias : bool; mSim : Z; mMaxStep : Z;
  mSpk : list (var * list Z);                     (* raw spike map (variable index -> times in ticks) *)
  mInit : list Qc;
  mAnswers : list (Z * list Qc);                  (* what evolve.apply returned, in order *)
  mObsT : list Z; mObsY : list (list Qc); mObsCrossed : bool }.

Definition run_case (c : c13case) : result (list Qc) :=
  integrate (list Qc) (enforce_exec (mBounds c)) (bump_exec (mIncs c)) (mAlias c) (mSim c) (mMaxStep c) (merge (mSpk c))
            (mInit c) (map (fun a => {| a_t := fst a; a_y := snd a |}) (mAnswers c)).

Definition agree (c : c13case) : bool :=
  match run_case c with
  | Done _ s => list_eqb Z.eqb (map fst (m_log _ s)) (mObsT c)
                && list_eqb (list_eqb qc_eqb) (map snd (m_log _ s)) (mObsY c)
                && Bool.eqb (m_crossed _ s) (mObsCrossed c)
  | _ => false
  end.
Definition mism (cases : list c13case) : list nat := mism_by agree cases.
