(* Model of how initial values travel from the input to the result (shapes.py: Shape.from_json stores
   initial_values[<name><marker*k>] = value for every (key, value) of the user's "initial_values" in the
   order they are listed; __init__.py:_analysis asks shape.get_initial_value(<name><marker*k>) for the
   state variables x, x', ... in x order).  Keys are characterised by their number of primes, as in
   Model/InputCheck.check_ivs. *)
From Coq Require Import List Arith Bool Ascii.
From OdeVerif Require Import Model.InputCheck.
Import ListNotations.

Section IV.
  Variable V : Type.

  Definition stored (kvs : list (str * V)) : list (nat * V) :=
    map (fun kv => (count prime (fst kv), snd kv)) kvs.

  (* dictionary semantics: a later assignment to a key overwrites an earlier one *)
  Fixpoint get (o : nat) (l : list (nat * V)) : option V :=
    match l with
    | [] => None
    | (o', v) :: r => match get o r with
                      | Some v' => Some v'
                      | None => if Nat.eqb o' o then Some v else None
                      end
    end.

  Definition output_ivs (order : nat) (kvs : list (str * V)) : list (option V) :=
    map (fun k => get k (stored kvs)) (seq 0 order).
End IV.

Arguments stored {V}. Arguments get {V}. Arguments output_ivs {V}.
