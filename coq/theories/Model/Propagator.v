(* Model of SystemOfShapes.generate_propagator_solver (system_of_shapes.py:234-293) at the level
   of values: the update of row r is assembled from the non-zero propagator entries of its row
   and, for a first-order equation with constant offset, one of the two particular-solution terms.
   The propagator entries themselves (sympy.exp + simplify) are an oracle: [P], with its non-zero
   pattern [Pnz] as decided by _is_zero. *)
From Coq Require Import List Bool Arith.
Import ListNotations.

Section Propagator.
  Variable T : Type.
  Variables (rO : T) (radd rmul : T -> T -> T) (ropp : T -> T).
  Variable n : nat.
  Variable A : nat -> nat -> T.            (* system matrix of the analytic sub-system *)
  Variables b x : nat -> T.                (* offsets ; old state *)
  Variable P : nat -> nat -> T.            (* propagator entries (oracle) *)
  Variable h : T.                          (* time step symbol *)
  Variable ps : nat -> T.                  (* particular solution -b_r / A_rr *)
  Variable Pnz : nat -> nat -> bool.       (* not _is_zero(P[row, col]) *)
  Variable bnz : nat -> bool.              (* not _is_zero(b[row]) *)
  Variable annz : nat -> bool.             (* not _is_zero(A[row, row]) *)
  Variable cz : nat -> bool.               (* _is_zero(c[row]) *)
  Variable scc_gt1 : nat -> bool.          (* shape_order_from_system_matrix(row) > 1 *)

  Definition sumn (f : nat -> T) : T := fold_right (fun k acc => radd (f k) acc) rO (seq 0 n).

  (* the three raises of the loop *)
  Definition row_ok (r : nat) : bool :=
    cz r && negb (bnz r && scc_gt1 r) &&
    forallb (fun c => negb (Pnz r c && negb (Nat.eqb r c) && bnz c)) (seq 0 n).
  Definition accepted : bool := forallb row_ok (seq 0 n).

  Definition offset (r : nat) : T :=
    if bnz r then
      if annz r then
        (* -P_rr x_r + P_rr (x_r - ps) + ps *)
        radd (ropp (rmul (P r r) (x r))) (radd (rmul (P r r) (radd (x r) (ropp (ps r)))) (ps r))
      else rmul h (b r)
    else rO.

  Definition update (r : nat) : T :=
    radd (sumn (fun c => if Pnz r c then rmul (P r c) (x c) else rO)) (offset r).
End Propagator.
