(* Model of ode_analyzer.py: the result-file name, the order of the error exits, and the mapping
   from the command line to the keyword arguments of analysis().  The argument table, the keyword
   mapping, the steps and the naming rule are regenerated from the source (Gen/CliGen.v). *)
From Coq Require Import List Bool Arith Ascii String.
From OdeVerif Require Import Model.InputCheck.
Import ListNotations.

Inductive cli_step := CheckIsFile | LoadJson | Analyse | WriteResult.
Inductive name_rule := BasenameOfRsplit | SplitextOfBasename.

Definition slash : ascii := "/"%char.
Definition dot : ascii := "."%char.

(* os.path.basename: the part after the last '/' *)
Definition basename (p : str) : str := rev (take_while (fun c => negb (ch_eqb c slash)) (rev p)).

(* s.rsplit(".", 1)[0]: everything before the last '.', or s if there is none *)
Definition rsplit_dot (s : str) : str :=
  let r := rev s in
  match drop_while (fun c => negb (ch_eqb c dot)) r with
  | [] => s
  | _ :: before => rev before
  end.

(* os.path.splitext(b)[0] for a name without '/': strip the last '.ext' unless the name consists of
   leading dots up to that dot *)
Definition splitext_stem (b : str) : str :=
  let r := rev b in
  match drop_while (fun c => negb (ch_eqb c dot)) r with
  | [] => b
  | _ :: before => if forallb (fun c => ch_eqb c dot) before then b else rev before
  end.

Definition suffix : str := list_ascii_of_string "_result.json".

Definition outname (rule : name_rule) (path : str) : str :=
  match rule with
  | BasenameOfRsplit => basename (rsplit_dot path) ++ suffix
  | SplitextOfBasename => splitext_stem (basename path) ++ suffix
  end.

(* ---- command line -> keyword arguments ---- *)
Inductive preserve := PAbsent | PBare | PNames (names : list string).
Record cli_args := { a_infile : string; a_dsc : bool; a_das : bool; a_pe : preserve; a_ll : option string }.

Definition is_option (tok : string) : bool := String.prefix "-" tok.

(* tokens after the input file are consumed one at a time; [MErr] = argparse error (exit status 2) *)
Inductive mode := MNormal | MNames | MLevel | MErr.

Definition set_dsc (a : cli_args) := {| a_infile := a_infile a; a_dsc := true; a_das := a_das a; a_pe := a_pe a; a_ll := a_ll a |}.
Definition set_das (a : cli_args) := {| a_infile := a_infile a; a_dsc := a_dsc a; a_das := true; a_pe := a_pe a; a_ll := a_ll a |}.
Definition set_pe (p : preserve) (a : cli_args) := {| a_infile := a_infile a; a_dsc := a_dsc a; a_das := a_das a; a_pe := p; a_ll := a_ll a |}.
Definition set_ll (v : string) (a : cli_args) := {| a_infile := a_infile a; a_dsc := a_dsc a; a_das := a_das a; a_pe := a_pe a; a_ll := Some v |}.

Definition flag_step (a : cli_args) (t : string) : mode * cli_args :=
  if String.eqb t "--disable-stiffness-check" then (MNormal, set_dsc a)
  else if String.eqb t "--disable-analytic-solver" then (MNormal, set_das a)
  else if String.eqb t "--preserve-expressions" then (MNames, set_pe PBare a)
  else if String.eqb t "--log-level" then (MLevel, a)
  else (MErr, a).

Definition add_name (t : string) (a : cli_args) : cli_args :=
  set_pe (match a_pe a with PNames ns => PNames (ns ++ [t]) | _ => PNames [t] end) a.

Definition tok_step (st : mode * cli_args) (t : string) : mode * cli_args :=
  let '(m, a) := st in
  match m with
  | MErr => st
  | MLevel => if is_option t then (MErr, a) else (MNormal, set_ll t a)
  | MNames => if is_option t then flag_step a t else (MNames, add_name t a)
  | MNormal => flag_step a t
  end.

Definition init_args (infile : string) : cli_args := {| a_infile := infile; a_dsc := false; a_das := false; a_pe := PAbsent; a_ll := None |}.

Definition parse_argv (argv : list string) : option cli_args :=
  match argv with
  | infile :: rest =>
      if is_option infile then None
      else match fold_left tok_step rest (MNormal, init_args infile) with
           | (MErr, _) | (MLevel, _) => None
           | (_, a) => Some a
           end
  | [] => None
  end.

(* ---- the run: which exit, and whether/what is written ---- *)
Inductive analysis_outcome (R : Type) := Result (r : R) | Raises.
Arguments Result {R}. Arguments Raises {R}.

Section Run.
  Variable R : Type.
  Variable isfile : bool.                         (* the input path names an existing file *)
  Variable json_ok : bool.                        (* its content parses as JSON *)
  Variable outcome : analysis_outcome R.          (* what analysis() does on the loaded dictionary with the mapped flags *)

  (* executes the regenerated steps in order; returns (exit status is zero, what is written) *)
  Fixpoint run_steps (steps : list cli_step) (res : option R) : bool * option R :=
    match steps with
    | [] => (true, None)
    | CheckIsFile :: r => if isfile then run_steps r res else (false, None)
    | LoadJson :: r => if json_ok then run_steps r res else (false, None)
    | Analyse :: r => match outcome with Result x => run_steps r (Some x) | Raises => (false, None) end
    | WriteResult :: r => match res with Some x => (fst (run_steps r res), Some x) | None => (false, None) end
    end.
End Run.
