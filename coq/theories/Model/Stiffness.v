(* Model of the benchmark protocol of odetoolbox/stiffness.py:122-165 (_evaluate_integrator) as
   far as random numbers are concerned, and of the solver-name suffix (__init__.py:257-280).
   Which generators are seeded / drawn from is regenerated from the source (Gen/RngGen.v). *)
From Coq Require Import List Bool String Arith.
Import ListNotations.

Inductive gen := PY | NP.      (* Python's `random` module ; numpy.random global generator *)
Definition gen_eqb (a b : gen) : bool := match a, b with PY, PY => true | NP, NP => true | _, _ => false end.
Definition gen_in (g : gen) (l : list gen) : bool := existsb (gen_eqb g) l.
Definition subset (a b : list gen) : bool := forallb (fun g => gen_in g b) a.

Section Protocol.
  Variable rng : Type.                       (* state of one generator *)
  Variable seeded_state : nat -> rng.        (* state right after seed(s) *)
  Definition world := gen -> rng.

  (* _evaluate_integrator: seed the generators in [seeded] with the tester's seed *)
  Definition reseed (seeded : list gen) (s : nat) (w : world) : world :=
    fun g => if gen_in g seeded then seeded_state s else w g.

  (* SpikeGenerator.spike_times_from_json reads the generators in [drawn] only *)
  Variable train : Type.
  Variable spikes : world -> train.

  Definition candidate_train (seeded : list gen) (s : nat) (w : world) : train :=
    spikes (reseed seeded s w).
End Protocol.

(* the solver name carried by the result: "numeric", suffixed by the recommendation if any *)
Definition solver_name (rec : option string) : string :=
  match rec with None => "numeric" | Some r => "numeric" ++ "-" ++ r end%string.
