(* Model of odetoolbox/spike_generator.py:34-105, generic in the number type so that the same
   definitions are instantiated with Qc (theorems) and PrimFloat (bit-exact correspondence). *)
From Coq Require Import List Bool Arith.
Import ListNotations.

Section Gen.
  Variable num : Type.
  Variable zero : num.
  Variable add : num -> num -> num.
  Variables ltb leb : num -> num -> bool.

  (* _generate_regular_spikes:  t = 0; while t < T: t += isi; if t <= T: append(t) *)
  Fixpoint regular (fuel : nat) (isi T t : num) : option (list num) :=
    if ltb t T then
      match fuel with
      | O => None                                  (* out of fuel: excluded by the theorems *)
      | S f => let t' := add t isi in
               match regular f isi T t' with
               | None => None
               | Some r => Some (if leb t' T then t' :: r else r)
               end
      end
    else Some [].

  (* _generate_homogeneous_poisson_spikes; [raw] are the values -log(1-u)/rate of successive draws.
     Returns the train and the unused draws; None when the supplied draws run out. *)
  Definition maxn (a b : num) : num := if ltb a b then b else a.     (* Python max(isi, min_isi) *)

  Fixpoint poisson (raw : list num) (min_isi T t : num) : option (list num * list num) :=
    if ltb t T then
      match raw with
      | [] => None
      | x :: raw' => let t' := add t (maxn x min_isi) in
                     match poisson raw' min_isi T t' with
                     | None => None
                     | Some (r, rest) => Some ((if leb t' T then t' :: r else r), rest)
                     end
      end
    else Some ([], raw).

  (* "list": np.sort([t for t in spikes if t <= T]) *)
  Fixpoint insert_num (x : num) (l : list num) : list num :=
    match l with
    | [] => [x]
    | y :: r => if leb x y then x :: l else y :: insert_num x r
    end.
  Definition sort_num (l : list num) : list num := fold_right insert_num [] l.
  Definition list_stim (T : num) (l : list num) : list num := sort_num (filter (fun t => leb t T) l).
End Gen.

(* ---- dispatch per stimulus and target (spike_times_from_json) --------------------------- *)
Section Dispatch.
  Variable key : Type.                         (* renamed target names *)
  Variable key_eqb : key -> key -> bool.
  Variable num : Type.

  (* one (stimulus, target) visit: the renamed target and the train generated for it *)
  Definition visit := (key * list num)%type.

  Fixpoint extend (acc : list (key * list num)) (k : key) (tr : list num) : list (key * list num) :=
    match acc with
    | [] => [(k, tr)]
    | (k', l) :: r => if key_eqb k' k then (k', l ++ tr) :: r else (k', l) :: extend r k tr
    end.

  Definition dispatch (visits : list visit) : list (key * list num) :=
    fold_left (fun acc v => extend acc (fst v) (snd v)) visits [].

  Definition lookup (acc : list (key * list num)) (k : key) : option (list num) :=
    match find (fun p => key_eqb (fst p) k) acc with Some p => Some (snd p) | None => None end.
End Dispatch.
