(* Executable Qc instance of the system model, used by the correspondence checks of C02/C03/C10. *)
From Coq Require Import List Bool ZArith Arith QArith Qcanon.
From OdeVerif Require Import Base.Corr Model.Term Model.Split Model.System.
Import ListNotations.

Definition qc_pw (a : Qc) (e : Z) : Qc :=
  match e with
  | Z0 => Q2Qc 1
  | Zpos p => Qcpower a (Pos.to_nat p)
  | Zneg p => Qcinv (Qcpower a (Pos.to_nat p))
  end.

Definition lookup_atom (l : list (atom * Qc)) (a : atom) : Qc :=
  match find (fun p => atom_eqb (fst p) a) l with Some p => snd p | None => Q2Qc 0 end.

Definition qevp (rho : list (atom * Qc)) (p : poly Qc) : Qc :=
  ev_poly Qc Qc (Q2Qc 0) (Q2Qc 1) Qcplus Qcmult (fun c => c) qc_pw (lookup_atom rho) p.

Definition fdeps_of (l : list (nat * list atom)) (f : nat) : list atom :=
  match find (fun p => Nat.eqb (fst p) f) l with Some p => snd p | None => [] end.

(* the toolbox treats every symbol that is not a state variable as a constant parameter;
   the time symbol is NOT a constant *)
Definition par_std (a : atom) : bool := match a with APar _ => true | _ => false end.

Record syscase := {
  c_n : nat;
  c_fdeps : list (nat * list atom);
  c_shapes : list (shape Qc);
  c_rho : list (atom * Qc);
  c_keep : list bool;                       (* the numeric subset as reported by the implementation *)
  c_obsA : list (list Qc); c_obsb : list Qc; c_obsc : list Qc;      (* (A, b, c) of the full system at rho *)
  c_obsupd : list (option Qc)               (* numeric update expressions at rho, by x index *)
}.

Definition sys_of (c : syscase) : list (row Qc) :=
  from_shapes Qc (Q2Qc 1) (fdeps_of (c_fdeps c)) par_std (c_n c) (c_shapes c).

Definition agree_abc (c : syscase) : bool :=
  let sys := sys_of c in
  let rho := c_rho c in
  list_eqb (list_eqb qc_eqb) (map (fun r => map (qevp rho) (rA r)) sys) (c_obsA c)
  && list_eqb qc_eqb (map (fun r => qevp rho (rb r)) sys) (c_obsb c)
  && list_eqb qc_eqb (map (fun r => qevp rho (rc r)) sys) (c_obsc c).

Definition model_upd (c : syscase) : list (option Qc) :=
  let sys := sys_of c in
  let keep := fun j => nth j (c_keep c) false in
  let s := sub_system Qc (c_n c) sys keep in
  map (fun i => if keep i
                then match find (fun ir => Nat.eqb (fst ir) i) (combine (sx s) (srows s)) with
                     | Some ir => Some (qevp (c_rho c) (numeric_update Qc s (snd ir)))
                     | None => None
                     end
                else None) (seq 0 (c_n c)).

Definition agree_upd (c : syscase) : bool := list_eqb (option_eqb qc_eqb) (model_upd c) (c_obsupd c).

Definition mism_abc (cases : list syscase) : list nat := mism_by agree_abc cases.
Definition mism_upd (cases : list syscase) : list nat := mism_by agree_upd cases.

(* ---- C03/C04: the per-variable verdict ---------------------------------------------------- *)
From OdeVerif Require Import Model.Graph.

Record vcase := { v_n : nat; v_fdeps : list (nat * list atom); v_shapes : list (shape Qc); v_obs : list bool }.

Definition model_verdict (c : vcase) : option (list bool) :=
  verdicts Qc (Q2Qc 1) (fdeps_of (v_fdeps c)) par_std (v_n c) (v_shapes c).
Definition agree_verdict (c : vcase) : bool := option_eqb (list_eqb Bool.eqb) (model_verdict c) (Some (v_obs c)).
Definition mism_verdict (cases : list vcase) : list nat := mism_by agree_verdict cases.

(* direct call of propagate_lin_cc_judgements on (node_is_lin, E) *)
Record pcase := { p_m : list bool; p_E : list edge; p_obs : list bool }.
Definition agree_prop (c : pcase) : bool := option_eqb (list_eqb Bool.eqb) (propagate_judgements (p_E c) (p_m c)) (Some (p_obs c)).
Definition mism_prop (cases : list pcase) : list nat := mism_by agree_prop cases.

(* ---- C10: Jacobian ------------------------------------------------------------------------- *)
From OdeVerif Require Import Model.Jacobian.

Definition qc_scale (e : Z) (c : Qc) : Qc := (Q2Qc (inject_Z e) * c)%Qc.

Record jcase := { j_n : nat; j_shapes : list (shape Qc); j_rho : list (atom * Qc); j_keep : list bool; j_obs : list (list Qc) }.

Definition model_jac (c : jcase) : list (list Qc) :=
  let sys := from_shapes Qc (Q2Qc 1) (fun _ => []) par_std (j_n c) (j_shapes c) in
  let s := sub_system Qc (j_n c) sys (fun j => nth j (j_keep c) false) in
  map (fun r => map (qevp (j_rho c)) (jac_row Qc qc_scale (sx s) r)) (srows s).
Definition agree_jac (c : jcase) : bool := list_eqb (list_eqb qc_eqb) (model_jac c) (j_obs c).
Definition mism_jac (cases : list jcase) : list nat := mism_by agree_jac cases.

(* ---- C01: update expressions of the analytic sub-system -------------------------------------- *)
From OdeVerif Require Import Model.Propagator.

Record pcase01 := {
  q_n : nat; q_shapes : list (shape Qc); q_rho : list (atom * Qc);
  q_keep : list bool;                        (* the analytic subset *)
  q_h : Qc;
  q_P : list ((nat * nat) * Qc);             (* observed propagator keys (sub-system indices) with the value given to each symbol *)
  q_ok : bool;                               (* implementation returned an analytical solver *)
  q_obs : list Qc                            (* update expressions of the analytic variables at the point *)
}.

Definition q_sub (c : pcase01) : subsys Qc :=
  sub_system Qc (q_n c) (from_shapes Qc (Q2Qc 1) (fun _ => []) par_std (q_n c) (q_shapes c)) (fun j => nth j (q_keep c) false).

Definition q_row (c : pcase01) (r : nat) : row Qc := nth r (srows (q_sub c)) (mkRow [] [] []).
Definition q_A (c : pcase01) (r k : nat) : Qc := qevp (q_rho c) (pnth (rA (q_row c r)) k).
Definition q_b (c : pcase01) (r : nat) : Qc := qevp (q_rho c) (rb (q_row c r)).
Definition q_x (c : pcase01) (k : nat) : Qc := lookup_atom (q_rho c) (AVar (nth k (sx (q_sub c)) 0%nat)).
Definition q_Pval (c : pcase01) (r k : nat) : Qc :=
  match find (fun e => Nat.eqb (fst (fst e)) r && Nat.eqb (snd (fst e)) k) (q_P c) with Some e => snd e | None => Q2Qc 0 end.
Definition q_Pnz (c : pcase01) (r k : nat) : bool :=
  existsb (fun e => Nat.eqb (fst (fst e)) r && Nat.eqb (snd (fst e)) k) (q_P c).
Definition q_bnz (c : pcase01) (r : nat) : bool := negb (isz (rb (q_row c r))).
Definition q_annz (c : pcase01) (r : nat) : bool := negb (isz (pnth (rA (q_row c r)) r)).
Definition q_cz (c : pcase01) (r : nat) : bool := isz (rc (q_row c r)).
Definition q_adj (c : pcase01) (i j : nat) : bool := negb (isz (pnth (rA (q_row c i)) j)).
Definition q_m (c : pcase01) : nat := length (sx (q_sub c)).
Definition q_scc (c : pcase01) (r : nat) : bool := 1 <? scc_size (q_adj c) (q_m c) r.
Definition q_ps (c : pcase01) (r : nat) : Qc := (- q_b c r / q_A c r r)%Qc.
(* predicted pattern: P[r,k] != 0 iff k is reachable from r along non-zero entries of A *)
Definition q_Ppred (c : pcase01) (r k : nat) : bool := reaches (q_adj c) (q_m c) r k.

Definition model_updates (c : pcase01) : list Qc :=
  map (fun r => update Qc (Q2Qc 0) Qcplus Qcmult Qcopp (q_m c) (q_b c) (q_x c) (q_Pval c) (q_h c) (q_ps c) (q_Pnz c) (q_bnz c) (q_annz c) r)
      (seq 0 (q_m c)).

Definition agree_c01 (c : pcase01) : bool :=
  if q_ok c then
    accepted (q_m c) (q_Pnz c) (q_bnz c) (q_cz c) (q_scc c) && list_eqb qc_eqb (model_updates c) (q_obs c)
  else negb (accepted (q_m c) (q_Ppred c) (q_bnz c) (q_cz c) (q_scc c)).
Definition mism_c01 (cases : list pcase01) : list nat := mism_by agree_c01 cases.
