(* Executable Qc instance of the system model, used by the correspondence checks of C02/C03/C10. *)
From Coq Require Import List Bool ZArith Arith QArith Qcanon.
From OdeVerif Require Import Base.Corr Model.Term Model.Split Model.System.
Import ListNotations.

Definition qc_pw (a : Qc) (e : Z) : Qc :=
  match e with
  | Z0 => Q2Qc 1
  | Zpos p => Qcpower a (Pos.to_nat p)
  | Zneg p => Qcinv (Qcpower a (Pos.to_nat p))
  end.

Definition lookup_atom (l : list (atom * Qc)) (a : atom) : Qc :=
  match find (fun p => atom_eqb (fst p) a) l with Some p => snd p | None => Q2Qc 0 end.

Definition qevp (rho : list (atom * Qc)) (p : poly Qc) : Qc :=
  ev_poly Qc Qc (Q2Qc 0) (Q2Qc 1) Qcplus Qcmult (fun c => c) qc_pw (lookup_atom rho) p.

Definition fdeps_of (l : list (nat * list atom)) (f : nat) : list atom :=
  match find (fun p => Nat.eqb (fst p) f) l with Some p => snd p | None => [] end.

(* the toolbox treats every symbol that is not a state variable as a constant parameter;
   the time symbol is NOT a constant *)
Definition par_std (a : atom) : bool := match a with APar _ => true | _ => false end.

Record syscase := {
  c_n : nat;
  c_fdeps : list (nat * list atom);
  c_shapes : list (shape Qc);
  c_rho : list (atom * Qc);
  c_keep : list bool;                       (* the numeric subset as reported by the implementation *)
  c_obsA : list (list Qc); c_obsb : list Qc; c_obsc : list Qc;      (* (A, b, c) of the full system at rho *)
  c_obsupd : list (option Qc)               (* numeric update expressions at rho, by x index *)
}.

Definition sys_of (c : syscase) : list (row Qc) :=
  from_shapes Qc (Q2Qc 1) (fdeps_of (c_fdeps c)) par_std (c_n c) (c_shapes c).

Definition agree_abc (c : syscase) : bool :=
  let sys := sys_of c in
  let rho := c_rho c in
  list_eqb (list_eqb qc_eqb) (map (fun r => map (qevp rho) (rA r)) sys) (c_obsA c)
  && list_eqb qc_eqb (map (fun r => qevp rho (rb r)) sys) (c_obsb c)
  && list_eqb qc_eqb (map (fun r => qevp rho (rc r)) sys) (c_obsc c).

Definition model_upd (c : syscase) : list (option Qc) :=
  let sys := sys_of c in
  let keep := fun j => nth j (c_keep c) false in
  let s := sub_system Qc (c_n c) sys keep in
  map (fun i => if keep i
                then match find (fun ir => Nat.eqb (fst ir) i) (combine (sx s) (srows s)) with
                     | Some ir => Some (qevp (c_rho c) (numeric_update Qc s (snd ir)))
                     | None => None
                     end
                else None) (seq 0 (c_n c)).

Definition agree_upd (c : syscase) : bool := list_eqb (option_eqb qc_eqb) (model_upd c) (c_obsupd c).

Definition mism_abc (cases : list syscase) : list nat := mism_by agree_abc cases.
Definition mism_upd (cases : list syscase) : list nat := mism_by agree_upd cases.

(* ---- C03/C04: the per-variable verdict ---------------------------------------------------- *)
From OdeVerif Require Import Model.Graph.

Record vcase := { v_n : nat; v_fdeps : list (nat * list atom); v_shapes : list (shape Qc); v_obs : list bool }.

Definition model_verdict (c : vcase) : option (list bool) :=
  verdicts Qc (Q2Qc 1) (fdeps_of (v_fdeps c)) par_std (v_n c) (v_shapes c).
Definition agree_verdict (c : vcase) : bool := option_eqb (list_eqb Bool.eqb) (model_verdict c) (Some (v_obs c)).
Definition mism_verdict (cases : list vcase) : list nat := mism_by agree_verdict cases.

(* direct call of propagate_lin_cc_judgements on (node_is_lin, E) *)
Record pcase := { p_m : list bool; p_E : list edge; p_obs : list bool }.
Definition agree_prop (c : pcase) : bool := option_eqb (list_eqb Bool.eqb) (propagate_judgements (p_E c) (p_m c)) (Some (p_obs c)).
Definition mism_prop (cases : list pcase) : list nat := mism_by agree_prop cases.

(* ---- C10: Jacobian ------------------------------------------------------------------------- *)
From OdeVerif Require Import Model.Jacobian.

Definition qc_scale (e : Z) (c : Qc) : Qc := (Q2Qc (inject_Z e) * c)%Qc.

Record jcase := { j_n : nat; j_shapes : list (shape Qc); j_rho : list (atom * Qc); j_keep : list bool; j_obs : list (list Qc) }.

Definition model_jac (c : jcase) : list (list Qc) :=
  let sys := from_shapes Qc (Q2Qc 1) (fun _ => []) par_std (j_n c) (j_shapes c) in
  let s := sub_system Qc (j_n c) sys (fun j => nth j (j_keep c) false) in
  map (fun r => map (qevp (j_rho c)) (jac_row Qc qc_scale (sx s) r)) (srows s).
Definition agree_jac (c : jcase) : bool := list_eqb (list_eqb qc_eqb) (model_jac c) (j_obs c).
Definition mism_jac (cases : list jcase) : list nat := mism_by agree_jac cases.
