(* Model of Shape.from_ode / reconstitute_expr (shapes.py:557-605, 349-358),
   SystemOfShapes.from_shapes (system_of_shapes.py:376-426), get_sub_system (174-194),
   reconstitute_expr / generate_numeric_solver (296-338) and get_jacobian_matrix (157-171). *)
From Coq Require Import List Bool ZArith Arith.
From OdeVerif Require Import Model.Term Model.Split.
Import ListNotations.

Section System.
  Variable K : Type.
  Variable kone : K.                       (* the coefficient 1 of  x_i' = x_(i+1) *)
  Variable fdeps : nat -> list atom.
  Variable par : atom -> bool.

  Inductive shape_def :=
  | ODE (rhs : poly K)                     (* right-hand side of the highest derivative, as written *)
  | FOT (factors : list (poly K)).         (* function of time: derivative factors found for it *)

  Record shape := mkShape { sh_off : nat ; sh_order : nat ; sh_def : shape_def }.

  Definition xs (n : nat) : list atom := map AVar (seq 0 n).
  Definition is_local (sh : shape) (j : nat) : bool := (sh_off sh <=? j) && (j <? sh_off sh + sh_order sh).
  Definition pnth (l : list (poly K)) (j : nat) : poly K := nth j l [].

  (* Shape.from_ode: local factors kept; linear terms in other shapes' variables re-attached to the
     nonlinear part *)
  Record shape_parts := mkParts { sp_factors : list (poly K) ; sp_inhom : poly K ; sp_nonlin : poly K }.

  Definition level1 (n : nat) (sh : shape) : shape_parts :=
    match sh_def sh with
    | FOT fs => mkParts fs [] []
    | ODE p =>
        let s := split fdeps par (xs n) p in
        mkParts (map (fun d => pnth (lin s) (sh_off sh + d)) (seq 0 (sh_order sh)))
                (inhom s)
                (nonlin s ++ flat_map (fun j => if is_local sh j then [] else mulvar (pnth (lin s) j) (AVar j)) (seq 0 n))
    end.

  (* Shape.reconstitute_expr *)
  Definition reconstitute (sh : shape) (sp : shape_parts) : poly K :=
    sp_inhom sp ++ sp_nonlin sp ++
    flat_map (fun d => mulvar (pnth (sp_factors sp) d) (AVar (sh_off sh + d))) (seq 0 (sh_order sh)).

  Record row := mkRow { rA : list (poly K) ; rb : poly K ; rc : poly K }.

  (* from_shapes: the rows owned by one shape *)
  Definition unit_row (n j : nat) : list (poly K) :=
    map (fun k => if Nat.eqb k j then [mkTerm kone []] else []) (seq 0 n).

  Definition shape_rows (n : nat) (sh : shape) : list row :=
    map (fun d => mkRow (unit_row n (sh_off sh + d + 1)) [] []) (seq 0 (sh_order sh - 1)) ++
    [(let s := split fdeps par (xs n) (reconstitute sh (level1 n sh)) in mkRow (lin s) (inhom s) (nonlin s))].

  Definition from_shapes (n : nat) (shapes : list shape) : list row := flat_map (shape_rows n) shapes.

  (* get_sub_system: keep the variables in [keep] (in x order); the discarded columns times their
     variables move into c *)
  Record subsys := mkSub { sx : list nat ; srows : list row }.

  Definition sub_system (n : nat) (sys : list row) (keep : nat -> bool) : subsys :=
    let idx := filter keep (seq 0 n) in
    mkSub idx
      (map (fun i => let r := nth i sys (mkRow [] [] []) in
                     mkRow (map (fun j => pnth (rA r) j) idx) (rb r)
                           (rc r ++ flat_map (fun j => if keep j then [] else mulvar (pnth (rA r) j) (AVar j)) (seq 0 n)))
           idx).

  (* SystemOfShapes.reconstitute_expr (numeric update expression of one row of a sub-system) *)
  Definition numeric_update (s : subsys) (r : row) : poly K :=
    flat_map (fun pg => mulvar (fst pg) (AVar (snd pg))) (combine (rA r) (sx s)) ++ rb r ++ rc r.

  Definition lower_row (n : nat) (sh : shape) (d : nat) : row := mkRow (unit_row n (sh_off sh + d + 1)) [] [].
  Definition final_row (n : nat) (sh : shape) : row :=
    let s := split fdeps par (xs n) (reconstitute sh (level1 n sh)) in mkRow (lin s) (inhom s) (nonlin s).
End System.

Arguments ODE {K}. Arguments FOT {K}. Arguments mkShape {K}. Arguments sh_off {K}. Arguments sh_order {K}. Arguments sh_def {K}.
Arguments mkRow {K}. Arguments rA {K}. Arguments rb {K}. Arguments rc {K}.
Arguments mkSub {K}. Arguments sx {K}. Arguments srows {K}. Arguments pnth {K}.
