(* Model of get_dependency_edges (system_of_shapes.py:103-111), propagate_lin_cc_judgements
   (134-154), the strongly-connected-component size query (341-351) and of
   _find_analytically_solvable_equations (__init__.py:58-90). *)
From Coq Require Import List Bool Arith.
From OdeVerif Require Import Model.Term Model.Split Model.System.
Import ListNotations.

Definition edge := (nat * nat)%type.       (* (a, b) : a depends on b *)

Section Graph.
  Variable K : Type.
  Variable fdeps : nat -> list atom.

  (* E.append((sym2, sym1)) when A[j,i] != 0 or sym1 in c[j].free_symbols  — (j, i): j depends on i *)
  Definition dep_edges (n : nat) (sys : list (row K)) : list edge :=
    flat_map (fun i => flat_map (fun j =>
      let r := nth j sys (mkRow [] [] []) in
      if negb (isz (pnth (rA r) i)) || pmentions fdeps (AVar i) (rc r) then [(j, i)] else []) (seq 0 n)) (seq 0 n).

  Definition mark := nat -> bool.
  Definition set_false (m : mark) (v : nat) : mark := fun x => if Nat.eqb x v then false else m x.
  Definition dependents (E : list edge) (v : nat) : list nat := map fst (filter (fun e => Nat.eqb (snd e) v) E).

  (* the worklist: queue.pop(0); if not lin[n]: for every node depending on n that is still
     marked lin: mark it not-lin and append it to the queue *)
  Definition demote_one (mq : mark * list nat) (n1 : nat) : mark * list nat :=
    if fst mq n1 then (set_false (fst mq) n1, snd mq ++ [n1]) else mq.
  Definition demote (E : list edge) (v : nat) (mq : mark * list nat) : mark * list nat :=
    fold_left demote_one (dependents E v) mq.

  Fixpoint propagate (fuel : nat) (E : list edge) (m : mark) (q : list nat) : option mark :=
    match q with
    | [] => Some m
    | v :: q' =>
        match fuel with
        | O => None
        | S f => if m v then propagate f E m q'
                 else let mq := demote E v (m, q') in propagate f E (fst mq) (snd mq)
        end
    end.

  Definition initial_queue (ml : list bool) : list nat :=
    map fst (filter (fun ib => negb (snd ib)) (combine (seq 0 (length ml)) ml)).

  Definition mark_of (ml : list bool) : mark := fun v => nth v ml false.

  Definition propagate_judgements (E : list edge) (ml : list bool) : option (list bool) :=
    match propagate (2 * length ml + 1) E (mark_of ml) (initial_queue ml) with
    | Some m => Some (map m (seq 0 (length ml)))
    | None => None
    end.

  (* reachability by bounded search (n rounds), for the SCC-size query *)
  Definition succs (adj : nat -> nat -> bool) (n : nat) (s : list nat) : list nat :=
    filter (fun j => existsb (fun i => adj i j) s) (seq 0 n).
  Fixpoint reach_iter (adj : nat -> nat -> bool) (n k : nat) (s : list nat) : list nat :=
    match k with
    | O => s
    | S k' => let s' := filter (fun j => existsb (Nat.eqb j) s || existsb (fun i => adj i j) s) (seq 0 n) in
              reach_iter adj n k' s'
    end.
  Definition reaches (adj : nat -> nat -> bool) (n i j : nat) : bool := existsb (Nat.eqb j) (reach_iter adj n n [i]).
  Definition scc_size (adj : nat -> nat -> bool) (n i : nat) : nat :=
    length (filter (fun j => reaches adj n i j && reaches adj n j i) (seq 0 n)).
End Graph.

Arguments dep_edges {K}.

Section Analysis.
  Variable K : Type.
  Variable kone : K.
  Variable fdeps : nat -> list atom.
  Variable par : atom -> bool.

  Definition shape_of (shapes : list (shape K)) (i : nat) : option (shape K) :=
    find (fun sh => is_local K sh i) shapes.

  (* get_lin_cc_symbols: the verdict of a shape (nonlinear part of split(reconstitute) is zero)
     is given to all its symbols *)
  Definition shape_lin (n : nat) (sh : shape K) : bool := isz (rc (final_row K fdeps par n sh)).

  Definition initial_verdict (n : nat) (shapes : list (shape K)) : list bool :=
    map (fun i => match shape_of shapes i with Some sh => shape_lin n sh | None => false end) (seq 0 n).

  Definition adjA (sys : list (row K)) (i j : nat) : bool := negb (isz (pnth (rA (nth i sys (mkRow [] [] []))) j)).

  (* __init__.py:76-86 *)
  Definition demotion_rules (n : nat) (sys : list (row K)) (m : list bool) : list bool :=
    map (fun i =>
      let bi := negb (isz (rb (nth i sys (mkRow [] [] [])))) in
      let rule1 := bi && (1 <? scc_size (adjA sys) n i) in
      let rule2 := existsb (fun j => negb (Nat.eqb i j) && adjA sys i j && negb (isz (rb (nth j sys (mkRow [] [] []))))) (seq 0 n) in
      if rule1 || rule2 then false else nth i m false) (seq 0 n).

  Definition verdicts (n : nat) (shapes : list (shape K)) : option (list bool) :=
    let sys := from_shapes K kone fdeps par n shapes in
    propagate_judgements (dep_edges fdeps n sys) (demotion_rules n sys (initial_verdict n shapes)).
End Analysis.
