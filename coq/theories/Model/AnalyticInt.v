(* Model of odetoolbox/integrator.py:36-62 (set_spike_times) and
   odetoolbox/analytic_integrator.py:137-142 (reset), 194-265 (get_value).
   Definitions only; proofs are in Proofs/AnalyticIntP.v.

   Times are integers (ticks): every finite set of float times used by the correspondence
   is a set of integer multiples of one power of two.  The flow [phi] (propagator update
   _update_step) and the spike increment [bump] are Section variables. *)
From Coq Require Import ZArith List Bool.
Import ListNotations.
Open Scope Z_scope.

Definition var := nat.
Definition event := (Z * list var)%type.

(* ---- set_spike_times: append-or-extend, then sort by time ------------------------- *)

(* `if t_sp in all_spike_times: idx = index(t_sp); syms[idx].extend([sym]) else append` *)
Fixpoint add_spike (evs : list event) (t : Z) (v : var) : list event :=
  match evs with
  | [] => [(t, [v])]
  | (t', vs) :: r => if t =? t' then (t', vs ++ [v]) :: r else (t', vs) :: add_spike r t v
  end.

Definition add_spikes_of (evs : list event) (p : var * list Z) : list event :=
  fold_left (fun e t => add_spike e t (fst p)) (snd p) evs.

Definition collect (spk : list (var * list Z)) : list event :=
  fold_left add_spikes_of spk [].

(* np.argsort on pairwise distinct keys = insertion sort by time *)
Fixpoint insert_ev (e : event) (l : list event) : list event :=
  match l with
  | [] => [e]
  | e' :: r => if fst e <=? fst e' then e :: l else e' :: insert_ev e r
  end.

Definition sort_ev (l : list event) : list event := fold_right insert_ev [] l.

Definition merge (spk : list (var * list Z)) : list event := sort_ev (collect spk).

(* the flat list of (time, variable) pairs, in the order set_spike_times visits them *)
Definition flat (spk : list (var * list Z)) : list (Z * var) :=
  concat (map (fun p => map (fun t => (t, fst p)) (snd p)) spk).

Inductive op := Get (t : Z) | EnableUpd | DisableUpd | Reset.

Section Integrator.
  Variable St : Type.
  Variable phi : Z -> St -> St.          (* _update_step(delta_t, state) *)
  Variable bump : var -> St -> St.       (* state[sym] += shape_starting_values[sym] *)
  Variable init : St.

  Definition bumps (vs : list var) (s : St) : St := fold_left (fun s v => bump v s) vs s.

  Record ai := { t_curr : Z ; st : St ; upd : bool }.

  (* the `for spike_t, spike_syms in zip(...)` loop of get_value *)
  Fixpoint adv (ev : list event) (tc : Z) (s : St) (t : Z) : Z * St :=
    match ev with
    | [] => (tc, s)
    | (ts, vs) :: ev' =>
        if ts <=? tc then adv ev' tc s t             (* continue *)
        else if t <? ts then (tc, s)                  (* break *)
        else adv ev' ts (bumps vs (phi (ts - tc) s)) t   (* delta_t = ts - tc > 0 here *)
    end.

  Definition reset (a : ai) : ai := {| t_curr := 0; st := init; upd := upd a |}.

  Definition get_value (caching : bool) (ev : list event) (a : ai) (t : Z) : ai * St :=
    let a0 := if negb caching || (t <? t_curr a) then reset a else a in
    let '(tc, s) := adv ev (t_curr a0) (st a0) t in
    ((if upd a0 then {| t_curr := tc; st := s; upd := true |} else a0),
     if 0 <? t - tc then phi (t - tc) s else s).

  Definition step (caching : bool) (ev : list event) (a : ai) (o : op) : ai * option St :=
    match o with
    | Get t => let '(a', r) := get_value caching ev a t in (a', Some r)
    | EnableUpd => ({| t_curr := t_curr a; st := st a; upd := true |}, None)
    | DisableUpd => ({| t_curr := t_curr a; st := st a; upd := false |}, None)
    | Reset => (reset a, None)
    end.

  Definition ai0 : ai := {| t_curr := 0; st := init; upd := true |}.

  Fixpoint run (caching : bool) (ev : list event) (a : ai) (ops : list op) : ai * list St :=
    match ops with
    | [] => (a, [])
    | o :: r => let '(a', out) := step caching ev a o in
                let '(a'', outs) := run caching ev a' r in
                (a'', match out with Some x => x :: outs | None => outs end)
    end.

  (* ---- the specification: the exact spike-driven solution ------------------------ *)

  Fixpoint run_events (evs : list event) (tc : Z) (s : St) : Z * St :=
    match evs with
    | [] => (tc, s)
    | (ts, vs) :: r => run_events r ts (bumps vs (phi (ts - tc) s))
    end.

  Definition in_window (lo hi : Z) (e : event) : bool := (lo <? fst e) && (fst e <=? hi).

  (* state at time t: propagate to each event time s with 0 < s <= t in turn, apply that
     event's increments, then propagate to t *)
  Definition spec (ev : list event) (t : Z) : St :=
    let '(tc, s) := run_events (filter (in_window 0 t) ev) 0 init in
    phi (t - tc) s.
End Integrator.
