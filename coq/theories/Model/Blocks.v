(* Model of get_block_diagonal_blocks (system_of_shapes.py:38-57) and of the assembly of the
   propagator matrix from per-component exponentials (197-209):
     coupling pattern  mirrored i j = (A[i,j] != 0) or (A[j,i] != 0)
     components        labels returned by scipy's connected_components (oracle data [lab])
     assembly          P[i,j] = exp(A[idx,idx] h)[i,j] if i and j are in one component, else 0. *)
From Coq Require Import List Bool Arith.
Import ListNotations.

Section Blocks.
  Variable T : Type.
  Variable rO : T.
  Variable n : nat.
  Variable nz : nat -> nat -> bool.        (* A[i,j] != 0 *)
  Variable lab : nat -> nat.               (* component label of each index *)
  Variable Pk : nat -> nat -> T.           (* entries of the per-component exponentials *)

  Definition mirrored (i j : nat) : bool := nz i j || nz j i.

  (* what connected_components guarantees: coupled indices carry one label *)
  Definition labels_ok : bool :=
    forallb (fun i => forallb (fun j => implb (mirrored i j) (Nat.eqb (lab i) (lab j))) (seq 0 n)) (seq 0 n).

  Definition block (i : nat) : list nat := filter (fun k => Nat.eqb (lab k) (lab i)) (seq 0 n).
  Definition assemble (i j : nat) : T := if Nat.eqb (lab i) (lab j) then Pk i j else rO.
End Blocks.
