(* Syntactic expressions of the toolbox's own logic: Laurent monomials over atoms (state variables,
   parameters, the time symbol, opaque function atoms), polynomials as term lists, and the
   syntactic operations the toolbox performs on expanded SymPy terms:
     is_constant_term (shapes.py:47-55), term / sym, factor * sym, formal d/dx.
   Semantics is given in an arbitrary commutative ring. *)
From Coq Require Import List Bool ZArith Arith.
Import ListNotations.

Inductive atom := AVar (i : nat) | APar (p : nat) | ATime | AFun (f : nat).

Definition atom_eqb (a b : atom) : bool :=
  match a, b with
  | AVar i, AVar j => Nat.eqb i j
  | APar p, APar q => Nat.eqb p q
  | ATime, ATime => true
  | AFun f, AFun g => Nat.eqb f g
  | _, _ => false
  end.

Section Terms.
  Variable K : Type.                       (* coefficients *)

  Record term := mkTerm { coef : K ; pows : list (atom * Z) }.
  Definition poly := list term.

  (* free symbols of an atom: a function atom contributes the symbols it was built from *)
  Variable fdeps : nat -> list atom.
  Definition atom_syms (a : atom) : list atom := match a with AFun f => fdeps f | _ => [a] end.
  Definition term_syms (t : term) : list atom := flat_map (fun p => atom_syms (fst p)) (pows t).

  (* is_constant_term: all free symbols are (constant) parameters *)
  Definition is_const (par : atom -> bool) (t : term) : bool := forallb par (term_syms t).

  (* term / sym *)
  Fixpoint div_pows (l : list (atom * Z)) (x : atom) : list (atom * Z) :=
    match l with
    | [] => [(x, (-1)%Z)]
    | (a, e) :: r => if atom_eqb a x then (if Z.eqb e 1 then r else (a, (e - 1)%Z) :: r)
                     else (a, e) :: div_pows r x
    end.
  Definition div_atom (t : term) (x : atom) : term := mkTerm (coef t) (div_pows (pows t) x).

  (* factor * sym : the factors the toolbox multiplies back never contain sym, so the product
     just gains the symbol with exponent one *)
  Definition mul_atom (t : term) (x : atom) : term := mkTerm (coef t) ((x, 1%Z) :: pows t).
  Definition mulvar (p : poly) (x : atom) : poly := map (fun t => mul_atom t x) p.

  Definition isz (p : poly) : bool := match p with [] => true | _ => false end.

  Definition mentions (x : atom) (t : term) : bool := existsb (atom_eqb x) (term_syms t).
  Definition pmentions (x : atom) (p : poly) : bool := existsb (mentions x) p.
End Terms.

Arguments mkTerm {K}. Arguments coef {K}. Arguments pows {K}.
Arguments term_syms {K}. Arguments is_const {K}. Arguments div_atom {K}. Arguments mul_atom {K}.
Arguments mulvar {K}. Arguments isz {K}. Arguments mentions {K}. Arguments pmentions {K}.

(* ---- semantics in a commutative ring ------------------------------------------------------ *)
Section Sem.
  Variable K T : Type.
  Variables (rO rI : T) (radd rmul : T -> T -> T).
  Variable inj : K -> T.                   (* coefficients into the ring *)
  Variable pw : T -> Z -> T.               (* integer powers (negative ones through an inverse) *)
  Variable rho : atom -> T.                (* valuation *)

  Definition ev_pows (l : list (atom * Z)) : T :=
    fold_right (fun p acc => rmul (pw (rho (fst p)) (snd p)) acc) rI l.
  Definition ev_term (t : term K) : T := rmul (inj (coef t)) (ev_pows (pows t)).
  Definition ev_poly (p : poly K) : T := fold_right (fun t acc => radd (ev_term t) acc) rO p.
End Sem.
