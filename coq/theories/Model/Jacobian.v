(* Model of SystemOfShapes.get_jacobian_matrix (system_of_shapes.py:157-171):
   J[i][j] = d/dx_j ( c_i + sum_k A[i][k] * x_k )  =  A[i][j] + d c_i / d x_j
   (A and b contain no state variable).  The derivative of the nonlinear part is sympy.diff in
   the implementation; here the formal derivative of a Laurent polynomial. *)
From Coq Require Import List Bool ZArith Arith.
From OdeVerif Require Import Model.Term Model.Split Model.System.
Import ListNotations.

Section Jac.
  Variable K : Type.
  Variable kscale : Z -> K -> K.           (* e * c *)

  Fixpoint dpows (l : list (atom * Z)) (x : atom) : option (Z * list (atom * Z)) :=
    match l with
    | [] => None
    | (a, e) :: r =>
        if atom_eqb a x then Some (e, if Z.eqb e 1 then r else (a, (e - 1)%Z) :: r)
        else match dpows r x with Some (e', r') => Some (e', (a, e) :: r') | None => None end
    end.

  Definition dterm (t : term K) (x : atom) : poly K :=
    match dpows (pows t) x with Some (e, l) => [mkTerm (kscale e (coef t)) l] | None => [] end.
  Definition dpoly (p : poly K) (x : atom) : poly K := flat_map (fun t => dterm t x) p.

  (* one row of the Jacobian of a system / sub-system whose state vector has global indices [idx] *)
  Definition jac_row (idx : list nat) (r : row K) : list (poly K) :=
    map (fun jg => pnth (rA r) (fst jg) ++ dpoly (rc r) (AVar (snd jg))) (combine (seq 0 (length idx)) idx).
End Jac.
