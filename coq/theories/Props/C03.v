(* C03 — Solver partition is an exact cover, and analytic membership is sound and closed. *)
From Coq Require Import List Bool Arith Permutation.
From OdeVerif Require Import Model.Term Model.Split Model.System Model.Graph Proofs.SplitP Proofs.GraphP Proofs.AnalysisP.
Import ListNotations.

(* the worklist computes the greatest dependency-closed subset of the initially marked nodes:
   for every graph, every initial marking, every queue containing the unmarked targets of edges *)
Theorem c03_worklist_is_gfp : forall (E : list edge) (m0 : mark) fuel q m',
  (forall a b, dep E a b -> m0 b = false -> In b q) ->
  propagate fuel E m0 q = Some m' ->
  forall v, m' v = true <-> (forall w, reach E v w -> m0 w = true).
Proof. exact worklist_is_gfp. Qed.
Print Assumptions c03_worklist_is_gfp.

Theorem c03_propagate_judgements : forall E ml r,
  (forall a b, dep E a b -> b < length ml) ->
  propagate_judgements E ml = Some r ->
  length r = length ml /\
  forall v, v < length ml -> (nth v r false = true <-> (forall w, reach E v w -> mark_of ml w = true)).
Proof. exact propagate_judgements_spec. Qed.
Print Assumptions c03_propagate_judgements.

(* closure: an analytically solved variable depends on analytically solved variables only *)
Theorem c03_closed : forall (K : Type) (kone : K) fdeps par n (shapes : list (shape K)) r i j, i < n ->
  verdicts K kone fdeps par n shapes = Some r -> nth i r false = true ->
  dep (dep_edges fdeps n (from_shapes K kone fdeps par n shapes)) i j -> nth j r false = true.
Proof. exact analytic_closed. Qed.
Print Assumptions c03_closed.

(* every state variable is in exactly one of the two solvers *)
Theorem c03_exact_cover : forall n (r : list bool),
  let analytic := filter (fun i => nth i r false) (seq 0 n) in
  let numeric := filter (fun i => negb (nth i r false)) (seq 0 n) in
  Permutation (analytic ++ numeric) (seq 0 n) /\ NoDup (analytic ++ numeric).
Proof. exact exact_cover. Qed.
Print Assumptions c03_exact_cover.

(* soundness: an analytically solved variable belongs to a shape whose equation has an empty
   nonlinear part, and whose linear coefficients and offset consist of terms all of whose symbols
   are parameters (neither state variables nor — for the standard classifier — the time symbol) *)
Theorem c03_sound : forall (K : Type) (kone : K) fdeps par n (shapes : list (shape K)) r i, i < n ->
  verdicts K kone fdeps par n shapes = Some r -> nth i r false = true ->
  exists sh, shape_of K shapes i = Some sh
    /\ rc (final_row K fdeps par n sh) = []
    /\ Forall (fun t => is_const fdeps par t = true) (rb (final_row K fdeps par n sh))
    /\ Forall (Forall (fun t => is_const fdeps par t = true)) (rA (final_row K fdeps par n sh)).
Proof.
  intros K kone fdeps par n shapes r i Hi Hv Hr.
  destruct (analytic_sound K kone fdeps par n shapes r i Hi Hv Hr) as [sh [H1 H2]].
  exists sh. split; [exact H1|]. split.
  - unfold shape_lin, isz in H2. destruct (rc (final_row K fdeps par n sh)); [reflexivity|discriminate].
  - exact (split_buckets K fdeps par (xs n) (reconstitute K sh (level1 K fdeps par n sh))).
Qed.
Print Assumptions c03_sound.

(* non-vacuity: x0' = -x0 + x1, x1' = x1*x1 (nonlinear), x2' = -x2 : only x2 stays analytic *)
Example c03_nonvacuous :
  propagate_judgements [(0, 0); (0, 1); (1, 1); (2, 2)] [true; false; true] = Some [false; false; true].
Proof. vm_compute. reflexivity. Qed.

(* the worklist always terminates within its fuel: the verdict is defined for every graph and marking *)
Theorem c03_worklist_total : forall E ml, exists r, propagate_judgements E ml = Some r.
Proof. exact propagate_judgements_total. Qed.
Print Assumptions c03_worklist_total.

(* closure at the level of the returned expressions: the only state variables that the update expression of an
   analytically solved variable reads are variables of the analytic solver itself (a column with a non-zero propagator
   entry, or the variable's own row) - never a numerically solved one *)
From OdeVerif Require Import Model.Propagator Proofs.SymbolsP.
Theorem c03_analytic_updates_read_analytic_only :
  forall (Par : Type) (n : nat) (bpars pspars : nat -> list Par) (Pnz : nat -> nat -> bool) (bnz annz : nat -> bool) (r c : nat),
    In (TVar c) (usyms (tsym Par) n TVar TProp TStep (fun k => map TPar (bpars k)) (fun k => map TPar (pspars k)) Pnz bnz annz r) ->
    (c < n /\ Pnz r c = true) \/ c = r.
Proof. exact update_reads_own_solver. Qed.
Print Assumptions c03_analytic_updates_read_analytic_only.

(* non-vacuity: in a 2-variable analytic block where row 0 reads column 1, the update of row 0 does mention variable 1 *)
Example c03_analytic_updates_example :
  In (TVar 1) (usyms (tsym nat) 2 TVar TProp TStep (fun _ => map TPar []) (fun _ => map TPar []) (fun r c => Nat.leb r c) (fun _ => false) (fun _ => false) 0).
Proof. vm_compute. tauto. Qed.
