(* C15 — Stimulus spike trains honour their specification. *)
From Coq Require Import List Bool Arith QArith Qcanon Sorted Permutation.
From OdeVerif Require Import Base.Corr Model.SpikeGen Proofs.SpikeGenP Proofs.QcOrder.
Import ListNotations.

(* ---- generic statements: any totally ordered number type with monotone addition ---------- *)

(* regular: exactly the multiples isi, 2 isi, ..., n isi where n isi <= T < (n+1) isi; no interior
   multiple is missing, nothing else is produced *)
Theorem c15_regular :
  forall (num : Type) (zero : num) (add : num -> num -> num) (ltb leb : num -> num -> bool),
    (forall a b, leb a b = negb (ltb b a)) ->
    (forall a b c, ltb a b = true -> ltb b c = true -> ltb a c = true) ->
    (forall a, ltb a a = false) ->
    (forall a b, ltb a b = false -> ltb b a = false -> a = b) ->
  forall (isi T : num), (forall t, ltb t (add t isi) = true) ->
  forall n fuel, leb (nsum num zero add isi n) T = true -> ltb T (nsum num zero add isi (S n)) = true -> (n < fuel)%nat ->
    regular num add ltb leb fuel isi T zero = Some (map (nsum num zero add isi) (seq 1 n)).
Proof.
  intros num zero add ltb leb H1 H2 H3 H4 isi T Hpos n fuel Ha Hb Hf.
  exact (regular_is_all_multiples num zero add ltb leb H1 H2 H3 H4 isi T Hpos n fuel Ha Hb Hf).
Qed.
Print Assumptions c15_regular.

(* Poisson: whatever the draws, each spike is at least min_isi after its predecessor, none after T;
   hence the train is strictly increasing and lies in (0, T] *)
Theorem c15_poisson :
  forall (num : Type) (zero : num) (add : num -> num -> num) (ltb leb : num -> num -> bool),
    (forall a b, leb a b = negb (ltb b a)) ->
    (forall a b c, ltb a b = true -> ltb b c = true -> ltb a c = true) ->
    (forall a, ltb a a = false) ->
    (forall a b, ltb a b = false -> ltb b a = false -> a = b) ->
  forall (min_isi T : num), (forall t, ltb t (add t min_isi) = true) ->
    (forall t a b, leb a b = true -> leb (add t a) (add t b) = true) ->
  forall raw out rest, poisson num add ltb leb raw min_isi T zero = Some (out, rest) ->
    chain num add leb min_isi T zero out
    /\ StronglySorted (fun a b => ltb a b = true) out
    /\ Forall (fun s => ltb zero s = true /\ leb s T = true) out.
Proof.
  intros num zero add ltb leb H1 H2 H3 H4 m T Hpos Hmono raw out rest Hp.
  pose proof (poisson_chain num add ltb leb H1 H2 H3 m T Hmono raw zero out rest Hp) as Hc.
  split; [exact Hc|].
  exact (chain_increasing num add ltb leb H1 H2 H4 m T Hpos zero out Hc).
Qed.
Print Assumptions c15_poisson.

(* list: sorted permutation of the listed times not exceeding T, for lists of any length *)
Theorem c15_list :
  forall (num : Type) (ltb leb : num -> num -> bool),
    (forall a b, leb a b = negb (ltb b a)) ->
    (forall a b c, ltb a b = true -> ltb b c = true -> ltb a c = true) ->
    (forall a, ltb a a = false) ->
    (forall a b, ltb a b = false -> ltb b a = false -> a = b) ->
  forall T l, Sorted (fun a b => leb a b = true) (list_stim num leb T l)
              /\ Permutation (list_stim num leb T l) (filter (fun t => leb t T) l).
Proof.
  intros num ltb leb H1 H2 H3 H4 T l. exact (list_stim_spec num ltb leb H1 H2 H3 T l).
Qed.
Print Assumptions c15_list.

(* dispatch: every (renamed) target gets its own entry holding the concatenation, in order, of the
   trains of all stimuli targeting it; untargeted names are not keys *)
Theorem c15_dispatch :
  forall (key : Type) (key_eqb : key -> key -> bool), (forall a b, key_eqb a b = true <-> a = b) ->
  forall (num : Type) (visits : list (key * list num)) (k : key),
    lookup key key_eqb num (dispatch key key_eqb num visits) k =
    if existsb (fun v => key_eqb (fst v) k) visits then Some (train_for key key_eqb num visits k) else None.
Proof. intros key key_eqb H num visits k. exact (dispatch_spec key key_eqb H num visits k). Qed.
Print Assumptions c15_dispatch.

(* ---- the rational instance: the hypotheses are satisfiable, multiples are k * isi ---------- *)

Lemma nsum_qc isi k : nsum Qc 0%Qc Qcplus isi k = (Q2Qc (inject_Z (Z.of_nat k)) * isi)%Qc.
Proof.
  induction k as [|k IH].
  - cbn. change (Q2Qc (inject_Z 0)) with 0%Qc. ring.
  - cbn [nsum]. rewrite IH. rewrite Nat2Z.inj_succ.
    assert (Q2Qc (inject_Z (Z.succ (Z.of_nat k))) = (Q2Qc (inject_Z (Z.of_nat k)) + 1)%Qc) as E.
    { apply Qc_is_canon. unfold Qcplus, Q2Qc. cbn [this]. rewrite !Qred_correct. unfold Z.succ. rewrite inject_Z_plus. reflexivity. }
    rewrite E. ring.
Qed.

Theorem c15_regular_rational :
  forall (rate T : Qc) (n fuel : nat), (0 < rate)%Qc ->
    (Q2Qc (inject_Z (Z.of_nat n)) * (1 / rate) <= T)%Qc ->
    (T < Q2Qc (inject_Z (Z.of_nat (S n))) * (1 / rate))%Qc -> (n < fuel)%nat ->
    regular Qc Qcplus qc_ltb qc_leb fuel (1 / rate)%Qc T 0%Qc
    = Some (map (fun k => (Q2Qc (inject_Z (Z.of_nat k)) * (1 / rate))%Qc) (seq 1 n)).
Proof.
  intros rate T n fuel Hr Ha Hb Hf.
  assert (0 < 1 / rate)%Qc as Hisi.
  { unfold Qcdiv. rewrite Qcmult_1_l. unfold Qclt in *.
    change (this (/ rate)%Qc) with (Qred (/ this rate)). change (this 0%Qc) with 0%Q in *.
    rewrite Qred_correct. apply Qinv_lt_0_compat. exact Hr. }
  rewrite (c15_regular Qc 0%Qc Qcplus qc_ltb qc_leb qc_leb_ltb qc_ltb_trans qc_ltb_irrefl qc_ltb_total
             (1 / rate)%Qc T (fun t => qc_add_pos t _ Hisi) n fuel).
  - f_equal. apply map_ext. intros k. apply nsum_qc.
  - rewrite nsum_qc. apply qc_leb_le. exact Ha.
  - rewrite nsum_qc. apply qc_ltb_lt. exact Hb.
  - exact Hf.
Qed.
Print Assumptions c15_regular_rational.

(* non-vacuity: T = 3/10, rate = 10 gives exactly 1/10, 2/10, 3/10 in exact arithmetic *)
Example c15_nonvacuous :
  option_map (map this) (regular Qc Qcplus qc_ltb qc_leb 5 (Q2Qc (1#10)) (Q2Qc (3#10)) 0%Qc)
  = Some [(1#10)%Q; (1#5)%Q; (3#10)%Q]
  /\ map this (list_stim Qc qc_leb (Q2Qc 2) [Q2Qc 3; Q2Qc (1#2); Q2Qc 2; Q2Qc (1#2)]) = [(1#2)%Q; (1#2)%Q; 2%Q].
Proof. split; vm_compute; reflexivity. Qed.
