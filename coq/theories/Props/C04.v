(* C04 — Analytically tractable variables are recognised however they are written. *)
From Coq Require Import List Bool ZArith Arith.
From OdeVerif Require Import Model.Term Model.Split Model.System Model.Graph Proofs.SplitP Proofs.GraphP Proofs.AnalysisP Proofs.RecogniseP.
Import ListNotations.

(* The shape-level verdict (per-shape split, re-attachment of foreign linear terms, second split
   against the whole state vector) is "linear with constant coefficients" exactly when every term of
   the canonical (expanded) right-hand side is either constant or a constant times one state
   variable — independent of the order of terms and of which other shapes exist.
   "However written" is SymPy's expand producing this canonical term list (oracle, validated by
   the spelling correspondence). *)
Theorem c04_recognised :
  forall (K : Type) fdeps par, (forall i, par (AVar i) = false) ->
  forall n (sh : shape K) (p : poly K), sh_def sh = ODE p ->
    (shape_lin K fdeps par n sh = true <-> forall t, In t p -> recognised K fdeps par (xs n) t = true).
Proof. exact shape_lin_iff. Qed.
Print Assumptions c04_recognised.

(* a term is recognised iff it is constant or some state variable divides it leaving a constant *)
Theorem c04_recognised_term :
  forall (K : Type) fdeps par n (t : term K),
    recognised K fdeps par (xs n) t = true <->
    is_const fdeps par t = true \/ exists j, j < n /\ is_const fdeps par (div_atom t (AVar j)) = true.
Proof.
  intros K fdeps par n t. unfold recognised. rewrite orb_true_iff.
  split; intros [H|H]; try (left; exact H); right.
  - destruct (first_lin fdeps par (xs n) 0 t) as [[j q]|] eqn:F; [|discriminate].
    destruct (first_lin_spec K fdeps par (xs n) 0 t j q F) as [k [x [_ [H2 [H3 H4]]]]].
    unfold xs in H2. rewrite nth_error_map in H2. destruct (nth_error (seq 0 n) k) as [k'|] eqn:E; [|discriminate].
    cbn in H2. inversion H2; subst x. exists k'. split; [|rewrite <- H3; exact H4].
    apply nth_error_In in E. apply in_seq in E. apply E.
  - destruct H as [j [Hj Hc]].
    destruct (first_lin fdeps par (xs n) 0 t) eqn:F; [reflexivity|exfalso].
    apply (first_lin_some_of_in K fdeps par (xs n) t (AVar j)) with (j0 := 0) in F; [exact F| |exact Hc].
    unfold xs. apply in_map. apply in_seq. split; [apply Nat.le_0_l|exact Hj].
Qed.
Print Assumptions c04_recognised_term.

(* completeness: a variable is analytic iff everything reachable from it along dependencies is
   recognised and hits neither documented exception (offset inside a coupled/higher-order group;
   direct dependence on a variable with an offset) *)
Theorem c04_complete :
  forall (K : Type) (kone : K) fdeps par n (shapes : list (shape K)) r v, v < n ->
    verdicts K kone fdeps par n shapes = Some r ->
    let sys := from_shapes K kone fdeps par n shapes in
    (nth v r false = true <->
     forall w, reach (dep_edges fdeps n sys) v w ->
       w < n /\ nth w (initial_verdict K fdeps par n shapes) false = true
       /\ rule1 K n sys w = false /\ rule2 K n sys w = false).
Proof. exact verdict_complete. Qed.
Print Assumptions c04_complete.
