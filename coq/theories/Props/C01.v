(* C01 — the analytical solver is the exact flow of the input ODEs for every step size. *)
From Coq Require Import List Bool Arith Ring Reals.
From OdeVerif Require Import Model.Blocks Model.Propagator Proofs.BlocksP Proofs.PropagatorP Real.LinODE.
Import ListNotations.
Local Close Scope R_scope.

(* ---- algebra: any commutative ring T with a derivation D = d/dh and the morphism ev0 = (h := 0) ---- *)
Section C01.
  Variable T : Type.
  Variables (rO rI : T) (radd rmul rsub : T -> T -> T) (ropp : T -> T).
  Hypothesis RT : ring_theory rO rI radd rmul rsub ropp (@eq T).
  Variable D : T -> T.
  Hypothesis D_add : forall a b, D (radd a b) = radd (D a) (D b).
  Hypothesis D_mul : forall a b, D (rmul a b) = radd (rmul (D a) b) (rmul a (D b)).
  Hypothesis D_zero : D rO = rO.
  Variable ev0 : T -> T.
  Hypothesis ev0_add : forall a b, ev0 (radd a b) = radd (ev0 a) (ev0 b).
  Hypothesis ev0_mul : forall a b, ev0 (rmul a b) = rmul (ev0 a) (ev0 b).
  Hypothesis ev0_zero : ev0 rO = rO.

  Variable n : nat.                                   (* any number of analytic variables *)
  Variable A : nat -> nat -> T.
  Variables b x ps : nat -> T.
  Variable h : T.
  Variable Pnz : nat -> nat -> bool.
  Variables bnz annz cz scc_gt1 : nat -> bool.
  Hypothesis A_const : forall i j, D (A i j) = rO /\ ev0 (A i j) = A i j.
  Hypothesis b_const : forall i, D (b i) = rO /\ ev0 (b i) = b i.
  Hypothesis x_const : forall i, D (x i) = rO /\ ev0 (x i) = x i.
  Hypothesis ps_const : forall i, D (ps i) = rO /\ ev0 (ps i) = ps i.
  Hypothesis h_law : D h = rI /\ ev0 h = rO.
  Hypothesis bnz_sound : forall i, bnz i = false -> b i = rO.
  Hypothesis annz_sound : forall i, annz i = false -> A i i = rO.
  (* "every parameter value at which the expressions are defined": the division -b_r / A_rr is *)
  Hypothesis ps_law : forall i, bnz i = true -> annz i = true -> radd (rmul (A i i) (ps i)) (b i) = rO.

  (* -- with the propagator matrix as one oracle -- *)
  Section WholeMatrix.
    Variable P : nat -> nat -> T.
    Hypothesis Pnz_sound : forall i j, Pnz i j = false -> P i j = rO.
    Hypothesis P_at_0 : forall i j, i < n -> j < n -> ev0 (P i j) = if Nat.eqb i j then rI else rO.
    Hypothesis P_ode : forall i j, i < n -> j < n -> D (P i j) = sumn T rO radd n (fun k => rmul (A i k) (P k j)).
    Hypothesis Hacc : accepted n Pnz bnz cz scc_gt1 = true.
    Notation u := (update T rO radd rmul ropp n b x P h ps Pnz bnz annz).

    Theorem c01_identity_at_zero : forall r, r < n -> ev0 (u r) = x r.
    Proof.
      intros r Hr.
      exact (update_identity_at_zero T rO rI radd rmul rsub ropp RT D ev0 ev0_add ev0_mul ev0_zero n b x ps P h Pnz bnz annz
               x_const ps_const h_law Pnz_sound P_at_0 r Hr).
    Qed.

    Theorem c01_derivative : forall r, r < n -> D (u r) = radd (sumn T rO radd n (fun j => rmul (A r j) (u j))) (b r).
    Proof.
      intros r Hr.
      exact (update_derivative T rO rI radd rmul rsub ropp RT D D_add D_mul D_zero ev0 ev0_add ev0_mul ev0_zero n A b x ps P h Pnz
               bnz annz cz scc_gt1 A_const b_const x_const ps_const h_law Pnz_sound bnz_sound annz_sound ps_law P_at_0 P_ode Hacc r Hr).
    Qed.
  End WholeMatrix.

  (* -- with one matrix exponential per connected component, scattered back (what the code does) -- *)
  Section PerComponent.
    Variable nz : nat -> nat -> bool.
    Hypothesis nz_sound : forall i j, nz i j = false -> A i j = rO.
    Variable lab : nat -> nat.
    Hypothesis Hlab : labels_ok n nz lab = true.        (* coupled indices share a label *)
    Variable Pk : nat -> nat -> T.
    Hypothesis Pk_at_0 : forall i j, i < n -> j < n -> lab i = lab j -> ev0 (Pk i j) = if Nat.eqb i j then rI else rO.
    Hypothesis Pk_ode : forall i j, i < n -> j < n -> lab i = lab j ->
      D (Pk i j) = lsum T rO radd (block n lab i) (fun k => rmul (A i k) (Pk k j)).
    Notation P := (assemble T rO lab Pk).
    Hypothesis Pnz_sound : forall i j, Pnz i j = false -> P i j = rO.
    Hypothesis Hacc : accepted n Pnz bnz cz scc_gt1 = true.
    Notation u := (update T rO radd rmul ropp n b x P h ps Pnz bnz annz).

    Theorem c01_blockwise : forall r, r < n ->
      ev0 (u r) = x r /\ D (u r) = radd (sumn T rO radd n (fun j => rmul (A r j) (u j))) (b r).
    Proof.
      intros r Hr.
      pose proof (assembled_at_0 T rO rI ev0 ev0_zero n lab Pk Pk_at_0) as H0.
      pose proof (assembled_ode T rO rI radd rmul rsub ropp RT D D_zero n A nz nz_sound lab Pk Hlab Pk_ode) as H1.
      split; [exact (c01_identity_at_zero P Pnz_sound H0 r Hr) | exact (c01_derivative P Pnz_sound H0 H1 Hacc r Hr)].
    Qed.
  End PerComponent.
End C01.
Print Assumptions c01_identity_at_zero.
Print Assumptions c01_derivative.
Print Assumptions c01_blockwise.

(* ---- real analysis: these two facts characterise the exact flow ---- *)
Open Scope R_scope.

(* uniqueness of solutions of u' = A u + b on [0, oo), any dimension *)
Theorem c01_unique : forall n (A : nat -> nat -> R) (b : nat -> R) (u v : R -> nat -> R),
  solves n A b u -> solves n A b v -> (forall i, (i < n)%nat -> u 0 i = v 0 i) ->
  forall s, 0 <= s -> forall i, (i < n)%nat -> u s i = v s i.
Proof. exact lin_ode_unique. Qed.
Print Assumptions c01_unique.

(* an update family that is the identity at step 0 and whose step-derivative is the right-hand side
   at the updated state maps every trajectory of the user's equations to itself: for every state,
   every step size h >= 0 the new state is the state the equations reach after time h *)
Theorem c01_exact_flow : forall n (A : nat -> nat -> R) (b : nat -> R) (Phi : (nat -> R) -> R -> nat -> R),
  (forall x i, (i < n)%nat -> Phi x 0 i = x i) -> (forall x, solves n A b (Phi x)) ->
  forall (y : R -> nat -> R) t0, solves n A b y -> forall h, 0 <= h -> forall i, (i < n)%nat ->
    Phi (y t0) h i = y (t0 + h) i.
Proof. exact flow_is_trajectory. Qed.
Print Assumptions c01_exact_flow.

(* a step of h1 followed by a step of h2 equals one step of h1 + h2 *)
Theorem c01_semigroup : forall n (A : nat -> nat -> R) (b : nat -> R) (Phi : (nat -> R) -> R -> nat -> R),
  (forall x i, (i < n)%nat -> Phi x 0 i = x i) -> (forall x, solves n A b (Phi x)) ->
  forall x h1 h2, 0 <= h1 -> 0 <= h2 -> forall i, (i < n)%nat -> Phi (Phi x h1) h2 i = Phi x (h1 + h2) i.
Proof. exact flow_semigroup. Qed.
Print Assumptions c01_semigroup.

(* options that do not change the mathematics: whatever is requested through preserve_expressions, the update
   expression returned for an analytically solved variable is the computed one (rule REGENERATED from the last loop of
   _analysis on every run) *)
From OdeVerif Require Import Gen.PreserveGen.
Theorem c01_flags_leave_analytic_untouched : forall (T : Type) (requested : bool) (computed user_text : T),
  returned_update T true requested computed user_text = computed.
Proof. intros T [|] computed user_text; reflexivity. Qed.
Print Assumptions c01_flags_leave_analytic_untouched.
