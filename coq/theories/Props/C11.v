(* C11 — reported propagator singularities are genuine and none is missed. *)
From Coq Require Import List Bool ZArith QArith Qcanon.
From OdeVerif Require Import Base.Corr Model.Singularity Proofs.SingularityP.
Import ListNotations.

(* an expression is undefined at a parameter point exactly when one of the collected denominators
   (bases of negative powers, pre-order) evaluates to zero there *)
Theorem c11_collect : forall (fn : nat -> Qc -> Qc) (rho : nat -> Qc) (e : ex) (ds : list ex),
  denoms e = Some ds ->
  (eval fn rho e = None <-> exists d, In d ds /\ eval fn rho d = Some (Q2Qc 0)).
Proof. exact undefined_iff_denominator_vanishes. Qed.
Print Assumptions c11_collect.

(* de-duplication loses nothing and repeats nothing *)
Theorem c11_dedup : forall l c, (In c (dedup l []) <-> In c l) /\ NoDup (dedup l []).
Proof. intros l c. split; [rewrite dedup_spec; cbn; tauto|apply dedup_nodup]. Qed.
Print Assumptions c11_dedup.

(* the report = solutions of the collected denominators, filtered by "the system matrix stays defined" *)
Theorem c11_report : forall (solve : ex -> option (list cond)) (a_defined : cond -> bool) (P : list ex) (out : list cond),
  find_singularities solve a_defined P = Some out ->
  NoDup out /\
  forall c, In c out <-> a_defined c = true /\
    exists e ds d sol, In e P /\ denoms e = Some ds /\ In d ds /\ solve d = Some sol /\ In c sol.
Proof. exact report_spec. Qed.
Print Assumptions c11_report.

(* under the law of the solve oracle (a point annihilates d iff it satisfies one of solve's answers):
   soundness — every reported condition, at any point that satisfies it, makes a propagator entry
   undefined (if that denominator is itself defined there);
   completeness — every point at which a propagator entry is undefined satisfies a condition that is
   reported unless it makes the system matrix undefined *)
Section SoundComplete.
  Variable fn : nat -> Qc -> Qc.
  Variable solve : ex -> option (list cond).
  Variable a_defined : cond -> bool.
  Variable sat : (nat -> Qc) -> cond -> Prop.            (* rho satisfies the substitution *)
  Hypothesis solve_law : forall d sol rho, solve d = Some sol ->
    (eval fn rho d = Some (Q2Qc 0) <-> exists c, In c sol /\ sat rho c /\ eval fn rho d <> None).

  Theorem c11_sound : forall P out c rho, find_singularities solve a_defined P = Some out -> In c out -> sat rho c ->
    a_defined c = true /\ exists e ds d, In e P /\ denoms e = Some ds /\ In d ds /\ (eval fn rho d <> None -> eval fn rho e = None).
  Proof.
    intros P out c rho H Hin Hsat. destruct (report_spec solve a_defined P out H) as [_ Hr].
    destruct (proj1 (Hr c) Hin) as [Hd [e [ds [d [sol [H1 [H2 [H3 [H4 H5]]]]]]]]].
    split; [exact Hd|]. exists e, ds, d. repeat split; try assumption. intros Hdef.
    apply (undefined_iff_denominator_vanishes fn rho e ds H2). exists d. split; [exact H3|].
    apply (solve_law d sol rho H4). exists c. tauto.
  Qed.

  Theorem c11_complete : forall P out e ds rho, find_singularities solve a_defined P = Some out -> In e P -> denoms e = Some ds ->
    eval fn rho e = None ->
    exists c, sat rho c /\ (a_defined c = true -> In c out).
  Proof.
    intros P out e ds rho H He Hds Hund. destruct (report_spec solve a_defined P out H) as [_ Hr].
    destruct (proj1 (undefined_iff_denominator_vanishes fn rho e ds Hds) Hund) as [d [Hd Hz]].
    (* solve was called on d (otherwise the detection would not have completed) *)
    assert (exists sol, solve d = Some sol) as [sol Hs].
    { unfold find_singularities in H. destruct (gen_conditions solve P) as [cs|] eqn:Eg; [|discriminate].
      clear - Eg He Hds Hd. revert cs Eg. induction P as [|e0 r IH]; intros cs Eg; [destruct He|]. cbn [gen_conditions] in Eg.
      destruct (denoms e0) as [ds0|] eqn:E0; [|discriminate]. destruct (solve_all solve ds0) as [c1|] eqn:E1; [|discriminate].
      destruct (gen_conditions solve r) as [c2|] eqn:E2; [|discriminate].
      destruct He as [<-|He].
      - rewrite Hds in E0. inversion E0; subst ds0. clear - E1 Hd. revert c1 E1. induction ds as [|d0 ds IHd]; intros c1 E1; [destruct Hd|].
        cbn [solve_all] in E1. destruct (solve d0) as [s0|] eqn:Es; [|discriminate]. destruct (solve_all solve ds) as [c'|] eqn:Er; [|discriminate].
        destruct Hd as [<-|Hd]; [exists s0; exact Es|exact (IHd Hd c' eq_refl)].
      - exact (IH He c2 eq_refl). }
    destruct (proj1 (solve_law d sol rho Hs) Hz) as [c [Hc [Hsat _]]].
    exists c. split; [exact Hsat|]. intros Hdef. apply (Hr c). split; [exact Hdef|]. exists e, ds, d, sol. tauto.
  Qed.
End SoundComplete.
Print Assumptions c11_sound.
Print Assumptions c11_complete.

(* non-vacuity:  1/(a - b) + exp(1/a)  is undefined exactly where a = b or a = 0 *)
Example c11_nonvacuous :
  denoms (Add (Pow (Add (Sym 0) (Mul (Num (Q2Qc (-1))) (Sym 1))) (-1)) (Fn 1 (Pow (Sym 0) (-1))))
  = Some [Add (Sym 0) (Mul (Num (Q2Qc (-1))) (Sym 1)); Sym 0].
Proof. reflexivity. Qed.
