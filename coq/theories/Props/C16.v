(* C16 — the command-line tool and the Python API give the same answer. *)
From Coq Require Import List Bool Arith Ascii String.
From OdeVerif Require Import Model.InputCheck Model.Cli Gen.CliGen Proofs.InputCheckP Proofs.CliP.
Import ListNotations.
Open Scope string_scope.

(* the argument table and the keyword mapping of the analysis() call, REGENERATED from /repo *)
Theorem c16_argument_table :
  cli_flags = [("infile", "store", "", ""); ("--disable-stiffness-check", "store_true", "", "");
               ("--disable-analytic-solver", "store_true", "", ""); ("--preserve-expressions", "store", "*", "False");
               ("--log-level", "store", "", "'WARN'")]
  /\ cli_kwargs = [("disable_stiffness_check", "disable_stiffness_check"); ("disable_analytic_solver", "disable_analytic_solver");
                   ("preserve_expressions", "preserve_expressions"); ("log_level", "log_level")]
  /\ cli_bare_preserve_means_true = true.
Proof. repeat split. Qed.
Print Assumptions c16_argument_table.

(* any sequence of flag groups after the input file — in any order, repeated or not, names and level
   values not starting with '-' — is parsed into exactly the documented settings: bare
   --preserve-expressions means True, with names the list of names, absent False; the stiffness/analytic
   switches; the log level *)
Theorem c16_kwargs : forall infile items, is_option infile = false -> (forall i, In i items -> item_ok i) ->
  parse_argv (infile :: List.concat (map render_item items)) = Some (fold_left apply_item items (init_args infile)).
Proof. exact parse_items. Qed.
Print Assumptions c16_kwargs.

(* exit status zero and the result written iff the file exists, is valid JSON and analysis returns;
   otherwise a non-zero exit status and nothing written — for the regenerated step sequence *)
Theorem c16_output : forall (R : Type) (isfile json_ok : bool) (outcome : analysis_outcome R),
  run_steps R isfile json_ok outcome cli_steps None =
  match isfile, json_ok, outcome with
  | true, true, Result r => (true, Some r)
  | _, _, _ => (false, None)
  end.
Proof. exact run_standard_steps. Qed.
Print Assumptions c16_output.

(* the result file is '<basename>_result.json' in the working directory: directory part dropped, last
   extension dropped, dots elsewhere in the path irrelevant — with the regenerated naming rule *)
Local Close Scope string_scope.
Theorem c16_name_with_extension : forall (dir stem ext : str),
  all (fun c => negb (ch_eqb c slash)) (stem ++ [dot] ++ ext) -> all (fun c => negb (ch_eqb c dot)) ext ->
  forallb (fun c => ch_eqb c dot) stem = false ->
  outname cli_name_rule (dir ++ [slash] ++ stem ++ [dot] ++ ext) = stem ++ suffix
  /\ outname cli_name_rule (stem ++ [dot] ++ ext) = stem ++ suffix.
Proof.
  intros dir stem ext H1 H2 H3. unfold outname. change cli_name_rule with SplitextOfBasename.
  destruct (basename_of_dir_name dir (stem ++ [dot] ++ ext) H1) as [B1 B2].
  rewrite B1, B2, (splitext_stem_ext stem ext H2 H3). split; reflexivity.
Qed.
Print Assumptions c16_name_with_extension.

Theorem c16_name_without_extension : forall (dir name : str),
  all (fun c => negb (ch_eqb c slash)) name -> all (fun c => negb (ch_eqb c dot)) name ->
  outname cli_name_rule (dir ++ [slash] ++ name) = name ++ suffix.
Proof.
  intros dir name H1 H2. unfold outname. change cli_name_rule with SplitextOfBasename.
  destruct (basename_of_dir_name dir name H1) as [B1 _]. rewrite B1, (splitext_stem_noext name H2). reflexivity.
Qed.
Print Assumptions c16_name_without_extension.

Local Open Scope string_scope.
(* the pinned tree's rule (strip the extension of the whole path, then take the basename) is wrong
   for an extension-less file inside a directory whose name contains a dot *)
Example c16_old_rule_refuted :
  outname BasenameOfRsplit (list_ascii_of_string "../some.dir/input") = list_ascii_of_string "some_result.json"
  /\ outname SplitextOfBasename (list_ascii_of_string "../some.dir/input") = list_ascii_of_string "input_result.json".
Proof. split; vm_compute; reflexivity. Qed.
