(* C08 — returned solver dictionaries are complete, closed and faithful to the input. *)
From Coq Require Import List Bool String Arith.
From OdeVerif Require Import Gen.ParamFilterGen Model.Term Model.Split Model.System Model.Output Proofs.OutputP Proofs.AnalysisP.
Import ListNotations.
Open Scope string_scope.

(* the keys of a solver dictionary that the parameter filter scans are REGENERATED from
   /repo/odetoolbox/__init__.py on every run: initial values must be among them *)
Theorem c08_filter_scans_everything :
  In "update_expressions" scanned_keys /\ In "propagators" scanned_keys /\ In "initial_values" scanned_keys.
Proof. repeat split; vm_compute; tauto. Qed.
Print Assumptions c08_filter_scans_everything.

(* a supplied parameter is listed by a solver iff any of its update expressions, propagators or
   initial values refers to it — for every symbol table and every supplied list *)
Theorem c08_params :
  forall (name : Type) (name_eqb : name -> name -> bool), (forall a b, name_eqb a b = true <-> a = b) ->
  forall (tab : symtab name) (supplied : list name) (p : name),
    In p (filter_params name name_eqb scanned_keys tab supplied) <->
    In p supplied /\ (In p (syms_under name tab "update_expressions") \/ In p (syms_under name tab "propagators")
                      \/ In p (syms_under name tab "initial_values")).
Proof.
  intros name name_eqb Heq tab supplied p.
  rewrite (filter_params_spec name name_eqb Heq scanned_keys tab supplied p).
  split; intros [H1 H2]; split; try exact H1.
  - destruct H2 as [key [Hk Hp]]. vm_compute in Hk.
    repeat (destruct Hk as [Hk|Hk]; [subst key; tauto|]). destruct Hk.
  - destruct c08_filter_scans_everything as [A [B C0]].
    destruct H2 as [H|[H|H]]; [exists "update_expressions"|exists "propagators"|exists "initial_values"]; tauto.
Qed.
Print Assumptions c08_params.

(* every state variable is given to exactly one solver (one update expression and one initial
   value each follow, since both maps are built over the solver's own state vector) *)
Theorem c08_one_solver_each : forall n (r : list bool),
  let analytic := filter (fun i => nth i r false) (seq 0 n) in
  let numeric := filter (fun i => negb (nth i r false)) (seq 0 n) in
  Permutation.Permutation (analytic ++ numeric) (seq 0 n) /\ NoDup (analytic ++ numeric).
Proof. exact exact_cover. Qed.
Print Assumptions c08_one_solver_each.

(* closure of symbols: the numeric update expressions contain no symbol that is neither a state
   variable nor a symbol of the user's own right-hand sides *)
Theorem c08_numeric_symbols_closed :
  forall (K : Type) fdeps par (ok : atom -> Prop) n (sh : shape K) (p : poly K),
    (forall i, ok (AVar i)) -> sh_def sh = ODE p -> atoms_in K ok p ->
    let r := final_row K fdeps par n sh in
    Forall (atoms_in K ok) (rA r) /\ atoms_in K ok (rb r) /\ atoms_in K ok (rc r).
Proof. exact final_row_atoms. Qed.
Print Assumptions c08_numeric_symbols_closed.

Theorem c08_numeric_update_symbols_closed :
  forall (K : Type) (ok : atom -> Prop) (s : subsys K) (r : row K), (forall i, ok (AVar i)) ->
    Forall (atoms_in K ok) (rA r) -> atoms_in K ok (rb r) -> atoms_in K ok (rc r) -> atoms_in K ok (numeric_update K s r).
Proof. exact numeric_update_atoms. Qed.
Print Assumptions c08_numeric_update_symbols_closed.
