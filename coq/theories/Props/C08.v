(* C08 — returned solver dictionaries are complete, closed and faithful to the input. *)
From Coq Require Import List Bool String Arith Ascii Permutation.
From OdeVerif Require Import Gen.ParamFilterGen Model.Term Model.Split Model.System Model.Output Proofs.OutputP Proofs.AnalysisP
  Model.InputCheck Model.InitialValues Proofs.InputCheckP Proofs.InitialValuesP.
Import ListNotations.
Open Scope string_scope.

(* the keys of a solver dictionary that the parameter filter scans are REGENERATED from
   /repo/odetoolbox/__init__.py on every run: initial values must be among them *)
Theorem c08_filter_scans_everything :
  In "update_expressions" scanned_keys /\ In "propagators" scanned_keys /\ In "initial_values" scanned_keys.
Proof. repeat split; vm_compute; tauto. Qed.
Print Assumptions c08_filter_scans_everything.

(* a supplied parameter is listed by a solver iff any of its update expressions, propagators or
   initial values refers to it — for every symbol table and every supplied list *)
Theorem c08_params :
  forall (name : Type) (name_eqb : name -> name -> bool), (forall a b, name_eqb a b = true <-> a = b) ->
  forall (tab : symtab name) (supplied : list name) (p : name),
    In p (filter_params name name_eqb scanned_keys tab supplied) <->
    In p supplied /\ (In p (syms_under name tab "update_expressions") \/ In p (syms_under name tab "propagators")
                      \/ In p (syms_under name tab "initial_values")).
Proof.
  intros name name_eqb Heq tab supplied p.
  rewrite (filter_params_spec name name_eqb Heq scanned_keys tab supplied p).
  split; intros [H1 H2]; split; try exact H1.
  - destruct H2 as [key [Hk Hp]]. vm_compute in Hk.
    repeat (destruct Hk as [Hk|Hk]; [subst key; tauto|]). destruct Hk.
  - destruct c08_filter_scans_everything as [A [B C0]].
    destruct H2 as [H|[H|H]]; [exists "update_expressions"|exists "propagators"|exists "initial_values"]; tauto.
Qed.
Print Assumptions c08_params.

(* every state variable is given to exactly one solver (one update expression and one initial
   value each follow, since both maps are built over the solver's own state vector) *)
Theorem c08_one_solver_each : forall n (r : list bool),
  let analytic := filter (fun i => nth i r false) (seq 0 n) in
  let numeric := filter (fun i => negb (nth i r false)) (seq 0 n) in
  Permutation.Permutation (analytic ++ numeric) (seq 0 n) /\ NoDup (analytic ++ numeric).
Proof. exact exact_cover. Qed.
Print Assumptions c08_one_solver_each.

(* closure of symbols: the numeric update expressions contain no symbol that is neither a state
   variable nor a symbol of the user's own right-hand sides *)
Theorem c08_numeric_symbols_closed :
  forall (K : Type) fdeps par (ok : atom -> Prop) n (sh : shape K) (p : poly K),
    (forall i, ok (AVar i)) -> sh_def sh = ODE p -> atoms_in K ok p ->
    let r := final_row K fdeps par n sh in
    Forall (atoms_in K ok) (rA r) /\ atoms_in K ok (rb r) /\ atoms_in K ok (rc r).
Proof. exact final_row_atoms. Qed.
Print Assumptions c08_numeric_symbols_closed.

Theorem c08_numeric_update_symbols_closed :
  forall (K : Type) (ok : atom -> Prop) (s : subsys K) (r : row K), (forall i, ok (AVar i)) ->
    Forall (atoms_in K ok) (rA r) -> atoms_in K ok (rb r) -> atoms_in K ok (rc r) -> atoms_in K ok (numeric_update K s r).
Proof. exact numeric_update_atoms. Qed.
Print Assumptions c08_numeric_update_symbols_closed.

(* one initial value per state variable, and it is the one the user supplied for it: for every entry the input
   check accepts with an "initial_values" dictionary, the value returned for x^(k) is the value listed under the
   key with k primes (there is exactly one such key), for k = 0 .. order-1 *)
Theorem c08_initial_values_by_name :
  forall (V : Type) (reserved : list str) (marker : str) (e : entry) (sym : str) (order : nat) (kvs : list (str * V)),
    check_entry reserved marker e = Accepted sym order -> e_ivs e = Some (map fst kvs) ->
    List.length (output_ivs order kvs) = order /\
    forall k, k < order -> exists key v, In (key, v) kvs /\ count prime key = k /\ nth k (output_ivs order kvs) None = Some v
                                      /\ (forall key' v', In (key', v') kvs -> count prime key' = k -> (key', v') = (key, v)).
Proof.
  intros V reserved marker e sym order kvs Hacc Hivs.
  apply check_entry_accepts_iff in Hacc. destruct Hacc as [s [_ [_ [_ [Hok _]]]]].
  unfold iv_ok in Hok. rewrite Hivs in Hok. destruct (e_has_iv e); [destruct Hok|].
  destruct Hok as [Hl [Hg Hnd]]. rewrite map_length in Hl.
  exact (output_by_name V sym order kvs Hl Hg Hnd).
Qed.
Print Assumptions c08_initial_values_by_name.

(* ... and listing the keys in another order changes nothing *)
Theorem c08_initial_values_order_irrelevant :
  forall (V : Type) (reserved : list str) (marker : str) (e : entry) (sym : str) (order : nat) (kvs kvs' : list (str * V)),
    check_entry reserved marker e = Accepted sym order -> e_ivs e = Some (map fst kvs) -> Permutation kvs kvs' ->
    output_ivs order kvs = output_ivs order kvs'.
Proof.
  intros V reserved marker e sym order kvs kvs' Hacc Hivs P.
  apply check_entry_accepts_iff in Hacc. destruct Hacc as [s [_ [_ [_ [Hok _]]]]].
  unfold iv_ok in Hok. rewrite Hivs in Hok. destruct (e_has_iv e); [destruct Hok|].
  destruct Hok as [_ [_ Hnd]]. exact (output_order_irrelevant V order kvs kvs' P Hnd).
Qed.
Print Assumptions c08_initial_values_order_irrelevant.

(* symbol closure of the ANALYTIC update expressions: instantiating the value-level model of
   generate_propagator_solver with "list of occurring symbols" (sum, product = concatenation), every symbol of the
   update expression of an analytically solved variable is a propagator symbol of its own row, a state variable of the
   same solver (a column with a non-zero propagator entry, or the row itself), the time-step symbol, or a symbol of
   the row's own offset / particular solution, i.e. a constant of the input.  (Assumes SymPy's simplification of the
   assembled expression introduces no symbol; checked on every returned dictionary by the probe.) *)
From OdeVerif Require Import Model.Propagator Proofs.SymbolsP.
Theorem c08_analytic_update_symbols_closed :
  forall (S : Type) (n : nat) (X : nat -> S) (Pn : nat -> nat -> S) (H : S) (bsyms pssyms : nat -> list S)
         (Pnz : nat -> nat -> bool) (bnz annz : nat -> bool) (r : nat) (s : S),
    In s (usyms S n X Pn H bsyms pssyms Pnz bnz annz r) ->
    (exists c, c < n /\ Pnz r c = true /\ (s = Pn r c \/ s = X c))
    \/ s = Pn r r \/ s = X r \/ s = H \/ In s (bsyms r) \/ In s (pssyms r).
Proof. exact update_symbols. Qed.
Print Assumptions c08_analytic_update_symbols_closed.

(* non-vacuity: an accepted second-order entry whose keys are listed in descending order, one of them with a blank *)
Example c08_initial_values_example :
  let e := {| e_expr := Some (list_ascii_of_string "x'' = -x - 2*x'"); e_has_iv := false;
              e_ivs := Some [list_ascii_of_string " x'"; list_ascii_of_string "x"] |} in
  let kvs := [(list_ascii_of_string " x'", 7); (list_ascii_of_string "x", 3)] in
  check_entry [list_ascii_of_string "t"; list_ascii_of_string "exp"] (list_ascii_of_string "__d") e = Accepted (list_ascii_of_string "x") 2
  /\ e_ivs e = Some (map fst kvs)
  /\ output_ivs 2 kvs = [Some 3; Some 7].
Proof. vm_compute. repeat split. Qed.

(* non-vacuity of the symbol-closure statement: a 2x2 block with an offset on row 0 really mentions all kinds of symbols *)
Example c08_analytic_update_symbols_example :
  usyms nat 2 (fun c => 10 + c) (fun r c => 20 + 2 * r + c) 99 (fun _ => [50]) (fun _ => [50; 51]) (fun _ _ => true) (fun r => Nat.eqb r 0) (fun _ => true) 0
  = [20; 10; 21; 11; 20; 10; 20; 10; 50; 51; 50; 51].
Proof. vm_compute. reflexivity. Qed.
