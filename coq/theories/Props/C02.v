(* C02 — Numeric-solver expressions equal the user's right-hand sides (lossless split).
   All statements: any commutative ring T (ring_theory), any coefficient embedding, any power
   function with pw a 1 = a, any valuation rho of the atoms, ANY classifier [par] that does not
   call a state variable a parameter, any number and order of shapes, any kept subset. *)
From Coq Require Import List Bool ZArith Arith Ring.
From OdeVerif Require Import Model.Term Model.Split Model.System Proofs.SplitP Proofs.SystemP.
Import ListNotations.

Section C02.
  Variable K T : Type.
  Variables (rO rI : T) (radd rmul rsub : T -> T -> T) (ropp : T -> T).
  Hypothesis RT : ring_theory rO rI radd rmul rsub ropp (@eq T).
  Variable inj : K -> T.
  Variable pw : T -> Z -> T.
  Hypothesis pw_1 : forall a, pw a 1%Z = a.
  Variable rho : atom -> T.
  Variable kone : K.
  Hypothesis inj_one : inj kone = rI.
  Variable fdeps : nat -> list atom.
  Variable par : atom -> bool.
  Hypothesis vars_not_par : forall i, par (AVar i) = false.

  Notation evp := (ev_poly K T rO rI radd rmul inj pw rho).
  Notation ev_row := (ev_row K T rO rI radd rmul inj pw rho).
  Notation ev_sub_row := (ev_sub_row K T rO rI radd rmul inj pw rho).

  (* the term-wise split never loses, duplicates or moves-and-loses a term *)
  Theorem c02_split_lossless : forall (xs : list atom) (p : poly K),
    (forall x, In x xs -> par x = false /\ is_var x = true) ->
    ev_split K T rO rI radd rmul inj pw rho xs (split fdeps par xs p) = evp p.
  Proof.
    intros xs p H. exact (proj1 (split_lossless K T rO rI radd rmul rsub ropp RT inj pw pw_1 rho fdeps par xs p H)).
  Qed.

  (* the row of the highest derivative of an ODE entry says what the user wrote
     (per-shape split, re-attachment of foreign linear terms, second split) *)
  Theorem c02_row_is_rhs : forall n (sh : shape K) (p : poly K),
    sh_def sh = ODE p -> sh_off sh + sh_order sh <= n ->
    ev_row n (final_row K fdeps par n sh) = evp p.
  Proof.
    intros n sh p H1 H2.
    exact (final_row_is_rhs K T rO rI radd rmul rsub ropp RT inj pw pw_1 rho fdeps par vars_not_par n sh p H1 H2).
  Qed.

  (* a function-of-time entry is represented by the constant-coefficient equation found for it *)
  Theorem c02_row_of_function_of_time : forall n (sh : shape K) fs,
    sh_def sh = FOT fs ->
    ev_row n (final_row K fdeps par n sh) =
    sum_list T rO radd (seq 0 (sh_order sh)) (fun d => rmul (evp (pnth fs d)) (rho (AVar (sh_off sh + d)))).
  Proof.
    intros n sh fs H.
    exact (final_row_fot K T rO rI radd rmul rsub ropp RT inj pw pw_1 rho fdeps par vars_not_par n sh fs H).
  Qed.

  (* each lower derivative is updated by exactly the next-higher derivative *)
  Theorem c02_lower_rows : forall n (sh : shape K) d, sh_off sh + d + 1 < n ->
    ev_row n (lower_row K kone n sh d) = rho (AVar (sh_off sh + d + 1)).
  Proof.
    intros n sh d H.
    exact (lower_row_is_next K T rO rI radd rmul rsub ropp RT inj pw rho kone inj_one n sh d H).
  Qed.

  (* cutting a sub-system moves the discarded columns into c without loss, for every kept set *)
  Theorem c02_subsystem_lossless : forall n (sys : list (row K)) (keep : nat -> bool) i,
    i < n -> keep i = true -> length (rA (nth i sys (mkRow [] [] []))) = n ->
    let s := sub_system K n sys keep in
    let r' := (let r := nth i sys (mkRow [] [] []) in
               mkRow (map (fun j => pnth (rA r) j) (sx s)) (rb r)
                     (rc r ++ flat_map (fun j => if keep j then [] else mulvar (pnth (rA r) j) (AVar j)) (seq 0 n))) in
    In r' (srows s) /\ ev_sub_row s r' = ev_row n (nth i sys (mkRow [] [] [])).
  Proof.
    intros n sys keep i H1 H2 H3.
    exact (sub_row_lossless K T rO rI radd rmul rsub ropp RT inj pw pw_1 rho n sys keep i H1 H2 H3).
  Qed.

  (* the re-assembled numeric update expression of a sub-system row is that row *)
  Theorem c02_numeric_update_is_rhs : forall (s : subsys K) (r : row K),
    evp (numeric_update K s r) = ev_sub_row s r.
  Proof.
    intros s r. exact (numeric_update_is_row K T rO rI radd rmul rsub ropp RT inj pw pw_1 rho s r).
  Qed.
End C02.
Print Assumptions c02_split_lossless.
Print Assumptions c02_row_is_rhs.
Print Assumptions c02_row_of_function_of_time.
Print Assumptions c02_lower_rows.
Print Assumptions c02_subsystem_lossless.
Print Assumptions c02_numeric_update_is_rhs.

(* end to end over the assembled system: in the system built from ANY list of entries that follow each
   other in the state vector, the row of the highest derivative of every ODE entry means what the user
   wrote, and the row of every lower derivative means the next-higher derivative *)
From OdeVerif Require Import Proofs.AssembleP.
Section C02System.
  Variable K T : Type.
  Variables (rO rI : T) (radd rmul rsub : T -> T -> T) (ropp : T -> T).
  Hypothesis RT : ring_theory rO rI radd rmul rsub ropp (@eq T).
  Variable inj : K -> T.
  Variable pw : T -> Z -> T.
  Hypothesis pw_1 : forall a, pw a 1%Z = a.
  Variable rho : atom -> T.
  Variable kone : K.
  Hypothesis inj_one : inj kone = rI.
  Variable fdeps : nat -> list atom.
  Variable par : atom -> bool.
  Hypothesis vars_not_par : forall i, par (AVar i) = false.

  Theorem c02_system_rows : forall n (shapes : list (shape K)) (sh : shape K) dflt,
    wf_from K 0 shapes -> In sh shapes -> sh_off sh + sh_order sh <= n ->
    (forall p, sh_def sh = ODE p ->
       ev_row K T rO rI radd rmul inj pw rho n (nth (sh_off sh + (sh_order sh - 1)) (from_shapes K kone fdeps par n shapes) dflt)
       = ev_poly K T rO rI radd rmul inj pw rho p) /\
    (forall d, d + 1 < sh_order sh ->
       ev_row K T rO rI radd rmul inj pw rho n (nth (sh_off sh + d) (from_shapes K kone fdeps par n shapes) dflt)
       = rho (AVar (sh_off sh + d + 1))).
  Proof.
    intros n shapes sh dflt Hwf Hin Hn.
    assert (forall off, wf_from K off shapes -> 1 <= sh_order sh) as G.
    { clear - Hin. induction shapes as [|s0 r IH]; intros off Hw; [destruct Hin|].
      destruct Hw as [_ [H1 H2]]. destruct Hin as [<-|Hin']; [exact H1|exact (IH Hin' _ H2)]. }
    pose proof (G 0 Hwf) as Ho.
    split.
    - intros p Hp. rewrite (system_row_final K kone fdeps par n shapes sh dflt Hwf Hin Ho).
      exact (final_row_is_rhs K T rO rI radd rmul rsub ropp RT inj pw pw_1 rho fdeps par vars_not_par n sh p Hp Hn).
    - intros d Hd. rewrite (system_row_lower K kone fdeps par n shapes sh d dflt Hwf Hin Hd).
      apply (lower_row_is_next K T rO rI radd rmul rsub ropp RT inj pw rho kone inj_one n sh d).
      clear - Hd Hn. Lia.lia.
  Qed.
End C02System.
Print Assumptions c02_system_rows.

(* which text is returned for a numerically solved variable (rule REGENERATED from the last loop of _analysis on every
   run): the user's own right-hand side when its preservation was requested - requests being validated against the
   first-order variables - and the computed expression (which [c02_numeric_update_is_rhs] shows to mean the same)
   otherwise *)
From OdeVerif Require Import Gen.PreserveGen.
Theorem c02_preserved_or_computed : forall (T : Type) (requested : bool) (computed user_text : T),
  returned_update T false requested computed user_text = (if requested then user_text else computed)
  /\ requests_validated_against_first_order_variables = true.
Proof. intros T [|] computed user_text; split; reflexivity. Qed.
Print Assumptions c02_preserved_or_computed.
