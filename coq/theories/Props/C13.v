(* C13 — mixed integrator: time, spikes, threshold resets.
   The numeric stepper (GSL) is an oracle whose answers are data; a run that ends normally ([Done])
   has, by the model's own check, only answers that make progress and do not overshoot the requested
   end.  All statements hold for every event list, every answer sequence, every bound setting. *)
From Coq Require Import ZArith List Bool Sorted QArith Qcanon Lia.
From OdeVerif Require Import Base.Corr Model.AnalyticInt Model.MixedInt Model.MixedIntExec Proofs.MixedIntP Proofs.AnalyticIntP Proofs.QcOrder.
Import ListNotations.
Open Scope Z_scope.

(* precise mode: the log starts at 0, is strictly increasing, ends exactly at the requested duration;
   every spike before the end is applied exactly once, in order, at a log time equal to its own time;
   spikes at or after the end are not applied *)
Theorem c13_precise :
  forall (St : Type) (enforce : St -> St * bool) (bump : mvar -> St -> St) (sim max_step : Z)
         (events : list mevent) (init : St) (ans : list (answer St)) (sf : mstate St),
    0 <= sim -> ev_sorted events -> Forall (fun e => 0 < fst e) events -> (forall e, In e events -> snd e <> []) ->
    integrate St enforce bump false sim max_step events init ans = Done St sf ->
    log_ok St sf /\ m_t St sf = sim /\
    m_applied St sf = map triple (filter (before_end sim) events).
Proof.
  intros St enforce bump sim max_step events init ans sf H0 Hs Hp Hn H.
  exact (precise_run St enforce bump false sim max_step events init ans sf eq_refl H0 Hs Hp Hn H).
Qed.
Print Assumptions c13_precise.

(* aliased mode: strictly increasing log from 0 to a grid time not before the requested duration; every
   spike up to that time is applied exactly once, in order, at the first grid boundary not before it *)
Theorem c13_aliased :
  forall (St : Type) (enforce : St -> St * bool) (bump : mvar -> St -> St) (sim max_step : Z)
         (events : list mevent) (init : St) (ans : list (answer St)) (sf : mstate St),
    0 < max_step -> ev_sorted events -> Forall (fun e => 0 < fst e) events ->
    integrate St enforce bump true sim max_step events init ans = Done St sf ->
    log_ok St sf /\ sim <= m_t St sf /\ Forall (at_first_boundary max_step) (m_applied St sf) /\
    map pair_of (m_applied St sf) = filter (fun e => fst e <=? m_t St sf) events.
Proof.
  intros St enforce bump sim max_step events init ans sf Hm Hs Hp H.
  exact (alias_run St enforce bump true sim max_step events init ans sf eq_refl Hm Hs Hp H).
Qed.
Print Assumptions c13_aliased.

(* the event list the integrator works with (set_spike_times) satisfies the hypotheses above whenever
   the spike times are positive *)
Theorem c13_events_from_spike_map : forall spk,
  ev_sorted (merge spk) /\ (forall e, In e (merge spk) -> snd e <> []).
Proof. intros spk. split; [exact (merge_sorted spk)|exact (merge_nonempty spk)]. Qed.
Print Assumptions c13_events_from_spike_map.

(* bounds: after every step a variable beyond its upper bound, or (not beyond the upper bound and)
   below its lower bound, has been reset to its initial value; otherwise it is untouched *)
Theorem c13_bounds : forall (ub lb : option Qc) (init y : Qc),
  let y' := fst (enforce_one (ub, lb, init) y) in
  (forall u, ub = Some u -> qc_ltb u y = true -> y' = init) /\
  (forall l, lb = Some l -> (forall u, ub = Some u -> qc_ltb u y = false) -> qc_ltb y l = true -> y' = init) /\
  ((forall u, ub = Some u -> qc_ltb u y = false) -> (forall l, lb = Some l -> qc_ltb y l = false) -> y' = y).
Proof.
  intros ub lb init y. cbv zeta. unfold enforce_one. split; [|split].
  - intros u Hu Hlt. subst ub. rewrite Hlt. destruct lb as [l|]; cbn [fst]; [|reflexivity].
    destruct (qc_ltb init l); reflexivity.
  - intros l Hl Hub Hlt. subst lb.
    assert ((match ub with Some u => if qc_ltb u y then (init, true) else (y, false) | None => (y, false) end) = (y, false)) as E.
    { destruct ub as [u|]; [|reflexivity]. rewrite (Hub u eq_refl). reflexivity. }
    rewrite E. cbn [fst]. rewrite Hlt. reflexivity.
  - intros Hub Hlb.
    assert ((match ub with Some u => if qc_ltb u y then (init, true) else (y, false) | None => (y, false) end) = (y, false)) as E.
    { destruct ub as [u|]; [|reflexivity]. rewrite (Hub u eq_refl). reflexivity. }
    rewrite E. cbn [fst]. destruct lb as [l|]; [|reflexivity]. rewrite (Hlb l eq_refl). reflexivity.
Qed.
Print Assumptions c13_bounds.

(* analytically solved variables seen by the numeric part: whatever the pattern of cache-update
   toggles and intermediate queries issued by the stepper, each query of the analytic integrator returns
   the exact spike-driven solution (C12) *)
Theorem c13_analytic :
  forall (St : Type) (phi : Z -> St -> St) (bump : var -> St -> St) (init : St), (forall s, phi 0 s = s) ->
  forall (spk : list (var * list Z)) (ops : list op), ops_nonneg ops ->
    snd (run St phi bump init true (merge spk) (ai0 St init) ops)
    = map (spec St phi bump init (merge spk)) (flat_map (fun o => match o with Get t => [t] | _ => [] end) ops).
Proof.
  intros St phi bump init H0 spk ops Hn.
  exact (all_outputs_exact St phi bump init H0 true (merge spk) ops (merge_sorted spk) Hn).
Qed.
Print Assumptions c13_analytic.

(* non-vacuity of c13_precise: a concrete precise-mode run (two numeric variables, one spike at t = 3 on the first, the
   stepper answering at 3 and 20) is accepted by [integrate], ends exactly at the requested duration and has applied
   exactly that spike *)
From OdeVerif Require Import Model.MixedIntExec.
Example c13_precise_example :
  let c := {| mBounds := [(None, None, Q2Qc (0 # 1)); (None, None, Q2Qc (4 # 1))]; mIncs := [Q2Qc (0 # 1); Q2Qc (4 # 1)];
              mAlias := false; mSim := 20%Z; mMaxStep := 32%Z; mSpk := [(0%nat, [3%Z])]; mInit := [Q2Qc (0 # 1); Q2Qc (4 # 1)];
              mAnswers := [(3%Z, [Q2Qc (3 # 8); Q2Qc (61 # 16)]); (20%Z, [Q2Qc (5 # 2); Q2Qc (11 # 4)])];
              mObsT := []; mObsY := []; mObsCrossed := false |} in
  exists sf, run_case c = Done _ sf /\ m_t _ sf = 20%Z /\ List.length (m_applied _ sf) = 1%nat
             /\ ev_sorted (merge (mSpk c)) /\ Forall (fun e => (0 < fst e)%Z) (merge (mSpk c)).
Proof.
  cbn zeta. eexists. split; [vm_compute; reflexivity|]. split; [reflexivity|]. split; [reflexivity|].
  split; [exact (merge_sorted _)|]. vm_compute. repeat constructor.
Qed.
