(* C05 — function-of-time entries are reproduced exactly by the ODE that replaces them. *)
From Coq Require Import List Bool Arith Reals.
From Coquelicot Require Import Coquelicot.
From OdeVerif Require Import Model.FromFunction Proofs.FromFunctionP Real.LinODE.
Import ListNotations.
Local Close Scope R_scope.

(* shape of an accepted result, whatever SymPy answers: the order lies between 1 and the documented
   maximum; the identity f^(n) = sum a_k f^(k) was verified (symbolically) at that order and at no lower
   order for which the sampled system was solvable; otherwise the entry is rejected (never approximated) *)
Theorem c05_shape :
  forall (max_t max_order : nat) (nonzero : nat -> bool) (verify1 : bool) (invertible : nat -> nat -> bool) (verify : nat -> bool) (n : nat),
    from_function max_t max_order nonzero verify1 invertible verify = FoundOrder n ->
    1 <= n <= Nat.max 1 max_order /\ accepted_at verify1 invertible verify n /\ (exists t, nonzero t = true) /\
    (1 < n -> verify1 = false /\
       forall k, 1 < k < n -> verify k = false \/ forall t, In t (seq 1 (max_t - 1)) -> invertible k t = false).
Proof. exact from_function_spec. Qed.
Print Assumptions c05_shape.

(* exactness: if f and its derivatives satisfy f^(n) = sum_k a_k f^(k) with CONSTANT a_k (what the
   verified identity says), every update family that is the identity at step 0 and whose step-derivative
   is the companion system at the updated state (C01) yields, from (f(0), ..., f^(n-1)(0)), exactly
   (f(T), ..., f^(n-1)(T)) for every T >= 0 — and over any split of T into steps *)
Open Scope R_scope.
Theorem c05_exact :
  forall (n : nat) (a : nat -> R) (F : R -> nat -> R),
    (forall t k, (S k < n)%nat -> is_derive (fun s => F s k) t (F t (S k))) ->
    (forall t k, S k = n -> is_derive (fun s => F s k) t (rsum n (fun j => a j * F t j))) ->
  forall (Phi : (nat -> R) -> R -> nat -> R),
    (forall x i, (i < n)%nat -> Phi x 0 i = x i) -> (forall x, solves n (companion n a) (fun _ => 0) (Phi x)) ->
  forall T, 0 <= T -> forall k, (k < n)%nat -> Phi (F 0) T k = F T k.
Proof. exact function_reproduced. Qed.
Print Assumptions c05_exact.

Theorem c05_exact_over_steps :
  forall (n : nat) (a : nat -> R) (F : R -> nat -> R),
    (forall t k, (S k < n)%nat -> is_derive (fun s => F s k) t (F t (S k))) ->
    (forall t k, S k = n -> is_derive (fun s => F s k) t (rsum n (fun j => a j * F t j))) ->
  forall (Phi : (nat -> R) -> R -> nat -> R),
    (forall x i, (i < n)%nat -> Phi x 0 i = x i) -> (forall x, solves n (companion n a) (fun _ => 0) (Phi x)) ->
  forall h1 h2, 0 <= h1 -> 0 <= h2 -> forall k, (k < n)%nat -> Phi (Phi (F 0) h1) h2 k = F (h1 + h2) k.
Proof. exact function_reproduced_two_steps. Qed.
Print Assumptions c05_exact_over_steps.

(* non-vacuity: an ideal oracle for a function of minimal order 2 (alpha kernel) gives order 2;
   one of minimal order 5 is rejected with the documented maximum 4 *)
Example c05_nonvacuous :
  from_function 100 4 (fun t => negb (Nat.eqb t 0)) false (fun o _ => Nat.leb o 2) (fun o => Nat.eqb o 2) = FoundOrder 2
  /\ from_function 100 4 (fun _ => true) false (fun o _ => Nat.leb o 5) (fun o => Nat.eqb o 5) = NoOde.
Proof. split; vm_compute; reflexivity. Qed.
