(* C06 — the result depends on the dynamical system, not on how it is presented.
   In the model, variables and parameters are indices: a consistent renaming of names is invisible to
   every model function (parametricity in the carrier); permutation of entries is a relabelling of the
   indices, treated below; equality of the returned maps "as mathematical functions" is uniqueness of
   the flow (C01) and of the row semantics (C02). *)
From Coq Require Import List Bool Arith Reals ZArith.
From OdeVerif Require Import Model.Term Model.Split Model.System Model.Graph Proofs.GraphP Proofs.PresentationP Proofs.SplitP Proofs.SystemP Real.LinODE.
Import ListNotations.
Local Close Scope R_scope.

(* which variables are solved analytically is equivariant under any injective relabelling of the
   dependency graph and of the initial (shape-level + exception) verdicts *)
Theorem c06_perm_verdict :
  forall (pi : nat -> nat), (forall a b, pi a = pi b -> a = b) ->
  forall (E : list edge) (m0 m0' : mark) fuel fuel' q q' m m',
    (forall v, m0' (pi v) = m0 v) ->
    (forall a b, dep E a b -> m0 b = false -> In b q) ->
    (forall a b, dep (relabel pi E) a b -> m0' b = false -> In b q') ->
    propagate fuel E m0 q = Some m -> propagate fuel' (relabel pi E) m0' q' = Some m' ->
    forall v, m' (pi v) = m v.
Proof. exact worklist_equivariant. Qed.
Print Assumptions c06_perm_verdict.

(* two presentations whose right-hand sides are the same function (under the correspondence of
   valuations rho <-> rho') give rows with the same meaning: each row means what the user wrote *)
Theorem c06_rows_agree :
  forall (K T : Type) (rO rI : T) (radd rmul rsub : T -> T -> T) (ropp : T -> T),
    ring_theory rO rI radd rmul rsub ropp (@eq T) ->
  forall (inj : K -> T) (pw : T -> Z -> T), (forall a, pw a 1%Z = a) ->
  forall (rho rho' : atom -> T) fdeps fdeps' (par par' : atom -> bool),
    (forall i, par (AVar i) = false) -> (forall i, par' (AVar i) = false) ->
  forall n n' (sh sh' : shape K) (p p' : poly K),
    sh_def sh = ODE p -> sh_def sh' = ODE p' -> sh_off sh + sh_order sh <= n -> sh_off sh' + sh_order sh' <= n' ->
    ev_poly K T rO rI radd rmul inj pw rho p = ev_poly K T rO rI radd rmul inj pw rho' p' ->
    ev_row K T rO rI radd rmul inj pw rho n (final_row K fdeps par n sh)
    = ev_row K T rO rI radd rmul inj pw rho' n' (final_row K fdeps' par' n' sh').
Proof.
  intros K T rO rI radd rmul rsub ropp RT inj pw pw1 rho rho' fdeps fdeps' par par' Hp Hp' n n' sh sh' p p' H1 H2 H3 H4 Heq.
  rewrite (final_row_is_rhs K T rO rI radd rmul rsub ropp RT inj pw pw1 rho fdeps par Hp n sh p H1 H3).
  rewrite (final_row_is_rhs K T rO rI radd rmul rsub ropp RT inj pw pw1 rho' fdeps' par' Hp' n' sh' p' H2 H4).
  exact Heq.
Qed.
Print Assumptions c06_rows_agree.

(* two update families for one linear system (obtained from two presentations) that are both the
   identity at step 0 and both obey the equations are the same function of the state and the step *)
Open Scope R_scope.
Theorem c06_updates_agree :
  forall n (A : nat -> nat -> R) (b : nat -> R) (Phi Phi' : (nat -> R) -> R -> nat -> R),
    (forall x i, (i < n)%nat -> Phi x 0 i = x i) -> (forall x, solves n A b (Phi x)) ->
    (forall x i, (i < n)%nat -> Phi' x 0 i = x i) -> (forall x, solves n A b (Phi' x)) ->
  forall x h, 0 <= h -> forall i, (i < n)%nat -> Phi x h i = Phi' x h i.
Proof.
  intros n A b Phi Phi' P0 P1 Q0 Q1 x h Hh i Hi.
  apply (lin_ode_unique n A b (Phi x) (Phi' x) (P1 x) (Q1 x)); [|exact Hh|exact Hi].
  intros k Hk. rewrite (P0 x k Hk), (Q0 x k Hk). reflexivity.
Qed.
Print Assumptions c06_updates_agree.

(* the partition does not depend on the ORDER in which dependencies are listed or discovered (nor on an
   edge being listed twice): only the edge relation matters.  (Two seeded changes replaced the worklist by
   order-dependent shortcuts; this is the statement they break.) *)
Theorem c06_edge_order_irrelevant : forall (E E' : list edge) (ml r r' : list bool),
  (forall a b, In (a, b) E <-> In (a, b) E') ->
  (forall a b, In (a, b) E -> (b < length ml)%nat) ->
  propagate_judgements E ml = Some r -> propagate_judgements E' ml = Some r' -> r = r'.
Proof. exact propagate_judgements_edge_order. Qed.
Print Assumptions c06_edge_order_irrelevant.

(* non-vacuity: a chain 2 -> 1 -> 0 below a non-linear node 0, edges listed in another order and one of them twice *)
Example c06_edge_order_example :
  let E := [(1, 0); (2, 1)]%nat in let E' := [(2, 1); (1, 0); (2, 1)]%nat in let ml := [false; true; true] in
  (forall a b, In (a, b) E <-> In (a, b) E') /\ (forall a b, In (a, b) E -> (b < List.length ml)%nat)
  /\ propagate_judgements E ml = Some [false; false; false] /\ propagate_judgements E' ml = Some [false; false; false].
Proof.
  cbn zeta. split; [|split; [|split; vm_compute; reflexivity]].
  - intros a b. cbn [In]. split; intros H; repeat (destruct H as [H|H]; [inversion H; subst; tauto|]); destruct H.
  - intros a b. cbn [In List.length]. intros H. repeat (destruct H as [H|H]; [inversion H; subst; repeat constructor|]); destruct H.
Qed.
