(* C07 — analysis() is a pure function of its arguments: the option store is history-free (model of
   Config + regenerated prelude), and the package writes to no other process-level state (regenerated
   syntactic inventory); that reads of the store and of SymPy's own caches do not leak is validated by
   the fresh-interpreter probe. *)
From Coq Require Import List String Bool.
From OdeVerif Require Import Model.Config Gen.ConfigGen Proofs.ConfigP Gen.StateGen Proofs.StateP.
Import ListNotations.
Open Scope string_scope.

(* the sequence of store operations of one call, REGENERATED from /repo on every run, starts with a
   reset that really restores the defaults, and no path returns before it *)
Theorem c07_prelude_resets_first :
  (exists rest, analysis_prelude = Reset :: rest) /\ reset_restores_defaults = true /\ early_return_before_reset = false.
Proof. split; [eexists; reflexivity|split; reflexivity]. Qed.
Print Assumptions c07_prelude_resets_first.

(* whatever calls were made before (with any options, custom simplifier, flags; successful or
   failing — a failing call leaves its writes behind as well), the store the probe call works with is
   the one it would have in a fresh interpreter *)
Theorem c07_history_free :
  forall (V : Type) (defaults : store V) (hist : list (call V)) (probe : call V) (s0 : store V),
    store_in_call V defaults analysis_prelude probe (after_history V defaults analysis_prelude hist s0)
    = store_in_call V defaults analysis_prelude probe defaults.
Proof.
  intros V defaults hist probe s0.
  destruct c07_prelude_resets_first as [[rest E] _]. rewrite E.
  exact (reset_first_history_free V defaults rest probe _ _).
Qed.
Print Assumptions c07_history_free.

(* every option that the call does not specify has its default during the call *)
Theorem c07_unspecified_is_default :
  forall (V : Type) (defaults : store V) (c : call V) (s : store V) (k : string),
    (forall e, In e (c_options c) -> String.eqb k (fst e) = false) ->
    k <> "simplify_expression" ->
    store_in_call V defaults analysis_prelude c s k = defaults k.
Proof.
  intros V defaults c s k Ho Hk.
  assert (analysis_prelude = Reset :: [ReadOptions; WriteArg "simplify_expression"]) as E by reflexivity.
  rewrite E. apply unspecified_is_default; [exact Ho|].
  intros k' [H|[H|[]]]; [discriminate|]. inversion H; subst. apply String.eqb_neq. exact Hk.
Qed.
Print Assumptions c07_unspecified_is_default.

(* the defaults (config.py literals; the manual's table documents the same keys) *)
Theorem c07_defaults :
  config_defaults =
  [("simplify_expression", "'sympy.simplify(expr)'"); ("expression_simplification_threshold", "1000");
   ("input_time_symbol", "'t'"); ("output_timestep_symbol", "'__h'"); ("differential_order_symbol", "'__d'");
   ("sim_time", "0.1"); ("max_step_size", "999.0"); ("integration_accuracy_abs", "1e-06"); ("integration_accuracy_rel", "1e-06")].
Proof. reflexivity. Qed.
Print Assumptions c07_defaults.

(* the package's functions write to NO process-level state other than the option store (from the three
   places the Config model describes), the verification hook's trace and plot_helper's memoised optional
   imports, and no function has a mutable default argument - decided on the inventory REGENERATED from
   odetoolbox/*.py on every run *)
Theorem c07_no_hidden_state :
  hidden_writes = [] /\ mutable_defaults = [] /\
  (forall w, In w global_writes ->
     snd (fst w) = "Config.config" \/ snd (fst w) = "__init__.py:_verif_trace" \/ fst (fst (fst w)) = "plot_helper.py").
Proof. exact (conj (proj1 no_hidden_state) (conj (proj2 no_hidden_state) writes_classified)). Qed.
Print Assumptions c07_no_hidden_state.
