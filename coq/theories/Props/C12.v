(* C12 — Analytic integrator gives the exact spike-driven solution for any query history.
   Property theorems only; each is closed by [exact <lemma>] and followed by Print Assumptions. *)
From Coq Require Import ZArith List Bool.
From OdeVerif Require Import Model.AnalyticInt Proofs.AnalyticIntP.
Import ListNotations.
Open Scope Z_scope.

(* For every flow phi with phi 0 = id, every increment function, every initial state, every
   spike map (unsorted, duplicated, coincident...), both caching modes and EVERY finite history
   of operations (queries at non-negative times in any order, cache-update toggles, resets):
   the query for t returns spec (merge spk) t — the state obtained by propagating from the
   initial state at time 0 to each spike time s with 0 < s <= t in increasing order, applying all
   increments due at s, and finally propagating to t. *)
Theorem c12_exact :
  forall (St : Type) (phi : Z -> St -> St) (bump : var -> St -> St) (init : St),
    (forall s, phi 0 s = s) ->
  forall (caching : bool) (spk : list (var * list Z)) (ops : list op) (t : Z),
    ops_nonneg ops -> 0 <= t ->
    last (snd (run St phi bump init caching (merge spk) (ai0 St init) (ops ++ [Get t]))) init
    = spec St phi bump init (merge spk) t.
Proof.
  intros St phi bump init H0 caching spk ops t Hn Ht.
  exact (exact_after_any_history St phi bump init H0 caching (merge spk) ops t (merge_sorted spk) Hn Ht).
Qed.
Print Assumptions c12_exact.

(* every answer of a history is the specified one, not only the last *)
Theorem c12_all_outputs :
  forall (St : Type) (phi : Z -> St -> St) (bump : var -> St -> St) (init : St),
    (forall s, phi 0 s = s) ->
  forall (caching : bool) (spk : list (var * list Z)) (ops : list op),
    ops_nonneg ops ->
    snd (run St phi bump init caching (merge spk) (ai0 St init) ops)
    = map (spec St phi bump init (merge spk)) (flat_map (fun o => match o with Get t => [t] | _ => [] end) ops).
Proof.
  intros St phi bump init H0 caching spk ops Hn.
  exact (all_outputs_exact St phi bump init H0 caching (merge spk) ops (merge_sorted spk) Hn).
Qed.
Print Assumptions c12_all_outputs.

(* the value for t does not depend on earlier queries nor on the caching mode *)
Theorem c12_history_independent :
  forall (St : Type) (phi : Z -> St -> St) (bump : var -> St -> St) (init : St),
    (forall s, phi 0 s = s) ->
  forall (caching caching' : bool) (spk : list (var * list Z)) (ops ops' : list op) (t : Z),
    ops_nonneg ops -> ops_nonneg ops' -> 0 <= t ->
    last (snd (run St phi bump init caching (merge spk) (ai0 St init) (ops ++ [Get t]))) init =
    last (snd (run St phi bump init caching' (merge spk) (ai0 St init) (ops' ++ [Get t]))) init.
Proof.
  intros St phi bump init H0 c c' spk ops ops' t H1 H2 H3.
  exact (history_independent St phi bump init H0 c c' (merge spk) ops ops' t (merge_sorted spk) H1 H2 H3).
Qed.
Print Assumptions c12_history_independent.

(* the merged event list: strictly increasing times, exactly the listed times, and at each time
   exactly the listed variables with multiplicity (coincident and duplicated spikes all kept) *)
Theorem c12_merge_sorted : forall spk, times_sorted (merge spk).
Proof. exact merge_sorted. Qed.
Print Assumptions c12_merge_sorted.

Theorem c12_merge_syms : forall spk s,
  syms_at s (merge spk) = map snd (filter (fun p => fst p =? s) (flat spk)).
Proof. exact merge_syms. Qed.
Print Assumptions c12_merge_syms.

Theorem c12_merge_times : forall spk x, In x (times (merge spk)) <-> In x (map fst (flat spk)).
Proof. exact merge_times. Qed.
Print Assumptions c12_merge_times.

(* non-vacuity: a concrete history with a backward query, a repeated query, coincident spikes on
   two variables and a duplicated spike; states are integers, phi adds k to the first component. *)
Example c12_nonvacuous :
  let phi := fun (k : Z) (s : Z * Z) => (fst s + k * snd s, snd s) in
  let bump := fun (v : var) (s : Z * Z) => match v with O => (fst s + 1, snd s) | _ => (fst s, snd s + 10) end in
  let spk := [(1%nat, [5; 3; 3]); (0%nat, [3; 8])] in
  let ops := [Get 4; DisableUpd; Get 9; EnableUpd; Get 2; Get 2; Reset] in
  ops_nonneg ops /\
  snd (run (Z * Z) phi bump (0, 1) true (merge spk) (ai0 _ (0, 1)) (ops ++ [Get 6]))
  = [(25, 21); (171, 31); (2, 1); (2, 1); (77, 31)].
Proof.
  cbv zeta. split.
  - intros t H. cbn in H. repeat (destruct H as [H|H]; [inversion H; subst; apply Z.leb_le; reflexivity|]). destruct H.
  - vm_compute. reflexivity.
Qed.

(* the exact solution does not depend on how the spike map is presented: any two maps listing the
   same (time, variable) pairs — in another order, unsorted, with duplicates kept — give the same state,
   when increments commute *)
Theorem c12_presentation_independent :
  forall (St : Type) (phi : Z -> St -> St) (bump : var -> St -> St) (init : St),
    (forall v w s, bump v (bump w s) = bump w (bump v s)) ->
  forall (spk spk' : list (var * list Z)) (t : Z),
    Permutation.Permutation (flat spk) (flat spk') ->
    spec St phi bump init (merge spk) t = spec St phi bump init (merge spk') t.
Proof. exact spec_presentation_independent. Qed.
Print Assumptions c12_presentation_independent.
