(* C09 — inconsistent dynamics entries are rejected, consistent ones are not. *)
From Coq Require Import List Bool Arith Ascii String Lia.
From OdeVerif Require Import Model.InputCheck Gen.ReservedGen Proofs.InputCheckP.
Import ListNotations.

(* For EVERY identifier, every order k (not only 0..3), any whitespace around the left-hand side and
   any right-hand side without '=', the defining expression has exactly one '=' and is parsed into
   (identifier, k). *)
Theorem c09_parse_wellformed : forall ws1 id k ws2 rhs,
  all is_ws ws1 -> all is_ws ws2 -> valid_ident id -> count eqc rhs = 0 ->
  let s := wf_lhs ws1 id k ws2 ++ [eqc] ++ rhs in
  count eqc s = 1 /\ parse_lhs s = Some (id, k).
Proof. exact parse_wellformed. Qed.
Print Assumptions c09_parse_wellformed.

(* the complete decision table: an entry is accepted iff it has a defining expression with exactly
   one '=' whose left-hand side parses, its initial values fit the order (none for order 0; the single
   spelling iff order 1 — or the dict spelling; never both; with the dict spelling: exactly `order`
   keys, each naming the entry's own variable with fewer primes than the order, no order twice), and the
   name is neither predefined nor contains the derivative marker *)
Theorem c09_accepted_iff : forall reserved marker e sym order,
  check_entry reserved marker e = Accepted sym order <->
  exists s, e_expr e = Some s /\ count eqc s = 1 /\ parse_lhs s = Some (sym, order) /\ iv_ok e sym order
            /\ existsb (str_eqb sym) reserved = false /\ contains marker sym = false.
Proof. exact check_entry_accepts_iff. Qed.
Print Assumptions c09_accepted_iff.

(* consistent entries are never rejected: a rendered well-formed entry of any order is accepted *)
Theorem c09_accepts : forall reserved marker ws1 id k ws2 rhs (keys : list str) (has_single : bool),
  all is_ws ws1 -> all is_ws ws2 -> valid_ident id -> count eqc rhs = 0 ->
  existsb (str_eqb id) reserved = false -> contains marker id = false ->
  (* initial values: the single spelling iff k = 1, or k keys  ws ++ id ++ j primes ++ ws  with the j's
     pairwise distinct and below k, in any order *)
  (has_single = true -> k = 1) ->
  (has_single = false -> List.length keys = k /\ NoDup (map (count prime) keys) /\
     forall key, In key keys -> exists w1 j w2, all is_ws w1 /\ all is_ws w2 /\ j < k /\ key = wf_lhs w1 id j w2) ->
  check_entry reserved marker
    {| e_expr := Some (wf_lhs ws1 id k ws2 ++ [eqc] ++ rhs); e_has_iv := has_single;
       e_ivs := if has_single then None else (if k =? 0 then None else Some keys) |} = Accepted id k.
Proof.
  intros reserved marker ws1 id k ws2 rhs keys has_single H1 H2 Hid Hrhs Hres Hmk Hs Hk.
  apply check_entry_accepts_iff. exists (wf_lhs ws1 id k ws2 ++ [eqc] ++ rhs).
  destruct (parse_wellformed ws1 id k ws2 rhs H1 H2 Hid Hrhs) as [P1 P2].
  split; [reflexivity|]. split; [exact P1|]. split; [exact P2|]. split; [|split; assumption].
  unfold iv_ok. cbn [e_has_iv e_ivs]. destruct has_single.
  - apply Hs. reflexivity.
  - destruct (Hk eq_refl) as [Hl [Hnd Hkeys]]. destruct (Nat.eqb_spec k 0) as [->|Hne]; [reflexivity|].
    split; [exact Hl|]. split; [|exact Hnd].
    intros key Hin. destruct (Hkeys key Hin) as [w1 [j [w2 [Hw1 [Hw2 [Hj ->]]]]]].
    destruct (key_wellformed w1 id j w2 Hw1 Hw2 Hid) as [K1 K2]. split; [exact K1|rewrite K2; exact Hj].
Qed.
Print Assumptions c09_accepts.

(* inconsistent entries are rejected; with the malformed-input error for every '=' and
   initial-value inconsistency (the name cases give an error of some kind) *)
Theorem c09_rejects : forall reserved marker e,
  (e_expr e = None -> check_entry reserved marker e = Malformed) /\
  (forall s, e_expr e = Some s -> count eqc s <> 1 -> check_entry reserved marker e = Malformed) /\
  (forall s sym order, e_expr e = Some s -> count eqc s = 1 -> parse_lhs s = Some (sym, order) -> ~ iv_ok e sym order ->
     check_entry reserved marker e = Malformed) /\
  (forall s sym order, e_expr e = Some s -> count eqc s = 1 -> parse_lhs s = Some (sym, order) ->
     (existsb (str_eqb sym) reserved = true \/ contains marker sym = true) ->
     forall sym' order', check_entry reserved marker e <> Accepted sym' order').
Proof.
  intros reserved marker e. split; [|split; [|split]].
  - intros H. unfold check_entry. rewrite H. reflexivity.
  - intros s H Hc. unfold check_entry. rewrite H. destruct (Nat.eqb_spec (count eqc s) 1); [contradiction|reflexivity].
  - intros s sym order H Hc Hp Hiv.
    destruct (check_entry reserved marker e) as [| |sym' order'] eqn:E; [reflexivity| |].
    + exfalso. destruct (check_entry_name_error reserved marker e E) as [s' [sym' [order' [A [B [C0 _]]]]]].
      rewrite H in A. inversion A; subst s'. rewrite Hp in B. inversion B; subst. contradiction.
    + exfalso. apply check_entry_accepts_iff in E. destruct E as [s' [A [_ [B [C0 _]]]]].
      rewrite H in A. inversion A; subst s'. rewrite Hp in B. inversion B; subst. contradiction.
  - intros s sym order H Hc Hp Hn sym' order' E. apply check_entry_accepts_iff in E.
    destruct E as [s' [A [_ [B [_ [N1 N2]]]]]]. rewrite H in A. inversion A; subst s'. rewrite Hp in B. inversion B; subst.
    destruct Hn as [Hn|Hn]; congruence.
Qed.
Print Assumptions c09_rejects.

(* a system is accepted iff each of its entries is; the first offending entry decides the error *)
Definition check_system (reserved : list str) (marker : str) (l : list entry) : option verdict :=
  find (fun v => match v with Accepted _ _ => false | _ => true end) (map (check_entry reserved marker) l).

Theorem c09_system : forall reserved marker l,
  check_system reserved marker l = None <->
  forall e, In e l -> exists sym order, check_entry reserved marker e = Accepted sym order.
Proof.
  intros reserved marker l. unfold check_system. induction l as [|e l IH]; cbn [map find].
  - split; [intros _ e []|reflexivity].
  - destruct (check_entry reserved marker e) eqn:E.
    + split; [discriminate|]. intros H. destruct (H e (or_introl eq_refl)) as [s [o Hc]]. congruence.
    + split; [discriminate|]. intros H. destruct (H e (or_introl eq_refl)) as [s [o Hc]]. congruence.
    + rewrite IH. split.
      * intros H e' [<-|He']; [eauto|apply H; exact He'].
      * intros H e' He'. apply H. right. exact He'.
Qed.
Print Assumptions c09_system.

(* non-vacuity with the regenerated reserved names: a third-order entry with shuffled, padded keys is
   accepted; the same entry named like a predefined symbol is not *)
Local Open Scope string_scope.
Example c09_nonvacuous :
  let L := list_ascii_of_string in
  check_entry reserved_names (L "__d")
    {| e_expr := Some (L "  V_m'''  = -V_m - 2*V_m' - V_m''/3"); e_has_iv := false;
       e_ivs := Some [L "V_m''"; L " V_m"; L "V_m' "] |} = Accepted (L "V_m") 3
  /\ check_entry reserved_names (L "__d")
    {| e_expr := Some (L "exp' = -exp"); e_has_iv := true; e_ivs := None |} = NameError.
Proof. split; vm_compute; reflexivity. Qed.
