(* C10 — the Jacobian handed to implicit solvers is the true Jacobian of the right-hand side. *)
From Coq Require Import List Arith Ring.
From OdeVerif Require Import Proofs.JacobianP.
Import ListNotations.

(* For every commutative ring T with derivations d_j (additive, Leibniz), every dimension n, every
   d-constant A and b, every nonlinear part c:  the partial derivative of the COMPLETE right-hand side
   sum_k A_ik x_k + b_i + c_i  with respect to x_j is  A_ij + d_j c_i  — which is what the model of
   get_jacobian_matrix (Model/Jacobian.jac_row) assembles, entry by entry. *)
Theorem c10_jacobian :
  forall (T : Type) (rO rI : T) (radd rmul rsub : T -> T -> T) (ropp : T -> T),
    ring_theory rO rI radd rmul rsub ropp (@eq T) ->
  forall (d : nat -> T -> T),
    (forall j a b, d j (radd a b) = radd (d j a) (d j b)) ->
    (forall j a b, d j (rmul a b) = radd (rmul (d j a) b) (rmul a (d j b))) ->
    (forall j, d j rO = rO) ->
  forall (n : nat) (x : nat -> T), (forall j k, d j (x k) = if Nat.eqb j k then rI else rO) ->
  forall (A : nat -> nat -> T) (b c : nat -> T),
    (forall i k j, d j (A i k) = rO) -> (forall i j, d j (b i) = rO) ->
  forall i j, j < n ->
    d j (rhs T rO radd rmul n x A b c i) = radd (A i j) (d j (c i)).
Proof.
  intros T rO rI radd rmul rsub ropp RT d H1 H2 H3 n x Hx A b c HA Hb i j Hj.
  exact (jacobian_entry T rO rI radd rmul rsub ropp RT d H1 H2 H3 n x Hx A b c HA Hb i j Hj).
Qed.
Print Assumptions c10_jacobian.

(* the expression that sums the entries of A without multiplying by the state variables has the
   derivative of c alone: the linear part is lost (this was the pinned tree's behaviour) *)
Theorem c10_defect_characterised :
  forall (T : Type) (rO rI : T) (radd rmul rsub : T -> T -> T) (ropp : T -> T),
    ring_theory rO rI radd rmul rsub ropp (@eq T) ->
  forall (d : nat -> T -> T),
    (forall j a b, d j (radd a b) = radd (d j a) (d j b)) -> (forall j, d j rO = rO) ->
  forall (n : nat) (A : nat -> nat -> T) (c : nat -> T), (forall i k j, d j (A i k) = rO) ->
  forall i j, d j (radd (sum T rO radd (seq 0 n) (fun k => A i k)) (c i)) = d j (c i).
Proof.
  intros T rO rI radd rmul rsub ropp RT d H1 H3 n A c HA i j.
  exact (without_variables_linear_part_is_lost T rO rI radd rmul rsub ropp RT d H1 H3 n A c HA i j).
Qed.
Print Assumptions c10_defect_characterised.

(* the model of get_jacobian_matrix assembles exactly  A_ij + (derivative of c_i), entry by entry *)
From Coq Require Import ZArith.
From OdeVerif Require Import Model.Term Model.Split Model.System Model.Jacobian Proofs.SplitP.
Theorem c10_model_entry :
  forall (K T : Type) (rO rI : T) (radd rmul rsub : T -> T -> T) (ropp : T -> T),
    ring_theory rO rI radd rmul rsub ropp (@eq T) ->
  forall (inj : K -> T) (pw : T -> Z -> T) (rho : atom -> T) (kscale : Z -> K -> K) (r : row K) (j g : nat),
    ev_poly K T rO rI radd rmul inj pw rho (pnth (rA r) j ++ dpoly K kscale (rc r) (AVar g)) =
    radd (ev_poly K T rO rI radd rmul inj pw rho (pnth (rA r) j))
         (ev_poly K T rO rI radd rmul inj pw rho (dpoly K kscale (rc r) (AVar g))).
Proof.
  intros K T rO rI radd rmul rsub ropp RT inj pw rho kscale r j g.
  exact (evp_app K T rO rI radd rmul rsub ropp RT inj pw rho _ _).
Qed.
Print Assumptions c10_model_entry.

(* the formal derivative with which the model stands in for sympy.diff on the nonlinear part is a
   derivative: for polynomials whose monomials mention the variable at most once (canonical terms) *)
From OdeVerif Require Import Proofs.DPolyP.
Theorem c10_formal_derivative :
  forall (K T : Type) (rO rI : T) (radd rmul rsub : T -> T -> T) (ropp : T -> T),
    ring_theory rO rI radd rmul rsub ropp (@eq T) ->
  forall (inj : K -> T) (pw : T -> Z -> T) (rho : atom -> T) (kscale : Z -> K -> K) (zinj : Z -> T),
    (forall e c, inj (kscale e c) = rmul (zinj e) (inj c)) -> (forall a, pw a 0%Z = rI) ->
  forall (x : atom) (d : T -> T),
    (forall a b, d (radd a b) = radd (d a) (d b)) -> (forall a b, d (rmul a b) = radd (rmul (d a) b) (rmul a (d b))) ->
    d rO = rO -> d rI = rO -> (forall c, d (inj c) = rO) -> d (rho x) = rI -> (forall a, a <> x -> d (rho a) = rO) ->
    (forall a e, d (pw a e) = rmul (rmul (zinj e) (pw a (e - 1)%Z)) (d a)) ->
  forall p : poly K, Forall (fun t => occurs_once x (pows t)) p ->
    ev_poly K T rO rI radd rmul inj pw rho (dpoly K kscale p x) = d (ev_poly K T rO rI radd rmul inj pw rho p).
Proof.
  intros K T rO rI radd rmul rsub ropp RT inj pw rho kscale zinj H1 H2 x d D1 D2 D3 D4 D5 D6 D7 D8 p Hp.
  exact (dpoly_is_derivative K T rO rI radd rmul rsub ropp RT inj pw rho kscale zinj H1 H2 x d D1 D2 D3 D4 D5 D6 D7 D8 p Hp).
Qed.
Print Assumptions c10_formal_derivative.
