(* C14 — Solver recommendation is the documented function of fairly measured step sizes.
   The decision function and the seeded/drawn generator sets are REGENERATED from /repo on every
   run (Gen/DecisionGen.v, Gen/RngGen.v); the statements below are the documented table. *)
From Coq Require Import String Bool List ZArith.
From OdeVerif Require Import Gen.DecisionGen Gen.RngGen Model.Stiffness Proofs.StiffnessP.
Import ListNotations.
Open Scope string_scope.

Section Table.
  Variable T : Type.
  Variables ltb leb : T -> T -> bool.     (* strict / non-strict comparison of step sizes *)
  Variable mul : T -> T -> T.
  Hypothesis ltb_asym : forall a b, ltb a b = true -> ltb b a = false.

  (* argument order as documented: min implicit, min explicit, average implicit, average explicit,
     distance ratio r, average ratio q, machine epsilon *)
  Notation draw := (draw_decision T ltb leb mul).
  Variables mi me ai ae r q eps : T.
  Notation thr := (mul r eps).            (* the permissible minimum *)

  (* only the explicit minimum is below the permissible minimum -> implicit *)
  Theorem c14_only_explicit_below : ltb thr mi = true -> ltb me thr = true -> draw mi me ai ae r q eps = "implicit".
  Proof. intros H1 H2. unfold draw_decision. rewrite H1, H2. reflexivity. Qed.

  (* only the implicit minimum is below it -> explicit *)
  Theorem c14_only_implicit_below : ltb mi thr = true -> ltb thr me = true -> draw mi me ai ae r q eps = "explicit".
  Proof. intros H1 H2. unfold draw_decision. rewrite H1, H2, (ltb_asym _ _ H1). reflexivity. Qed.

  (* both below -> warning *)
  Theorem c14_both_below : ltb mi thr = true -> ltb me thr = true -> draw mi me ai ae r q eps = "warning".
  Proof. intros H1 H2. unfold draw_decision. rewrite H1, H2, (ltb_asym _ _ H1), (ltb_asym _ _ H2). reflexivity. Qed.

  (* neither below: implicit iff the implicit average exceeds q times the explicit average *)
  Theorem c14_neither_below_implicit : ltb thr mi = true -> ltb thr me = true -> ltb (mul q ae) ai = true ->
    draw mi me ai ae r q eps = "implicit".
  Proof. intros H1 H2 H3. unfold draw_decision. rewrite H1, H2, H3, (ltb_asym _ _ H1), (ltb_asym _ _ H2). reflexivity. Qed.

  Theorem c14_neither_below_explicit : ltb thr mi = true -> ltb thr me = true -> ltb ai (mul q ae) = true ->
    draw mi me ai ae r q eps = "explicit".
  Proof. intros H1 H2 H3. unfold draw_decision. rewrite H1, H2, (ltb_asym _ _ H3), (ltb_asym _ _ H1), (ltb_asym _ _ H2). reflexivity. Qed.
End Table.
Print Assumptions c14_only_explicit_below.
Print Assumptions c14_only_implicit_below.
Print Assumptions c14_both_below.
Print Assumptions c14_neither_below_implicit.
Print Assumptions c14_neither_below_explicit.

(* parameter order and documented default ratios of the regenerated function *)
Theorem c14_signature :
  draw_params = ["step_min_imp"; "step_min_exp"; "step_average_imp"; "step_average_exp";
                 "machine_precision_dist_ratio"; "avg_step_size_ratio"; "machine_precision"]
  /\ draw_defaults = [("machine_precision_dist_ratio", 10%Z); ("avg_step_size_ratio", 6%Z)].
Proof. split; reflexivity. Qed.
Print Assumptions c14_signature.

(* fairness / reproducibility: every generator the spike generator draws from is re-seeded with the
   tester's seed before each candidate's benchmark, hence each candidate's spike train is a function
   of the seed alone — the two candidates see the same train, and two runs with one seed agree. *)
Theorem c14_drawn_generators_are_seeded : subset drawn_gens seeded_gens = true.
Proof. reflexivity. Qed.
Print Assumptions c14_drawn_generators_are_seeded.

Theorem c14_fair :
  forall (rng : Type) (seeded_state : nat -> rng) (train : Type) (spikes : world rng -> train),
    (forall w w' : world rng, (forall g, In g drawn_gens -> w g = w' g) -> spikes w = spikes w') ->
  forall (s : nat) (w w' : world rng),
    candidate_train rng seeded_state train spikes seeded_gens s w =
    candidate_train rng seeded_state train spikes seeded_gens s w'.
Proof.
  intros rng ss train spikes Hreads s w w'.
  exact (train_depends_on_seed_only rng ss train spikes seeded_gens drawn_gens Hreads
           c14_drawn_generators_are_seeded s w w').
Qed.
Print Assumptions c14_fair.

Theorem c14_name : forall rec, exists suf, solver_name rec = "numeric" ++ suf
                    /\ (match rec with None => suf = "" | Some r => suf = "-" ++ r end).
Proof. exact solver_name_prefix. Qed.
Print Assumptions c14_name.

(* non-vacuity: integers with the usual order; all five hypotheses patterns are satisfiable *)
Example c14_nonvacuous :
  (draw_decision Z Z.ltb Z.leb Z.mul 50 1 7 7 10 6 2 = "implicit" /\
   draw_decision Z Z.ltb Z.leb Z.mul 1 50 7 7 10 6 2 = "explicit" /\
   draw_decision Z Z.ltb Z.leb Z.mul 1 2 7 7 10 6 2 = "warning" /\
   draw_decision Z Z.ltb Z.leb Z.mul 50 60 700 7 10 6 2 = "implicit" /\
   draw_decision Z Z.ltb Z.leb Z.mul 50 60 7 7 10 6 2 = "explicit")%Z.
Proof. vm_compute. repeat split. Qed.

(* the wiring of the benchmark into the decision, REGENERATED from check_stiffness on every run: both candidates are
   benchmarked, unconditionally, the explicit one first; and the parameter that the decision function (and the table
   theorems above) call the implicit / explicit minimum / average step size receives exactly that measurement *)
From OdeVerif Require Import Gen.WiringGen.
Theorem c14_wiring :
  benchmarked = [Explicit; Implicit] /\
  decision_arguments = [(Implicit, MinStep); (Explicit, MinStep); (Implicit, AvgStep); (Explicit, AvgStep)] /\
  firstn 4 draw_params = ["step_min_imp"%string; "step_min_exp"%string; "step_average_imp"%string; "step_average_exp"%string].
Proof. repeat split; reflexivity. Qed.
Print Assumptions c14_wiring.
