#!/bin/bash
# setup_cmd: offline build of the Coq development from clean (full .vo build) + translator run.
set -e
cd "$(dirname "$0")"
export PYTHONDONTWRITEBYTECODE=1
/venv/bin/python - <<'PY'
import sys
from harness import common as C
r = C.coq_build(clean=True)
print(r["log"][-1500:])
if r["translate_errors"]:
    print("translator:", r["translate_errors"])
if not r["ok"]:
    print("setup: coq build incomplete:", r["failed"])
    sys.exit(1)
bad = C.forbidden_scan(C.project_files())
if bad:
    print("forbidden constructs:", bad); sys.exit(1)
print("setup ok: %d files built in %.0fs" % (len(C.project_files()), r["wall_s"]))
PY
